"""Sidecar contracts for the real hydrodiy sources (no file of /repo is edited)."""
