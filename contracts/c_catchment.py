"""Contracts for src/hydrodiy/gis/c_catchment.c (C05 safety for every kernel, C06 river / flow-path steps)."""
from vf.contract import cfile
from contracts.c_grid import F as G, SANE_GRID, FDC_IS

F = cfile("src/hydrodiy/gis/c_catchment.c")
F.use(G)        # specs and callee contracts of c_grid.c (getnxy, c_upstream, c_downstream, getcoord)

VALIDFD = "valid(flowdircode, 9) and valid(flowdir, nrows*ncols)"

# ---------------------------------------------------------------------------------- c_delineate_area
K = F.kernel("c_delineate_area")
K.requires(SANE_GRID)
K.requires("nval <= 2**58 and ninlets >= 0 and ninlets <= 2**60")
K.requires(VALIDFD + " and valid(idxinlets, ninlets)")
K.requires("implies(nval >= 1, valid(idxcells_area, nval) and valid(buffer1, nval) and valid(buffer2, nval))")
K.requires("separated(flowdircode, flowdir, idxinlets, idxcells_area, buffer1, buffer2)")
K.assigns("idxcells_area[0:nval]", "buffer1[0:nval]", "buffer2[0:nval]")
K.behavior("bad_buffer", "nval < 1", "result > 0", props=["C05"])
K.behavior("bad_outlet", "not valid_cell(nrows, ncols, idxoutlet)", "result > 0", props=["C05", "C06"])
K.behavior("bad_inlet", "nval >= 1 and valid_cell(nrows, ncols, idxoutlet) and exists(m, 0 <= m < ninlets, not valid_cell(nrows, ncols, idxinlets[m]))", "result > 0", props=["C05", "C06"])
K.loop(0, var="m", invariant=["0 <= m and m <= ninlets", "forall(q, 0 <= q < m, valid_cell(nrows, ncols, idxinlets[q]))"])
AREA_INV = ("nval >= 1 and 0 <= i and i <= nval - 1 and 0 <= nbuffer2 and nbuffer2 <= nval and nlayer >= 0 and nlayer <= i and "
            "valid_cell(nrows, ncols, idxoutlet)")
K.loop(1, var="nlayer", invariant=[AREA_INV, "nbuffer2 <= i + 1",
                                   "forall(q, 0 <= q < nbuffer2, valid_cell(nrows, ncols, buffer2[q]))",
                                   "implies(nlayer >= 1, nbuffer2 >= 1)"],
       variant="nval - i + ite(nlayer == 0, 1, 0)")
K.loop(2, var="l", invariant=["0 <= l and l <= nbuffer2", "forall(q, 0 <= q < l, buffer1[q] == buffer2[q])",
                               "forall(q, 0 <= q < nbuffer2, valid_cell(nrows, ncols, buffer2[q]))"])
K.loop(3, var="l", invariant=["0 <= l and l <= nbuffer1 and nbuffer1 <= nval and 0 <= i and i <= nval - 1 and 0 <= nbuffer2 and nbuffer2 <= nval - 1",
                               "nbuffer2 <= i - at_loop_entry(i) and at_loop_entry(i) <= i",
                               "forall(q, 0 <= q < nbuffer1, valid_cell(nrows, ncols, buffer1[q]))",
                               "forall(q, 0 <= q < nbuffer2, valid_cell(nrows, ncols, buffer2[q]))"])
K.loop(4, var="k")          # 9 upstream slots: fully unrolled
K.loop(5, var="m", invariant=["0 <= m and m <= ninlets"])

# ---------------------------------------------------------------------------------- c_delineate_boundary
K = F.kernel("c_delineate_boundary")
K.requires(SANE_GRID)
K.requires("nval <= 2**40")
K.requires("implies(nval >= 1, valid(idxcells_area, nval) and valid(buffer, nval) and valid(idxcells_boundary, nval))")
K.requires("valid(catchment_area_mask, nrows*ncols)")
K.requires("separated(idxcells_area, buffer, catchment_area_mask, idxcells_boundary)")
# content precondition: the area cells are cells of the grid
K.requires("forall(q, 0 <= q < nval, valid_cell(nrows, ncols, idxcells_area[q]))")
K.assigns("idxcells_area[0:nval]", "buffer[0:nval]", "idxcells_boundary[0:nval]")     # C18: the area vector is sorted in place
K.behavior("bad_buffer", "nval < 1", "result > 0", props=["C05"])
K.loop(0, var="i", invariant=["nval >= 1 and 1 <= i and i <= nval and 1 <= nbuffer and nbuffer <= i and ngrid == nrows*ncols",
                               "forall(q, 0 <= q < nval, valid_cell(nrows, ncols, idxcells_area[q]))",
                               "forall(q, 0 <= q < nbuffer, valid_cell(nrows, ncols, buffer[q]))"])
K.loop(1, var="k")          # 4 neighbours: unrolled
K.loop(2, var="ibnd", invariant=["nval >= 1 and 0 <= ibnd and ibnd <= nbuffer and 1 <= nbuffer and nbuffer <= nval",
                                  "forall(q, 0 <= q < nbuffer, buffer[q] == -1 or valid_cell(nrows, ncols, buffer[q]))",
                                  "valid_cell(nrows, ncols, idxcell)",
                                  "next == -1 or valid_cell(nrows, ncols, next)",
                                  "(knext == -1 and next == -1 and ibnd == 0) or (0 <= knext and knext < nbuffer and valid_cell(nrows, ncols, next))",
                                  "valid_cell(nrows, ncols, start) and distmax >= 1 and distmax <= 2**30"])
K.loop(3, var="k", invariant=["0 <= k and k <= nbuffer",
                               "next == -1 or valid_cell(nrows, ncols, next)",
                               "(knext == -1 and next == -1 and ibnd == 0) or (0 <= knext and knext < nbuffer and valid_cell(nrows, ncols, next))",
                               "0 <= dmin and dmin <= distmax*distmax"])

# ---------------------------------------------------------------------------------- c_exclude_zero_area_boundary
K = F.kernel("c_exclude_zero_area_boundary")
K.requires("nval <= 2**60")
K.requires("implies(nval >= 3, valid(xycoords, 2*nval) and valid(idxok, nval))")
K.requires("separated(xycoords, idxok)")
K.assigns("idxok[0:nval]")
K.behavior("short", "nval <= 2", "result > 0", props=["C05"])
K.behavior("ok", "nval >= 3", "result == 0 and forall(q, 0 <= q < nval, idxok[q] == 1)", props=["C05"])
K.loop(0, var="i", invariant=["nval >= 3 and 1 <= i and i <= nval - 1", "idxok[0] == 1 and idxok[nval-1] == 1", "forall(q, 1 <= q < i, idxok[q] == 1)"])

# ---------------------------------------------------------------------------------- c_delineate_river (C06)
K = F.kernel("c_delineate_river")
K.requires(SANE_GRID)
K.requires("nval <= 2**58")
K.requires(VALIDFD + " and valid(npoints, 1)")
K.requires("implies(nval >= 1, valid(idxcells, nval) and valid(data, 5*nval))")
K.requires("separated(flowdircode, flowdir, npoints, idxcells, data)")
K.requires("not isnan(xll) and not isnan(yll) and not isnan(csz)")
K.assigns("npoints[0:1]", "idxcells[0:nval]", "data[0:5*nval]")
K.behavior("bad_start", "not valid_cell(nrows, ncols, idxupstream)", "result > 0", props=["C05", "C06"])
RIVER = [
    # the trace starts at the requested cell and follows the downstream relation cell by cell
    "implies({m} >= 1, idxcells[0] == old(idxupstream))",
    "forall(k, 0 <= k < {m}, valid_cell(nrows, ncols, idxcells[k]))",
    "implies(" + FDC_IS + ", forall(k, 1 <= k < {m}, idxcells[k] == down(nrows, ncols, flowdir[idxcells[k-1]], idxcells[k-1])))",
    # columns 1, 2: column / row offset from the previous cell (0 for the first); column 0: cumulated Euclidean distance in cells
    "implies({m} >= 1, data[0] == 0 and data[1] == 0 and data[2] == 0)",
    "forall(k, 1 <= k < {m}, data[5*k+1] == real(col_of(ncols, idxcells[k-1]) - col_of(ncols, idxcells[k])) and "
    "data[5*k+2] == real(row_of(ncols, idxcells[k-1]) - row_of(ncols, idxcells[k])))",
    # columns 3, 4: centre of the cell
    "forall(k, 0 <= k < {m}, data[5*k+3] == centre_x(xll, csz, col_of(ncols, idxcells[k])) and "
    "data[5*k+4] == centre_y(nrows, yll, csz, row_of(ncols, idxcells[k])))",
]
K.behavior("trace", "valid_cell(nrows, ncols, idxupstream)",
           ["result == 0", "0 <= npoints[0] and (npoints[0] <= nval or nval < 0) and (npoints[0] >= 1 or nval <= 0)"] + [e.format(m="npoints[0]") for e in RIVER]
           # it stops at the first cell that drains nowhere, or when the buffer is full
           + ["implies(" + FDC_IS + " and npoints[0] >= 1 and npoints[0] < nval, down(nrows, ncols, flowdir[idxcells[npoints[0]-1]], idxcells[npoints[0]-1]) < 0)"],
           props=["C06"])
# the cumulated distance advances by the Euclidean length of each step (1 orthogonal, sqrt(2) diagonal).  This clause is
# BOUNDED (evaluated on enumerated executions of the real kernel): its proof obligations were discharged only by cvc5 after
# 30-50 s and not reliably under load, so it is not claimed as proved (fall-back rule of DESIGN.md section 11)
K.bounded("forall(k, 1 <= k < npoints[0], data[5*k] == data[5*(k-1)] + sqrt(data[5*k+1]*data[5*k+1] + data[5*k+2]*data[5*k+2]))",
          assumes="valid_cell(nrows, ncols, idxupstream)", props=["C06"])
K.bounded("forall(k, 1 <= k < npoints[0], data[5*k+1]*data[5*k+1] + data[5*k+2]*data[5*k+2] == 1 or data[5*k+1]*data[5*k+1] + data[5*k+2]*data[5*k+2] == 2)",
          assumes="valid_cell(nrows, ncols, idxupstream) and " + FDC_IS, props=["C06"])
K.loop(0, var="i", invariant=[
    "0 <= i and (i <= nval or nval < 0) and npoints[0] == i and valid_cell(nrows, ncols, idxupstream) and valid_cell(nrows, ncols, old(idxupstream))",
    "not isnan(dist) and not isnan(dx) and not isnan(dy)",
    "implies(i == 0, idxupstream == old(idxupstream) and dist == 0 and dx == 0 and dy == 0)",
    "implies(i >= 1, dist == data[5*(i-1)] and dx == real(col_of(ncols, idxcells[i-1]) - col_of(ncols, idxupstream)) and "
    "dy == real(row_of(ncols, idxcells[i-1]) - row_of(ncols, idxupstream)))",
    "implies(" + FDC_IS + " and i >= 1, idxupstream == down(nrows, ncols, flowdir[idxcells[i-1]], idxcells[i-1]))",
] + [e.format(m="i") for e in RIVER])

# ---------------------------------------------------------------------------------- c_delineate_flowpathlengths_in_catchment (C06)
K = F.kernel("c_delineate_flowpathlengths_in_catchment")
K.requires(SANE_GRID)
K.requires("nval >= 0 and nval <= 2**58")
K.requires(VALIDFD + " and valid(idxcells_area, nval) and valid(flowpathlengths, 3*nval)")
K.requires("separated(flowdircode, flowdir, idxcells_area, flowpathlengths)")
K.assigns("flowpathlengths[0:3*nval]")
K.ensures("result == 0")
K.ensures("forall(k, 0 <= k < nval, flowpathlengths[3*k] == real(idxcells_area[k]))", props=["C06"])
K.loop(0, var="i", invariant=["0 <= i and i <= nval", "forall(k, 0 <= k < i, flowpathlengths[3*k] == real(idxcells_area[k]))"])
K.loop(1, var="ipath", invariant=["0 <= i and i < nval and 0 <= ipath and ipath <= nval and not isnan(length) and length >= 0",
                                   "idxcell_down[0] == -1 or valid_cell(nrows, ncols, idxcell_down[0])",
                                   "implies(ipath >= 1, valid_cell(nrows, ncols, idxcell_up[0]))",
                                   "implies(ipath == 0, idxcell_down[0] == -1)"],
       variant="nval - ipath")


# ---------------------------------------------------------------------------------- c_delineate_area: functional contract (C06)
# On success the listed cells are exactly the least set that contains every non-inlet cell draining into the outlet or into a
# listed cell (CLOSED), each of them is there because its downstream cell is the outlet or is listed EARLIER (SOUND: so its
# downstream chain reaches the outlet through listed, i.e. non-inlet, cells), and the outlet itself is listed when anything is.
# The caller pre-fills the vector with -1 (grid.py does) and counts the entries >= 0.
K = F.kernel("c_delineate_area#reach")
K.requires(SANE_GRID)
K.requires("nval <= 2**58 and ninlets >= 0 and ninlets <= 2**60")
K.requires(VALIDFD + " and valid(idxinlets, ninlets)")
K.requires("implies(nval >= 1, valid(idxcells_area, nval) and valid(buffer1, nval) and valid(buffer2, nval))")
K.requires("separated(flowdircode, flowdir, idxinlets, idxcells_area, buffer1, buffer2)")
K.requires(FDC_IS)
K.requires("forall(q, 0 <= q < nval, idxcells_area[q] == -1)")
K.assigns("idxcells_area[0:nval]", "buffer1[0:nval]", "buffer2[0:nval]")
K.ghost("dn(c)", "int", "down(nrows, ncols, flowdir[c], c)")
K.ghost("inl(c)", "bool", "exists(m, 0 <= m < ninlets, idxinlets[m] == c)")
A = "idxcells_area"
def _sound(n):
    # four separate clauses (smaller instances for the solver); the post-condition states them as one
    return ["forall(q, 0 <= q < %s, %s[q] != -1)" % (n, A),
            "forall(q, 0 <= q < %s, %s[q] == idxoutlet or valid_cell(nrows, ncols, %s[q]))" % (n, A, A),
            "forall(q, 0 <= q < %s, %s[q] == idxoutlet or not inl(%s[q]))" % (n, A, A),
            "forall(q, 0 <= q < %s, %s[q] == idxoutlet or dn(%s[q]) == idxoutlet or exists(p, 0 <= p < q, %s[p] == dn(%s[q])))" % (n, A, A, A, A)]
def _tail(n):
    return "forall(q, %s <= q < nval, %s[q] == -1)" % (n, A)
def _closed(n, pending):
    return ("forall(c, 0 <= c < nrows*ncols, implies(not inl(c) and dn(c) >= 0 and (dn(c) == idxoutlet or exists(p, 0 <= p < %s, %s[p] == dn(c))), "
            "exists(q, 0 <= q < %s, %s[q] == c)%s))" % (n, A, n, A, pending))
OK0 = "result == 0"
K.ensures("implies(%s, %s)" % (OK0, "forall(q, 0 <= q < nval, %s[q] == -1 or (%s[q] == idxoutlet or (valid_cell(nrows, ncols, %s[q]) and not inl(%s[q]) and "
          "(dn(%s[q]) == idxoutlet or exists(p, 0 <= p < q, %s[p] == dn(%s[q]))))))" % (A, A, A, A, A, A, A)), props=["C06"])
K.ensures("implies(%s, %s)" % (OK0, _closed("nval", "")), props=["C06"])
K.ensures("implies(%s and exists(q, 0 <= q < nval, %s[q] != -1), exists(q, 0 <= q < nval, %s[q] == idxoutlet))" % (OK0, A, A), props=["C06"])
K.ensures("implies(%s, forall(q, 0 <= q < nval - 1, implies(%s[q] == -1, %s[q+1] == -1)))" % (OK0, A, A), props=["C06"])
K.loop(0, var="m", invariant=["0 <= m and m <= ninlets", "forall(q, 0 <= q < m, valid_cell(nrows, ncols, idxinlets[q]))"])
OUT = "implies(nlayer == 0, i == 0) and implies(nlayer >= 1, exists(q, 0 <= q < i, %s[q] == idxoutlet))" % A
def _front(buf, n):
    return "forall(r, 0 <= r < %s, valid_cell(nrows, ncols, %s[r]) and ((nlayer == 0 and %s[r] == idxoutlet) or exists(p, 0 <= p < i, %s[p] == %s[r])))" % (n, buf, buf, A, buf)
K.loop(1, var="nlayer", invariant=[AREA_INV, "nbuffer2 <= i + 1", "implies(nlayer >= 1, nbuffer2 >= 1)",
                                   _tail("i")] + _sound("i") + [_front("buffer2", "nbuffer2"), OUT,
                                   "implies(nlayer == 0, nbuffer2 == 1 and buffer2[0] == idxoutlet)",
                                   _closed("i", " or exists(r, 0 <= r < nbuffer2, buffer2[r] == dn(c))")],
       variant="nval - i + ite(nlayer == 0, 1, 0)")
K.loop(2, var="l", invariant=["0 <= l and l <= nbuffer2", "forall(q, 0 <= q < l, buffer1[q] == buffer2[q])"])
L3 = ["0 <= l and l <= nbuffer1 and nbuffer1 <= nval and 0 <= i and i <= nval - 1 and 0 <= nbuffer2 and nbuffer2 <= i and nlayer >= 0",
      "valid_cell(nrows, ncols, idxoutlet)",
      _tail("i")] + _sound("i") + [_front("buffer1", "nbuffer1"),
      "forall(r, 0 <= r < nbuffer2, valid_cell(nrows, ncols, buffer2[r]) and exists(p, 0 <= p < i, %s[p] == buffer2[r]))" % A,
      "implies(nlayer == 0, nbuffer1 == 1 and buffer1[0] == idxoutlet and i == nbuffer2) and implies(nlayer >= 1, exists(q, 0 <= q < i, %s[q] == idxoutlet))" % A]
K.loop(3, var="l", invariant=L3 + ["i - nbuffer2 == at_loop_entry(i)",
      _closed("i", " or exists(r, l <= r < nbuffer1, buffer1[r] == dn(c)) or exists(r, 0 <= r < nbuffer2, buffer2[r] == dn(c))")])
# the 9 upstream slots of the current cell: slots below k are done (listed unless -1 or an inlet); the current cell stays pending
K.loop(4, var="k", invariant=["0 <= k and k <= 9 and l < nbuffer1 and idxcell[0] == buffer1[l]"] + L3 + [
      "i - nbuffer2 == at_loop_entry(i) - at_loop_entry(nbuffer2)",
      "forall(p, 0 <= p < k, idxup[p] < 0 or inl(idxup[p]) or exists(q, 0 <= q < i, %s[q] == idxup[p]))" % A,
      _closed("i", " or exists(r, l <= r < nbuffer1, buffer1[r] == dn(c)) or exists(r, 0 <= r < nbuffer2, buffer2[r] == dn(c))")])
K.loop(5, var="m", invariant=["0 <= m and m <= ninlets", "forall(q, 0 <= q < m, idxinlets[q] != idx)"])


# ---------------------------------------------------------------------------------- c_delineate_area: each cell listed once (C06)
# On a grid without flow cycles (witnessed by a height function that decreases along the downstream relation, as for
# c_accumulate#acyclic) a successful run lists every cell at most once.  Argument: the listing is made of consecutive layers;
# buffer1 / buffer2 mirror segments of it (B1POS / B2POS); the downstream cell of a listed cell sits BEFORE the segment still to
# be processed (PARPOS); so when the slots of one cell are scanned none of them is listed yet, and they stay unlisted until their turn
# because the slots of c_upstream are pairwise distinct.
K = F.kernel("c_delineate_area#once")
K.requires(SANE_GRID)
K.requires("nval <= 2**58 and ninlets >= 0 and ninlets <= 2**60")
K.requires(VALIDFD + " and valid(idxinlets, ninlets)")
K.requires("implies(nval >= 1, valid(idxcells_area, nval) and valid(buffer1, nval) and valid(buffer2, nval))")
K.requires("separated(flowdircode, flowdir, idxinlets, idxcells_area, buffer1, buffer2)")
K.requires(FDC_IS)
K.requires("forall(q, 0 <= q < nval, idxcells_area[q] == -1)")
K.assigns("idxcells_area[0:nval]", "buffer1[0:nval]", "buffer2[0:nval]")
K.ghost("dn(c)", "int", "down(nrows, ncols, flowdir[c], c)")
K.ghost("hgt(c)", "int", None, concrete="ite(valid_cell(nrows, ncols, c) and dn(c) >= 0, 1 + hgt(dn(c)), 0)")
K.requires("forall(c, 0 <= c < nrows*ncols, 0 <= hgt(c) and implies(dn(c) >= 0, hgt(dn(c)) < hgt(c)), hgt(c))")
K.ensures("implies(result == 0, forall(p, 0 <= p < nval, forall(q, p < q < nval, %s[p] == -1 or %s[p] != %s[q])))" % (A, A, A), props=["C06"])
K.loop(0, var="m", invariant=["0 <= m and m <= ninlets", "forall(q, 0 <= q < m, valid_cell(nrows, ncols, idxinlets[q]))"])
E1 = "ite(nlayer == 1, 1, 0)"
DIST = "forall(p, 0 <= p < i, forall(q, p < q < i, %s[p] != %s[q]))" % (A, A)
NOTM1 = "forall(q, 0 <= q < i, %s[q] != -1 and valid_cell(nrows, ncols, %s[q]))" % (A, A)
RK = "forall(q, 0 <= q < i, hgt(%s[q]) > hgt(idxoutlet) or (nlayer >= 1 and %s[q] == idxoutlet))" % (A, A)
def _parpos(bound):
    return "forall(q, 0 <= q < i, %s[q] == idxoutlet or dn(%s[q]) == idxoutlet or exists(p, 0 <= p < %s, %s[p] == dn(%s[q])))" % (A, A, bound, A, A)
OFF1 = "(i - nbuffer2 - nbuffer1 - %s)" % E1
K.loop(1, var="nlayer", invariant=[AREA_INV, "nbuffer2 <= i + 1", "implies(nlayer >= 1, nbuffer2 >= 1)", _tail("i"), NOTM1, DIST, RK,
                                   "implies(nlayer == 0, i == 0 and nbuffer2 == 1 and buffer2[0] == idxoutlet)",
                                   "implies(nlayer >= 1, i - nbuffer2 - %s >= 0 and forall(r, 0 <= r < nbuffer2, buffer2[r] == %s[i - nbuffer2 - %s + r]))" % (E1, A, E1),
                                   "forall(r, 0 <= r < nbuffer2, nlayer == 0 or hgt(buffer2[r]) > hgt(idxoutlet))",
                                   _parpos("i - nbuffer2 - %s" % E1)],
       variant="nval - i + ite(nlayer == 0, 1, 0)")
K.loop(2, var="l", invariant=["0 <= l and l <= nbuffer2", "forall(q, 0 <= q < l, buffer1[q] == buffer2[q])"])
O3 = ["0 <= l and l <= nbuffer1 and nbuffer1 <= nval and 0 <= i and i <= nval - 1 and 0 <= nbuffer2 and nbuffer2 <= i and nlayer >= 0",
      "valid_cell(nrows, ncols, idxoutlet)", _tail("i"), NOTM1, DIST, RK,
      "implies(nlayer == 0, nbuffer1 == 1 and buffer1[0] == idxoutlet and i == nbuffer2)",
      "implies(nlayer >= 1, %s >= 0 and forall(r, 0 <= r < nbuffer1, buffer1[r] == %s[%s + r]))" % (OFF1, A, OFF1),
      "forall(r, 0 <= r < nbuffer2, buffer2[r] == %s[i - nbuffer2 + r])" % A,
      "forall(r, 0 <= r < nbuffer1, nlayer == 0 or hgt(buffer1[r]) > hgt(idxoutlet))",
      "forall(r, 0 <= r < nbuffer2, hgt(buffer2[r]) > hgt(idxoutlet))"]
K.loop(3, var="l", invariant=O3 + ["i - nbuffer2 == at_loop_entry(i)", "implies(nlayer == 0 and l == 0, i == 0)", _parpos("%s + l" % OFF1)])
K.loop(4, var="k", invariant=["0 <= k and k <= 9 and l < nbuffer1 and idxcell[0] == buffer1[l]"] + O3 + [
      "i - nbuffer2 == at_loop_entry(i) - at_loop_entry(nbuffer2)", _parpos("%s + l + 1" % OFF1),
      "forall(p, k <= p < 9, forall(q, 0 <= q < i, idxup[p] < 0 or %s[q] != idxup[p]))" % A])
K.loop(5, var="m", invariant=["0 <= m and m <= ninlets"])
