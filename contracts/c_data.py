"""Contracts for the kernels of src/hydrodiy/data (C05 safety for all; C08 aggregate / flathomogen; C14 var2h)."""
from vf.contract import cfile

# ====================================================================================== c_dutils.c
F = cfile("src/hydrodiy/data/c_dutils.c")
D = F

AGG_SAFE = ["nval <= 2**30",
            "implies(nval >= 1, valid(aggindex, nval) and valid(inputs, nval) and valid(outputs, nval))"]

# ---------------------------------------------------------------------------------- c_aggregate
K = F.kernel("c_aggregate")
for r in AGG_SAFE:
    K.requires(r)
K.requires("valid(iend, 1) and separated(aggindex, inputs, outputs, iend)")
K.assigns("outputs[0:nval]", "iend[0:1]")
# spec functions of the inputs only
K.ghost("rs(i)", "int", "ite(i <= 0, 0, ite(aggindex[i] == aggindex[i-1], rs(i-1), i))", decreases="i")          # start of the run holding i
K.ghost("nr(i)", "int", "ite(i <= 0, 1, nr(i-1) + ite(aggindex[i] == aggindex[i-1], 0, 1))", decreases="i")      # number of runs in [0, i]
K.ghost("nnsum(lo, hi)", "real", "ite(hi <= lo, 0.0, nnsum(lo, hi-1) + ite(isnan(inputs[hi-1]), 0.0, inputs[hi-1]))", decreases="hi - lo")
K.ghost("nancnt(lo, hi)", "int", "ite(hi <= lo, 0, nancnt(lo, hi-1) + ite(isnan(inputs[hi-1]), 1, 0))", decreases="hi - lo")
K.ghost("nncnt(lo, hi)", "int", "ite(hi <= lo, 0, nncnt(lo, hi-1) + ite(isnan(inputs[hi-1]), 0, 1))", decreases="hi - lo")
K.ghost("nnmax(lo, hi)", "real", "ite(hi <= lo, 0.0, ite(isnan(inputs[hi-1]), nnmax(lo, hi-1), "
        "ite(nncnt(lo, hi-1) == 0, inputs[hi-1], max(nnmax(lo, hi-1), inputs[hi-1]))))", decreases="hi - lo")
K.ghost("nnlast(lo, hi)", "real", "ite(hi <= lo, 0.0, ite(isnan(inputs[hi-1]), nnlast(lo, hi-1), inputs[hi-1]))", decreases="hi - lo")
K.lemma("rs_range", "0 <= rs(i) and rs(i) <= i", var="i", lo="0", trigger="rs(i)")
K.lemma("nr_range", "1 <= nr(i) and nr(i) <= i + 1", var="i", lo="0", trigger="nr(i)")
K.lemma("nr_mono", "nr(j) <= nr(k)", fixed=["j"], var="k", lo="j", pre="0 <= j", trigger="nr(j); nr(k)")
K.lemma("cnt_nonneg", "nncnt(lo, hi) >= 0 and nancnt(lo, hi) >= 0 and nncnt(lo, hi) + nancnt(lo, hi) == hi - lo", fixed=["lo"], var="hi", lo="lo", trigger="nncnt(lo, hi)")
# value of the group [lo, hi) demanded by the property, as clauses on an output cell v
def GRP(v, lo, hi):
    return ("(implies(nancnt({lo}, {hi}) > maxnan, isnan({v})) and "
            "implies(nancnt({lo}, {hi}) <= maxnan and operator <= 0, {v} == nnsum({lo}, {hi})) and "
            "implies(nancnt({lo}, {hi}) <= maxnan and operator == 1 and nncnt({lo}, {hi}) > 0, {v} == nnsum({lo}, {hi})/real(nncnt({lo}, {hi}))) and "
            "implies(nancnt({lo}, {hi}) <= maxnan and operator == 2 and nncnt({lo}, {hi}) > 0, {v} == nnmax({lo}, {hi})) and "
            "implies(nancnt({lo}, {hi}) <= maxnan and operator == 3 and nncnt({lo}, {hi}) > 0, {v} == nnlast({lo}, {hi})))").format(v=v, lo=lo, hi=hi)
K.behavior("empty", "nval < 1", "result > 0", props=["C05"])
# an aggregation index that decreases anywhere is rejected
K.behavior("decreasing", "nval >= 1 and exists(k, 1 <= k < nval, aggindex[k] < aggindex[k-1])", "result > 0", props=["C08"])
NONDECR = "nval >= 1 and forall(k, 1 <= k < nval, aggindex[k-1] <= aggindex[k])"
K.behavior("ok", NONDECR, ["result == 0", "iend[0] == nr(nval - 1)"], props=["C08"])
# one value per distinct index value, in order: the cell of the run that ends at j holds the reduction of that run
K.behavior("groups", NONDECR, "forall(j, 0 <= j < nval, implies(j == nval - 1 or aggindex[j] != aggindex[j+1], "
           + GRP("outputs[nr(j) - 1]", "rs(j)", "j + 1") + "))", props=["C08"])
RUNNING = ("nagg == nncnt(rs(i-1), i) and nagg_nan == nancnt(rs(i-1), i) and "
           "implies(operator <= 1, agg == nnsum(rs(i-1), i)) and "
           "implies(operator == 2 and nagg > 0, agg == nnmax(rs(i-1), i)) and "
           "implies(operator == 3 and nagg > 0, agg == nnlast(rs(i-1), i)) and "
           "implies(operator >= 2 and nagg == 0, agg == 0)")
K.loop(0, var="i", invariant=[
    "nval >= 1 and 0 <= i and i <= nval and 0 <= count and count < nval and not isnan(agg) and isnan(nan) and nagg >= 0 and nagg_nan >= 0",
    "implies(i == 0, iaprev == aggindex[0] and count == 0 and agg == 0 and nagg == 0 and nagg_nan == 0)",
    "forall(k, 1 <= k < i, aggindex[k-1] <= aggindex[k])",
    "implies(i > 0, iaprev == aggindex[i-1] and count == nr(i-1) - 1 and " + RUNNING + ")",
    "forall(j, 0 <= j < i - 1, implies(aggindex[j] != aggindex[j+1], " + GRP("outputs[nr(j) - 1]", "rs(j)", "j + 1") + "))",
])

# ---------------------------------------------------------------------------------- c_combi (C05: no overflow in the supported range)
# decided by exhaustive concrete evaluation of the finite domain k <= 30, n-k <= 30 (props/C05), not by SMT

# ---------------------------------------------------------------------------------- c_flathomogen
K = F.kernel("c_flathomogen")
for r in AGG_SAFE:
    K.requires(r)
K.requires("separated(aggindex, inputs, outputs)")
K.assigns("outputs[0:nval]")
K.ghost("rs(i)", "int", "ite(i <= 0, 0, ite(aggindex[i] == aggindex[i-1], rs(i-1), i))", decreases="i")
K.ghost("nnsum(lo, hi)", "real", "ite(hi <= lo, 0.0, nnsum(lo, hi-1) + ite(isnan(inputs[hi-1]), 0.0, inputs[hi-1]))", decreases="hi - lo")
K.ghost("nancnt(lo, hi)", "int", "ite(hi <= lo, 0, nancnt(lo, hi-1) + ite(isnan(inputs[hi-1]), 1, 0))", decreases="hi - lo")
K.ghost("nncnt(lo, hi)", "int", "ite(hi <= lo, 0, nncnt(lo, hi-1) + ite(isnan(inputs[hi-1]), 0, 1))", decreases="hi - lo")
K.lemma("rs_range", "0 <= rs(i) and rs(i) <= i", var="i", lo="0", trigger="rs(i)")
K.lemma("cnt_nonneg", "nncnt(lo, hi) >= 0 and nancnt(lo, hi) >= 0 and nncnt(lo, hi) + nancnt(lo, hi) == hi - lo", fixed=["lo"], var="hi", lo="lo", trigger="nncnt(lo, hi)")
# a change of index at e starts a new run: later run starts are beyond e
K.lemma("rs_after_break", "rs(k) >= e + 1", fixed=["e"], var="k", lo="e + 1", pre="0 <= e and aggindex[e] != aggindex[e+1]", trigger="rs(k); aggindex[e]")
# a non-missing value inside [lo, hi) makes the count of non-missing values positive
K.lemma("cnt_pos", "forall(q, lo <= q < hi, implies(not isnan(inputs[q]), nncnt(lo, hi) >= 1))", fixed=["lo"], var="hi", lo="lo")
# value demanded for position q of the group [lo, hi): missing stays missing; otherwise the mean of the non-missing values
# (a group holding more than maxnan missing values is left unconstrained: the statement gives that policy for aggregate only)
def OUT(q, lo, hi):
    return ("(implies(isnan(inputs[{q}]), isnan(outputs[{q}])) and "
            "implies(not isnan(inputs[{q}]) and nancnt({lo}, {hi}) <= maxnan, outputs[{q}] == nnsum({lo}, {hi})/real(nncnt({lo}, {hi}))))").format(q=q, lo=lo, hi=hi)
K.behavior("empty", "nval < 1", "result > 0", props=["C05"])
K.behavior("decreasing", "nval >= 1 and exists(k, 1 <= k < nval, aggindex[k] < aggindex[k-1])", "result > 0", props=["C08"])
K.behavior("ok", NONDECR, "result == 0", props=["C08"])
# for every run end e, every position of that run holds the group mean (or stays missing)
K.behavior("groups", NONDECR, "forall(e, 0 <= e < nval, implies(e == nval - 1 or aggindex[e] != aggindex[e+1], "
           "forall(q, rs(e) <= q <= e, " + OUT("q", "rs(e)", "e + 1") + ")))", props=["C08"])
CLOSED = ("forall(e, 0 <= e < i - 1, implies(aggindex[e] != aggindex[e+1], forall(q, rs(e) <= q <= e, " + OUT("q", "rs(e)", "e + 1") + ")))")
K.loop(0, var="i", invariant=[
    "nval >= 1 and 0 <= i and i <= nval and 0 <= start and start <= i and isnan(nan) and not isnan(agg) and nagg >= 0 and nagg_nan >= 0",
    "implies(i == 0, iaprev == aggindex[0] and start == 0 and agg == 0 and nagg == 0 and nagg_nan == 0)",
    "forall(k, 1 <= k < i, aggindex[k-1] <= aggindex[k])",
    "implies(i > 0, iaprev == aggindex[i-1] and start == rs(i-1) and nagg == nncnt(start, i) and nagg_nan == nancnt(start, i) and agg == nnsum(start, i))",
    CLOSED])
K.loop(1, var="j", invariant=[
    "nval >= 1 and 1 <= i and i < nval and 0 <= start and start <= j and j <= i",
    "forall(q, start <= q < j, " + OUT("q", "start", "i").replace("outputs[q] == nnsum(start, i)/real(nncnt(start, i))", "outputs[q] == nnsum(start, i)/real(nncnt(start, i))") + ")",
    "forall(q, 0 <= q < nval, implies(q < start or q >= j, outputs[q] == at_loop_entry(outputs[q])))",
    "implies(nagg_nan <= maxnan, not isnan(agg) and agg == at_loop_entry(agg)) and implies(nagg_nan > maxnan, isnan(agg))"])
K.loop(2, var="j", invariant=[
    "nval >= 1 and i == nval and 0 <= start and start <= j and j <= i",
    "forall(q, start <= q < j, " + OUT("q", "start", "i") + ")",
    "forall(q, 0 <= q < nval, implies(q < start or q >= j, outputs[q] == at_loop_entry(outputs[q])))",
    "implies(nagg_nan <= maxnan, not isnan(agg) and agg == at_loop_entry(agg)) and implies(nagg_nan > maxnan, isnan(agg))"])

# ====================================================================================== c_qualitycontrol.c (C05 safety)
F = cfile("src/hydrodiy/data/c_qualitycontrol.c")
K = F.kernel("c_islin")
K.requires("nval <= 2**30 and npoints >= -2**30 and npoints <= 2**30")
K.requires("implies(nval >= 1, valid(data, nval) and valid(islin, nval)) and separated(data, islin)")
K.assigns("islin[0:nval]")
K.ensures("result == 0")
K.ensures("forall(q, 0 <= q < nval, islin[q] == 0 or islin[q] == 1 or islin[q] == 2)", props=["C05"])
K.loop(0, var="i", invariant=["0 <= i and (i <= nval or nval < 0) and nval < 3", "forall(q, 0 <= q < i, islin[q] == 0)"])
K.loop(1, var="i", invariant=["nval >= 3 and 2 <= i and i <= nval and 0 <= count and count <= i and 0 <= start and start <= i and (lintype == 1 or lintype == 2)",
                               "forall(q, 0 <= q < i, islin[q] == 0 or islin[q] == 1 or islin[q] == 2)"])
K.loop(2, var="k", invariant=["0 <= start and start <= k and k <= i and 2 <= i and i < nval and (lintype == 1 or lintype == 2)",
                               "forall(q, 0 <= q <= i, islin[q] == 0 or islin[q] == 1 or islin[q] == 2)"])

# ====================================================================================== c_baseflow.c (C05 safety)
F = cfile("src/hydrodiy/data/c_baseflow.c")
K = F.kernel("c_eckhardt")
K.requires("nval <= 2**30")
K.requires("implies(nval >= 1, valid(inputs, nval) and valid(outputs, nval)) and separated(inputs, outputs)")
K.assigns("outputs[0:nval]")
K.loop(0, var="i", invariant=["1 <= i and i <= nval"])

# ====================================================================================== c_dateutils.c (C05 safety)
F = cfile("src/hydrodiy/data/c_dateutils.c")
SANE_YEAR = "{0} >= -2**30 and {0} <= 2**30"
K = F.kernel("c_dateutils_isleapyear")
K.ensures("result == 0 or result == 1")
K.ensures("iff(result == 1, year % 4 == 0 and (year % 100 != 0 or year % 400 == 0))")
K = F.kernel("c_dateutils_daysinmonth")
K.ensures("iff(result == -1, month < 1 or month > 12)")
K.ensures("implies(1 <= month and month <= 12, 28 <= result and result <= 31)")
K = F.kernel("c_dateutils_dayofyear")
K.ensures("iff(result == -1, month < 1 or month > 12 or day < 1 or day > 31)")
K.ensures("implies(result != -1, 1 <= result and result <= 365)")
K = F.kernel("c_dateutils_add1month")
K.requires("valid(date, 3) and " + SANE_YEAR.format("date[0]"))
K.assigns("date[0:3]")
K = F.kernel("c_dateutils_add1day")
K.requires("valid(date, 3) and " + SANE_YEAR.format("date[0]"))
K.assigns("date[0:3]")
K = F.kernel("c_dateutils_getdate")
K.requires("valid(date, 3)")
K.assigns("date[0:3]")
K = F.kernel("c_dateutils_comparedates")
K.requires("valid(date1, 3) and valid(date2, 3)")
K.ensures("result == 1 or result == 0 or result == -1")

# ====================================================================================== c_var2h.c (C05 safety, C14)
F = cfile("src/hydrodiy/data/c_var2h.c")
V2H_SAFE = ["nvalvar >= 0 and nvalvar <= 2**30 and nvalh >= 0 and nvalh <= 2**30 and hstartsec >= -2**50 and hstartsec <= 2**50",
            "valid(varsec, nvalvar) and valid(varvalues, nvalvar) and implies(nvalh >= 1, valid(hvalues, nvalh))",
            "separated(varsec, varvalues, hvalues)",
            "forall(k, 0 <= k < nvalvar, varsec[k] >= -2**50 and varsec[k] <= 2**50)"]
K = F.kernel("c_var2h")
for r in V2H_SAFE:
    K.requires(r)
K.assigns("hvalues[0:nvalh]")
K.behavior("bad_flag", "rainfall < 0 or rainfall > 1", "result > 0", props=["C05"])
K.behavior("bad_period", "nbsec_per_period != 1800 and nbsec_per_period != 3600", "result > 0", props=["C05"])
K.loop(0, var="varindex", invariant=["0 <= varindex and varindex <= nvalvar", "forall(k, 0 <= k < varindex, varsec[k] <= hstartsec)"], variant="nvalvar - varindex")
K.loop(1, var="i", invariant=["0 <= i and (i <= nvalh or nvalh < 0)"])
K.loop(2, var="i", invariant=[
    "0 <= i and (nbsec_per_period == 1800 or nbsec_per_period == 3600) and nbsec_per_period_d == real(nbsec_per_period) and isnan(nan)",
    "0 <= varindex and varindex <= nvalvar - 2",
    "varsec[varindex] <= hstartsec + i*nbsec_per_period"])
K.loop(3, var="varindex", invariant=[
    "0 <= i and i < nvalh - 1 and (nbsec_per_period == 1800 or nbsec_per_period == 3600) and nbsec_per_period_d == real(nbsec_per_period) and isnan(nan)",
    "0 <= varindex and varindex <= nvalvar - 2 and at_loop_entry(varindex) <= varindex",
    "t1 == real(varsec[varindex]) and start == real(hstartsec + i*nbsec_per_period) and end == start + real(nbsec_per_period)",
    "varsec[at_loop_entry(varindex)] <= hstartsec + i*nbsec_per_period",
    "varindex == at_loop_entry(varindex) or real(varsec[varindex - 1]) < end",
    "miss == 0 or miss == 1"], variant="nvalvar - varindex")
# ---- C14 functional clauses: evaluated concretely only (exact rational arithmetic) on enumerated inputs -- BOUNDED, not proved
V2H_FUNC = ("nvalvar >= 2 and nvalh >= 2 and (rainfall == 0 or rainfall == 1) and (nbsec_per_period == 1800 or nbsec_per_period == 3600) and "
            "forall(k, 1 <= k < nvalvar, varsec[k-1] <= varsec[k]) and varsec[0] <= hstartsec and hstartsec < varsec[nvalvar-1]")
K.ghost("ps(i)", "int", "hstartsec + i*nbsec_per_period")
K.ghost("pe(i)", "int", "hstartsec + (i+1)*nbsec_per_period")
K.ghost("invalid(k)", "bool", "isnan(varvalues[k]) or isnan(varvalues[k+1]) or varvalues[k] < -1e-8 or varvalues[k+1] < -1e-8 or varsec[k+1] - varsec[k] > maxgapsec")
K.ghost("ovl(k, i)", "int", "min(varsec[k+1], pe(i)) - max(varsec[k], ps(i))")      # length of the overlap of interval k with period i
K.ghost("slope(k)", "real", "(varvalues[k+1] - varvalues[k])/real(varsec[k+1] - varsec[k])")
K.ghost("trap(k, i)", "real", "ite(ovl(k, i) <= 0 or invalid(k), 0.0, ite(rainfall == 1, "
        "varvalues[k+1]*real(ovl(k, i))/real(varsec[k+1] - varsec[k])*real(nbsec_per_period), "
        "(2*varvalues[k] + slope(k)*real(max(varsec[k], ps(i)) - varsec[k]) + slope(k)*real(min(varsec[k+1], pe(i)) - varsec[k]))*real(ovl(k, i))/2))")
K.ghost("integ(i, n)", "real", "ite(n <= 0, 0.0, integ(i, n - 1) + trap(n - 1, i))", decreases="n")
K.bounded("result == 0", assumes=V2H_FUNC, props=["C14"])
# every value is missing or the time-average of the interpolant over a period that lies inside the data
K.bounded("forall(i, 0 <= i < nvalh - 1, implies(not isnan(hvalues[i]), "
          "hvalues[i] == integ(i, nvalvar - 1)/real(nbsec_per_period) and pe(i) <= varsec[nvalvar-1] and "
          "not exists(k, 0 <= k < nvalvar - 1, ovl(k, i) > 0 and invalid(k))))", assumes=V2H_FUNC, props=["C14"])
# a period inside the data is missing only if an invalid interval touches it
K.bounded("forall(i, 0 <= i < nvalh - 1, implies(isnan(hvalues[i]) and pe(i) <= varsec[nvalvar-1], "
          "exists(k, 0 <= k < nvalvar - 1, invalid(k) and varsec[k] <= pe(i) and varsec[k+1] >= ps(i))))", assumes=V2H_FUNC, props=["C14"])


# ---- functional contract (C14): every value is missing or the exact period average of the interpolant (period total for rainfall)
K = F.kernel("c_var2h#average")
K.option(uf_mul=True)     # products / quotients of the trapezoids are only compared structurally with the ghost definition
for r in V2H_SAFE:
    K.requires(r)
K.requires("nvalvar >= 2 and nvalh >= 2 and (rainfall == 0 or rainfall == 1) and (nbsec_per_period == 1800 or nbsec_per_period == 3600)")
K.requires("forall(k, 1 <= k < nvalvar, varsec[k-1] <= varsec[k])")
K.requires("varsec[0] <= hstartsec and hstartsec < varsec[nvalvar-1] and maxgapsec >= 0")
K.assigns("hvalues[0:nvalh]")
K.ghost("ps(i)", "int", "hstartsec + i*nbsec_per_period")
K.ghost("pe(i)", "int", "hstartsec + (i+1)*nbsec_per_period")
K.ghost("invalid(k)", "bool", "isnan(varvalues[k]) or isnan(varvalues[k+1]) or varvalues[k] < -1e-8 or varvalues[k+1] < -1e-8 or real(varsec[k+1]) - real(varsec[k]) > real(maxgapsec)")
# interval k clipped to period i, and its contribution to the period integral, in the shape the code computes them
K.ghost("rlo(k, i)", "real", "ite(real(varsec[k]) < real(ps(i)), real(ps(i)), real(varsec[k]))")
K.ghost("rhi(k, i)", "real", "ite(real(varsec[k+1]) > real(pe(i)), real(pe(i)), real(varsec[k+1]))")
K.ghost("slope(k)", "real", "(varvalues[k+1] - varvalues[k])/(real(varsec[k+1]) - real(varsec[k]))")
K.ghost("trap(k, i)", "real", "ite(rhi(k, i) - rlo(k, i) > 1e-8, ite(rainfall == 1, "
        "varvalues[k+1]*(rhi(k, i) - rlo(k, i))/(real(varsec[k+1]) - real(varsec[k]))*real(nbsec_per_period), "
        "((slope(k)*(rhi(k, i) - real(varsec[k])) + varvalues[k]) + (slope(k)*(rlo(k, i) - real(varsec[k])) + varvalues[k]))*(rhi(k, i) - rlo(k, i))/2), 0.0)")
K.ghost("integ(i, n)", "real", "ite(n <= 0, 0.0, integ(i, n - 1) + trap(n - 1, i))", decreases="n")
# time stamps are non-decreasing over any distance
K.lemma("sorted_far", "implies(b <= nvalvar - 1, varsec[a] <= varsec[b])", fixed=["a"], var="b", lo="a", pre="0 <= a", trigger="varsec[a]; varsec[b]")
# intervals that end before the period starts contribute nothing; intervals that start after it ends neither
K.lemma("integ_prefix", "implies(n <= nvalvar - 1 and varsec[n] <= ps(i), integ(i, n) == 0.0)", fixed=["i"], var="n", lo="0", trigger="integ(i, n)")
K.lemma("integ_suffix", "implies(m <= nvalvar - 1 and 0 <= n0 and varsec[n0] >= pe(i), integ(i, m) == integ(i, n0))", fixed=["i", "n0"], var="m", lo="n0", trigger="integ(i, m); integ(i, n0)")
K.ensures("result == 0", props=["C14"])
A_ = ("implies(not isnan(hvalues[{p}]), hvalues[{p}] == integ({p}, nvalvar - 1)/real(nbsec_per_period) and pe({p}) <= varsec[nvalvar-1] and "
      "forall(k, 0 <= k < nvalvar - 1, implies(rhi(k, {p}) - rlo(k, {p}) > 1e-8, not invalid(k))))")
B_ = ("implies(isnan(hvalues[{p}]) and pe({p}) <= varsec[nvalvar-1], exists(k, 0 <= k < nvalvar - 1, invalid(k) and varsec[k] <= pe({p}) and varsec[k+1] >= ps({p})))")
K.ensures("forall(p, 0 <= p < nvalh - 1, " + A_.format(p="p") + ")", props=["C14"])
K.ensures("forall(p, 0 <= p < nvalh - 1, " + B_.format(p="p") + ")", props=["C14"])
K.loop(0, var="varindex", invariant=["0 <= varindex and varindex <= nvalvar", "forall(k, 0 <= k < varindex, varsec[k] <= hstartsec)"], variant="nvalvar - varindex")
K.loop(1, var="i", invariant=["0 <= i and (i <= nvalh or nvalh < 0)"])
K.loop(2, var="i", invariant=[
    "0 <= i and i <= nvalh - 1 and nbsec_per_period_d == real(nbsec_per_period) and isnan(nan)",
    "0 <= varindex and varindex <= nvalvar - 2",
    "varsec[varindex] <= ps(i)",
    "varsec[varindex+1] >= ps(i) or varsec[nvalvar-1] < ps(i)",
    "forall(p, 0 <= p < i, " + A_.format(p="p") + ")",
    "forall(p, 0 <= p < i, " + B_.format(p="p") + ")"])
K.loop(3, var="varindex", invariant=[
    "0 <= i and i < nvalh - 1 and nbsec_per_period_d == real(nbsec_per_period) and isnan(nan)",
    "0 <= varindex and varindex <= nvalvar - 2 and at_loop_entry(varindex) <= varindex",
    "not isnan(t1) and t1 == real(varsec[varindex]) and not isnan(start) and start == real(ps(i)) and not isnan(end) and end == real(pe(i))",
    "varsec[at_loop_entry(varindex)] <= ps(i)",
    "varsec[at_loop_entry(varindex)+1] >= ps(i) or varsec[nvalvar-1] < ps(i)",
    "varindex == at_loop_entry(varindex) or varsec[varindex - 1] < pe(i)",
    "(isnan(val1) == isnan(varvalues[varindex])) and (isnan(val1) or val1 == varvalues[varindex])",
    "miss == 0 or miss == 1",
    "implies(miss == 0, forall(k, at_loop_entry(varindex) <= k < varindex, not invalid(k)))",
    "implies(miss == 1, exists(k, at_loop_entry(varindex) <= k < varindex, invalid(k)))",
    "implies(miss == 0, not isnan(hvalue) and hvalue == integ(i, varindex) - integ(i, at_loop_entry(varindex)))",
    "forall(p, 0 <= p < i, " + A_.format(p="p") + ")",
    "forall(p, 0 <= p < i, " + B_.format(p="p") + ")"], variant="nvalvar - varindex")
