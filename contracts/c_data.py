"""Contracts for the kernels of src/hydrodiy/data (C05 safety for all; C08 aggregate / flathomogen; C14 var2h)."""
from vf.contract import cfile

# ====================================================================================== c_dutils.c
F = cfile("src/hydrodiy/data/c_dutils.c")
D = F

AGG_SAFE = ["nval <= 2**30",
            "implies(nval >= 1, valid(aggindex, nval) and valid(inputs, nval) and valid(outputs, nval))"]

# ---------------------------------------------------------------------------------- c_aggregate
K = F.kernel("c_aggregate")
for r in AGG_SAFE:
    K.requires(r)
K.requires("valid(iend, 1) and separated(aggindex, inputs, outputs, iend)")
K.assigns("outputs[0:nval]", "iend[0:1]")
# spec functions of the inputs only
K.ghost("rs(i)", "int", "ite(i <= 0, 0, ite(aggindex[i] == aggindex[i-1], rs(i-1), i))", decreases="i")          # start of the run holding i
K.ghost("nr(i)", "int", "ite(i <= 0, 1, nr(i-1) + ite(aggindex[i] == aggindex[i-1], 0, 1))", decreases="i")      # number of runs in [0, i]
K.ghost("nnsum(lo, hi)", "real", "ite(hi <= lo, 0.0, nnsum(lo, hi-1) + ite(isnan(inputs[hi-1]), 0.0, inputs[hi-1]))", decreases="hi - lo")
K.ghost("nancnt(lo, hi)", "int", "ite(hi <= lo, 0, nancnt(lo, hi-1) + ite(isnan(inputs[hi-1]), 1, 0))", decreases="hi - lo")
K.ghost("nncnt(lo, hi)", "int", "ite(hi <= lo, 0, nncnt(lo, hi-1) + ite(isnan(inputs[hi-1]), 0, 1))", decreases="hi - lo")
K.ghost("nnmax(lo, hi)", "real", "ite(hi <= lo, 0.0, ite(isnan(inputs[hi-1]), nnmax(lo, hi-1), "
        "ite(nncnt(lo, hi-1) == 0, inputs[hi-1], max(nnmax(lo, hi-1), inputs[hi-1]))))", decreases="hi - lo")
K.ghost("nnlast(lo, hi)", "real", "ite(hi <= lo, 0.0, ite(isnan(inputs[hi-1]), nnlast(lo, hi-1), inputs[hi-1]))", decreases="hi - lo")
K.lemma("rs_range", "0 <= rs(i) and rs(i) <= i", var="i", lo="0", trigger="rs(i)")
K.lemma("nr_range", "1 <= nr(i) and nr(i) <= i + 1", var="i", lo="0", trigger="nr(i)")
K.lemma("nr_mono", "nr(j) <= nr(k)", fixed=["j"], var="k", lo="j", pre="0 <= j", trigger="nr(j); nr(k)")
K.lemma("cnt_nonneg", "nncnt(lo, hi) >= 0 and nancnt(lo, hi) >= 0 and nncnt(lo, hi) + nancnt(lo, hi) == hi - lo", fixed=["lo"], var="hi", lo="lo", trigger="nncnt(lo, hi)")
# value of the group [lo, hi) demanded by the property, as clauses on an output cell v
def GRP(v, lo, hi):
    return ("(implies(nancnt({lo}, {hi}) > maxnan, isnan({v})) and "
            "implies(nancnt({lo}, {hi}) <= maxnan and operator <= 0, {v} == nnsum({lo}, {hi})) and "
            "implies(nancnt({lo}, {hi}) <= maxnan and operator == 1 and nncnt({lo}, {hi}) > 0, {v} == nnsum({lo}, {hi})/real(nncnt({lo}, {hi}))) and "
            "implies(nancnt({lo}, {hi}) <= maxnan and operator == 2 and nncnt({lo}, {hi}) > 0, {v} == nnmax({lo}, {hi})) and "
            "implies(nancnt({lo}, {hi}) <= maxnan and operator == 3 and nncnt({lo}, {hi}) > 0, {v} == nnlast({lo}, {hi})))").format(v=v, lo=lo, hi=hi)
K.behavior("empty", "nval < 1", "result > 0", props=["C05"])
# an aggregation index that decreases anywhere is rejected
K.behavior("decreasing", "nval >= 1 and exists(k, 1 <= k < nval, aggindex[k] < aggindex[k-1])", "result > 0", props=["C08"])
NONDECR = "nval >= 1 and forall(k, 1 <= k < nval, aggindex[k-1] <= aggindex[k])"
K.behavior("ok", NONDECR, ["result == 0", "iend[0] == nr(nval - 1)"], props=["C08"])
# one value per distinct index value, in order: the cell of the run that ends at j holds the reduction of that run
K.behavior("groups", NONDECR, "forall(j, 0 <= j < nval, implies(j == nval - 1 or aggindex[j] != aggindex[j+1], "
           + GRP("outputs[nr(j) - 1]", "rs(j)", "j + 1") + "))", props=["C08"])
RUNNING = ("nagg == nncnt(rs(i-1), i) and nagg_nan == nancnt(rs(i-1), i) and "
           "implies(operator <= 1, agg == nnsum(rs(i-1), i)) and "
           "implies(operator == 2 and nagg > 0, agg == nnmax(rs(i-1), i)) and "
           "implies(operator == 3 and nagg > 0, agg == nnlast(rs(i-1), i)) and "
           "implies(operator >= 2 and nagg == 0, agg == 0)")
K.loop(0, var="i", invariant=[
    "nval >= 1 and 0 <= i and i <= nval and 0 <= count and count < nval and not isnan(agg) and isnan(nan) and nagg >= 0 and nagg_nan >= 0",
    "implies(i == 0, iaprev == aggindex[0] and count == 0 and agg == 0 and nagg == 0 and nagg_nan == 0)",
    "forall(k, 1 <= k < i, aggindex[k-1] <= aggindex[k])",
    "implies(i > 0, iaprev == aggindex[i-1] and count == nr(i-1) - 1 and " + RUNNING + ")",
    "forall(j, 0 <= j < i - 1, implies(aggindex[j] != aggindex[j+1], " + GRP("outputs[nr(j) - 1]", "rs(j)", "j + 1") + "))",
])

# ---------------------------------------------------------------------------------- c_combi (C05: no overflow in the supported range)
# decided by exhaustive concrete evaluation of the finite domain k <= 30, n-k <= 30 (props/C05), not by SMT

# ---------------------------------------------------------------------------------- c_flathomogen
K = F.kernel("c_flathomogen")
for r in AGG_SAFE:
    K.requires(r)
K.requires("separated(aggindex, inputs, outputs)")
K.assigns("outputs[0:nval]")
K.ghost("rs(i)", "int", "ite(i <= 0, 0, ite(aggindex[i] == aggindex[i-1], rs(i-1), i))", decreases="i")
K.ghost("nnsum(lo, hi)", "real", "ite(hi <= lo, 0.0, nnsum(lo, hi-1) + ite(isnan(inputs[hi-1]), 0.0, inputs[hi-1]))", decreases="hi - lo")
K.ghost("nancnt(lo, hi)", "int", "ite(hi <= lo, 0, nancnt(lo, hi-1) + ite(isnan(inputs[hi-1]), 1, 0))", decreases="hi - lo")
K.ghost("nncnt(lo, hi)", "int", "ite(hi <= lo, 0, nncnt(lo, hi-1) + ite(isnan(inputs[hi-1]), 0, 1))", decreases="hi - lo")
K.lemma("rs_range", "0 <= rs(i) and rs(i) <= i", var="i", lo="0", trigger="rs(i)")
K.lemma("cnt_nonneg", "nncnt(lo, hi) >= 0 and nancnt(lo, hi) >= 0 and nncnt(lo, hi) + nancnt(lo, hi) == hi - lo", fixed=["lo"], var="hi", lo="lo", trigger="nncnt(lo, hi)")
# a change of index at e starts a new run: later run starts are beyond e
K.lemma("rs_after_break", "rs(k) >= e + 1", fixed=["e"], var="k", lo="e + 1", pre="0 <= e and aggindex[e] != aggindex[e+1]", trigger="rs(k); aggindex[e]")
# a non-missing value inside [lo, hi) makes the count of non-missing values positive
K.lemma("cnt_pos", "forall(q, lo <= q < hi, implies(not isnan(inputs[q]), nncnt(lo, hi) >= 1))", fixed=["lo"], var="hi", lo="lo")
# value demanded for position q of the group [lo, hi): missing stays missing; otherwise the mean of the non-missing values
# (a group holding more than maxnan missing values is left unconstrained: the statement gives that policy for aggregate only)
def OUT(q, lo, hi):
    return ("(implies(isnan(inputs[{q}]), isnan(outputs[{q}])) and "
            "implies(not isnan(inputs[{q}]) and nancnt({lo}, {hi}) <= maxnan, outputs[{q}] == nnsum({lo}, {hi})/real(nncnt({lo}, {hi}))))").format(q=q, lo=lo, hi=hi)
K.behavior("empty", "nval < 1", "result > 0", props=["C05"])
K.behavior("decreasing", "nval >= 1 and exists(k, 1 <= k < nval, aggindex[k] < aggindex[k-1])", "result > 0", props=["C08"])
K.behavior("ok", NONDECR, "result == 0", props=["C08"])
# for every run end e, every position of that run holds the group mean (or stays missing)
K.behavior("groups", NONDECR, "forall(e, 0 <= e < nval, implies(e == nval - 1 or aggindex[e] != aggindex[e+1], "
           "forall(q, rs(e) <= q <= e, " + OUT("q", "rs(e)", "e + 1") + ")))", props=["C08"])
CLOSED = ("forall(e, 0 <= e < i - 1, implies(aggindex[e] != aggindex[e+1], forall(q, rs(e) <= q <= e, " + OUT("q", "rs(e)", "e + 1") + ")))")
K.loop(0, var="i", invariant=[
    "nval >= 1 and 0 <= i and i <= nval and 0 <= start and start <= i and isnan(nan) and not isnan(agg) and nagg >= 0 and nagg_nan >= 0",
    "implies(i == 0, iaprev == aggindex[0] and start == 0 and agg == 0 and nagg == 0 and nagg_nan == 0)",
    "forall(k, 1 <= k < i, aggindex[k-1] <= aggindex[k])",
    "implies(i > 0, iaprev == aggindex[i-1] and start == rs(i-1) and nagg == nncnt(start, i) and nagg_nan == nancnt(start, i) and agg == nnsum(start, i))",
    CLOSED])
K.loop(1, var="j", invariant=[
    "nval >= 1 and 1 <= i and i < nval and 0 <= start and start <= j and j <= i",
    "forall(q, start <= q < j, " + OUT("q", "start", "i").replace("outputs[q] == nnsum(start, i)/real(nncnt(start, i))", "outputs[q] == nnsum(start, i)/real(nncnt(start, i))") + ")",
    "forall(q, 0 <= q < nval, implies(q < start or q >= j, outputs[q] == at_loop_entry(outputs[q])))",
    "implies(nagg_nan <= maxnan, not isnan(agg) and agg == at_loop_entry(agg)) and implies(nagg_nan > maxnan, isnan(agg))"])
K.loop(2, var="j", invariant=[
    "nval >= 1 and i == nval and 0 <= start and start <= j and j <= i",
    "forall(q, start <= q < j, " + OUT("q", "start", "i") + ")",
    "forall(q, 0 <= q < nval, implies(q < start or q >= j, outputs[q] == at_loop_entry(outputs[q])))",
    "implies(nagg_nan <= maxnan, not isnan(agg) and agg == at_loop_entry(agg)) and implies(nagg_nan > maxnan, isnan(agg))"])
