"""Contracts for src/hydrodiy/gis/c_grid.c.

Top-level `ensures` are written from the property statements (C05, C06, C07, C11, C16);
`requires`, `assigns`, loop invariants and helper contracts are derived from the code and its call sites.
"""
from vf.contract import cfile

F = cfile("src/hydrodiy/gis/c_grid.c")

# SANE: magnitude restriction on integer scalars reaching a kernel straight from Python (DESIGN 2.3)
SANE_GRID = "nrows >= 1 and ncols >= 1 and nrows <= 2**30 and ncols <= 2**30"

# ---- spec functions (C07: row-major numbering from the top-left corner, centre coordinates, footprints)
F.spec("valid_cell(nrows, ncols, c)", "0 <= c and c < nrows*ncols")
F.spec("col_of(ncols, c)", "c % ncols")
F.spec("row_of(ncols, c)", "c // ncols")
F.spec("cell_at(ncols, row, col)", "row*ncols + col")
F.spec("centre_x(xll, csz, col)", "xll + csz*(real(col) + 0.5)")
F.spec("centre_y(nrows, yll, csz, row)", "yll + csz*(real(nrows - 1 - row) + 0.5)")
# footprint of cell (row, col), open box strictly inside the cell, in cell units measured from the lower-left corner:
# u = (x-xll)/csz in (col, col+1), w = (y-yll)/csz in (nrows-1-row, nrows-row).
F.spec("strictly_in_cell(nrows, ncols, xll, yll, csz, x, y, row, col)",
       "real(col) < (x - xll)/csz and (x - xll)/csz < real(col + 1) and "
       "real(nrows - 1 - row) < (y - yll)/csz and (y - yll)/csz < real(nrows - row)")
F.spec("strictly_outside(nrows, ncols, xll, yll, csz, x, y)",
       "(x - xll)/csz < 0 or (x - xll)/csz > real(ncols) or (y - yll)/csz < 0 or (y - yll)/csz > real(nrows)")
# the same predicates in coordinate units (the way the property states them); equivalent for csz > 0 (lemmas below)
F.spec("strictly_in_cell_xy(nrows, ncols, xll, yll, csz, x, y, row, col)",
       "xll + csz*real(col) < x and x < xll + csz*real(col+1) and "
       "yll + csz*real(nrows-1-row) < y and y < yll + csz*real(nrows-row)")
F.spec("strictly_outside_xy(nrows, ncols, xll, yll, csz, x, y)",
       "x < xll or x > xll + csz*real(ncols) or y < yll or y > yll + csz*real(nrows)")
F.lemma("scaled_lt", "a:real, b:real, t:real, csz:real", pre="csz > 0",
        stmt="iff(a + csz*t < b, t < (b - a)/csz) and iff(b < a + csz*t, (b - a)/csz < t)", props=["C07"])
F.lemma("footprint_forms", "xll:real, yll:real, csz:real, x:real, y:real, nrows:int, ncols:int, row:int, col:int", pre="csz > 0",
        stmt="iff(strictly_in_cell(nrows, ncols, xll, yll, csz, x, y, row, col), strictly_in_cell_xy(nrows, ncols, xll, yll, csz, x, y, row, col))",
        props=["C07"])
F.lemma("outside_forms", "xll:real, yll:real, csz:real, x:real, y:real, nrows:int, ncols:int", pre="csz > 0",
        stmt="iff(strictly_outside(nrows, ncols, xll, yll, csz, x, y), strictly_outside_xy(nrows, ncols, xll, yll, csz, x, y))",
        props=["C07"])
# neighbour slot k (0..8, row-major 3x3 around the cell; slot 4 is the cell itself)
F.spec("nbr(nrows, ncols, c, k)",
       "ite(k != 4 and 0 <= c % ncols + (k % 3 - 1) and c % ncols + (k % 3 - 1) < ncols and "
       "0 <= c // ncols + (k // 3 - 1) and c // ncols + (k // 3 - 1) < nrows, "
       "(c // ncols + (k // 3 - 1))*ncols + c % ncols + (k % 3 - 1), -1)")

# ---------------------------------------------------------------------------------- getnxy
K = F.kernel("getnxy")
K.requires("ncols >= 1 and ncols <= 2**30")
K.requires("idxcell >= 0 and idxcell <= 2**61")
K.requires("valid(nxy, 2)")
K.assigns("nxy[0:2]")
K.ensures("result == 0")
K.ensures("nxy[0] == col_of(ncols, idxcell)", props=["C07"])
K.ensures("nxy[1] == row_of(ncols, idxcell)", props=["C07"])
K.ensures("0 <= nxy[0] and nxy[0] < ncols and nxy[1] >= 0 and nxy[1]*ncols + nxy[0] == idxcell", props=["C07"])

# ---------------------------------------------------------------------------------- getcoord
K = F.kernel("getcoord")
K.requires(SANE_GRID)
K.requires("idxcell >= 0 and idxcell < nrows*ncols")
K.requires("valid(coord, 2)")
K.requires("not isnan(xll) and not isnan(yll) and not isnan(csz)")
K.assigns("coord[0:2]")
K.ensures("result == 0")
K.ensures("coord[0] == centre_x(xll, csz, col_of(ncols, idxcell))", props=["C07"])
K.ensures("coord[1] == centre_y(nrows, yll, csz, row_of(ncols, idxcell))", props=["C07"])

# ---------------------------------------------------------------------------------- c_cell2rowcol
K = F.kernel("c_cell2rowcol")
K.requires(SANE_GRID)
K.requires("nval >= 0 and nval <= 2**60")
K.requires("valid(idxcell, nval) and valid(rowcols, 2*nval) and separated(idxcell, rowcols)")
K.assigns("rowcols[0:2*nval]")
K.ensures("result == 0")
K.ensures("forall(k, 0 <= k < nval, implies(valid_cell(nrows, ncols, idxcell[k]), "
          "rowcols[2*k] == row_of(ncols, idxcell[k]) and rowcols[2*k+1] == col_of(ncols, idxcell[k])))", props=["C07"])
K.ensures("forall(k, 0 <= k < nval, implies(not valid_cell(nrows, ncols, idxcell[k]), "
          "rowcols[2*k] == -1 and rowcols[2*k+1] == -1))", props=["C07"])
K.loop(0, var="i", invariant=[
    "0 <= i and i <= nval",
    "forall(k, 0 <= k < i, implies(valid_cell(nrows, ncols, idxcell[k]), "
    "rowcols[2*k] == row_of(ncols, idxcell[k]) and rowcols[2*k+1] == col_of(ncols, idxcell[k])))",
    "forall(k, 0 <= k < i, implies(not valid_cell(nrows, ncols, idxcell[k]), rowcols[2*k] == -1 and rowcols[2*k+1] == -1))",
])

# ---------------------------------------------------------------------------------- c_cell2coord
K = F.kernel("c_cell2coord")
K.requires(SANE_GRID)
K.requires("nval >= 0 and nval <= 2**60")
K.requires("valid(idxcell, nval) and valid(xycoords, 2*nval) and separated(idxcell, xycoords)")
K.requires("not isnan(xll) and not isnan(yll) and not isnan(csz)")
K.assigns("xycoords[0:2*nval]")
K.ensures("result == 0")
K.ensures("forall(k, 0 <= k < nval, implies(valid_cell(nrows, ncols, idxcell[k]), "
          "xycoords[2*k] == centre_x(xll, csz, col_of(ncols, idxcell[k])) and "
          "xycoords[2*k+1] == centre_y(nrows, yll, csz, row_of(ncols, idxcell[k]))))", props=["C07"])
K.ensures("forall(k, 0 <= k < nval, implies(not valid_cell(nrows, ncols, idxcell[k]), "
          "isnan(xycoords[2*k]) and isnan(xycoords[2*k+1])))", props=["C07"])
K.loop(0, var="i", invariant=[
    "0 <= i and i <= nval",
    "forall(k, 0 <= k < i, implies(valid_cell(nrows, ncols, idxcell[k]), "
    "xycoords[2*k] == centre_x(xll, csz, col_of(ncols, idxcell[k])) and "
    "xycoords[2*k+1] == centre_y(nrows, yll, csz, row_of(ncols, idxcell[k]))))",
    "forall(k, 0 <= k < i, implies(not valid_cell(nrows, ncols, idxcell[k]), isnan(xycoords[2*k]) and isnan(xycoords[2*k+1])))",
])

# ---------------------------------------------------------------------------------- c_coord2cell
K = F.kernel("c_coord2cell")
K.requires(SANE_GRID)
K.requires("nval >= 0 and nval <= 2**60")
K.requires("valid(xycoords, 2*nval) and valid(idxcell, nval) and separated(xycoords, idxcell)")
K.requires("not isnan(xll) and not isnan(yll) and csz > 0")
K.assigns("idxcell[0:nval]")
K.ensures("result == 0")
# C07: c for every point inside the footprint of c, -1 for every point outside the extent (edges unconstrained)
# (the cell in row `row` from the top and column `col` is number row*ncols+col: row-major numbering from the top-left)
K.ensures("forall(k, 0 <= k < nval, forall(row, 0 <= row < nrows, forall(col, 0 <= col < ncols, implies("
          "not isnan(xycoords[2*k]) and not isnan(xycoords[2*k+1]) and "
          "strictly_in_cell(nrows, ncols, xll, yll, csz, xycoords[2*k], xycoords[2*k+1], row, col), "
          "idxcell[k] == cell_at(ncols, row, col)))))", props=["C07"])
K.ensures("forall(k, 0 <= k < nval, implies("
          "not isnan(xycoords[2*k]) and not isnan(xycoords[2*k+1]) and "
          "strictly_outside(nrows, ncols, xll, yll, csz, xycoords[2*k], xycoords[2*k+1]), idxcell[k] == -1))", props=["C07"])
# C05/C07: every answer is a valid cell or -1 (NaN coordinates included)
K.ensures("forall(k, 0 <= k < nval, idxcell[k] == -1 or valid_cell(nrows, ncols, idxcell[k]))", props=["C05", "C07"])
K.loop(0, var="i", invariant=[
    "0 <= i and i <= nval",
    "forall(k, 0 <= k < i, forall(row, 0 <= row < nrows, forall(col, 0 <= col < ncols, implies("
    "not isnan(xycoords[2*k]) and not isnan(xycoords[2*k+1]) and "
    "strictly_in_cell(nrows, ncols, xll, yll, csz, xycoords[2*k], xycoords[2*k+1], row, col), "
    "idxcell[k] == cell_at(ncols, row, col)))))",
    "forall(k, 0 <= k < i, implies("
    "not isnan(xycoords[2*k]) and not isnan(xycoords[2*k+1]) and "
    "strictly_outside(nrows, ncols, xll, yll, csz, xycoords[2*k], xycoords[2*k+1]), idxcell[k] == -1))",
    "forall(k, 0 <= k < i, idxcell[k] == -1 or valid_cell(nrows, ncols, idxcell[k]))",
], hints=[
    # the column / row (from the bottom) computed for a point strictly inside the footprint of (row, col)
    "forall(row, 0 <= row < nrows, forall(col, 0 <= col < ncols, implies("
    "not isnan(xycoords[2*i]) and not isnan(xycoords[2*i+1]) and "
    "strictly_in_cell(nrows, ncols, xll, yll, csz, xycoords[2*i], xycoords[2*i+1], row, col), "
    "fx == col and fy == nrows - 1 - row)))",
])

# ---------------------------------------------------------------------------------- c_neighbours
K = F.kernel("c_neighbours")
K.requires(SANE_GRID)
K.requires("valid(neighbours, 9)")
K.assigns("neighbours[0:9]")
K.behavior("invalid", "not valid_cell(nrows, ncols, idxcell)", "result > 0", props=["C07"])
K.behavior("valid", "valid_cell(nrows, ncols, idxcell)",
           ["result == 0"] + ["neighbours[%d] == nbr(nrows, ncols, idxcell, %d)" % (k, k) for k in range(9)], props=["C07", "C06"])

# ====================================================================================== flow direction
# FLOWDIRCODE is read from grid.py on every run (props/common.flowdircode) and bound to the constants FDC0..FDC8.
FDC_IS = " and ".join("flowdircode[%d] == FDC%d" % (k, k) for k in range(9))
# slot of the 3x3 table holding code fd (first match wins in the kernel; the codes are pairwise distinct), -1 if none
F.spec("dirslot(fd)", "ite(fd == FDC0, 0, ite(fd == FDC1, 1, ite(fd == FDC2, 2, ite(fd == FDC3, 3, ite(fd == FDC4, 4, "
       "ite(fd == FDC5, 5, ite(fd == FDC6, 6, ite(fd == FDC7, 7, ite(fd == FDC8, 8, -1)))))))))")
# C06 downstream relation: -2 sink (code 0), -1 off-grid or unknown code, else the neighbour in the direction of the code
F.spec("down(nrows, ncols, fd, c)", "ite(fd == 0, -2, ite(dirslot(fd) < 0, -1, nbr(nrows, ncols, c, dirslot(fd))))")
# neighbour in slot j of cell c drains into c
F.spec("is_up(nrows, ncols, flowdir, c, j)",
       "nbr(nrows, ncols, c, j) != -1 and flowdir[nbr(nrows, ncols, c, j)] != 0 and "
       "flowdir[nbr(nrows, ncols, c, j)] == ite(j == 0, FDC8, ite(j == 1, FDC7, ite(j == 2, FDC6, ite(j == 3, FDC5, ite(j == 4, FDC4, "
       "ite(j == 5, FDC3, ite(j == 6, FDC2, ite(j == 7, FDC1, FDC0))))))))")
F.spec("b2i(b)", "ite(b, 1, 0)")
F.spec("upcnt(nrows, ncols, flowdir, c, j)",
       " + ".join("ite(%d < j, b2i(is_up(nrows, ncols, flowdir, c, %d)), 0)" % (q, q) for q in range(9)))
FDC_DISTINCT = " and ".join("FDC%d != FDC%d" % (a, b) for a in range(9) for b in range(a + 1, 9))

# ---- lemmas over the specs (C06/C07): mirrored neighbour slots, upstream and downstream are inverse relations
F.lemma("nbr_mirror", "nrows:int, ncols:int, c:int, j:int",
        pre=SANE_GRID + " and valid_cell(nrows, ncols, c) and 0 <= j and j < 9 and nbr(nrows, ncols, c, j) != -1",
        stmt="valid_cell(nrows, ncols, nbr(nrows, ncols, c, j)) and nbr(nrows, ncols, nbr(nrows, ncols, c, j), 8 - j) == c and nbr(nrows, ncols, c, j) != c",
        props=["C06", "C07"])
F.lemma("nbr_injective", "nrows:int, ncols:int, c:int, j:int, k:int",
        pre=SANE_GRID + " and valid_cell(nrows, ncols, c) and 0 <= j and j < 9 and 0 <= k and k < 9 and nbr(nrows, ncols, c, j) != -1 and nbr(nrows, ncols, c, j) == nbr(nrows, ncols, c, k)",
        stmt="j == k", props=["C06", "C07"])
F.lemma("updown_inverse", "nrows:int, ncols:int, c:int, d:int, fd:int",
        pre=SANE_GRID + " and valid_cell(nrows, ncols, c) and valid_cell(nrows, ncols, d) and " + FDC_DISTINCT + " and FDC4 == 0",
        # d is listed upstream of c  (some slot j of c holds d, and d's code fd is the mirrored entry)  <=>  downstream(d) == c
        stmt="iff(" + " or ".join("(nbr(nrows, ncols, c, %d) == d and fd != 0 and fd == FDC%d)" % (j, 8 - j) for j in range(9) if j != 4)
             + ", down(nrows, ncols, fd, d) == c)", props=["C06"])

# ---------------------------------------------------------------------------------- c_downstream
K = F.kernel("c_downstream")
K.requires(SANE_GRID)
K.requires("nval >= 0 and nval <= 2**60")
K.requires("valid(flowdircode, 9) and valid(flowdir, nrows*ncols) and valid(idxup, nval) and valid(idxdown, nval)")
K.requires("separated(flowdircode, flowdir, idxup, idxdown)")
K.assigns("idxdown[0:nval]")
K.behavior("all_valid", "forall(k, 0 <= k < nval, valid_cell(nrows, ncols, idxup[k]))", "result == 0", props=["C06"])
K.behavior("some_invalid", "exists(k, 0 <= k < nval, not valid_cell(nrows, ncols, idxup[k]))", "result > 0", props=["C06"])
K.behavior("esri", FDC_IS + " and forall(k, 0 <= k < nval, valid_cell(nrows, ncols, idxup[k]))",
           "forall(k, 0 <= k < nval, idxdown[k] == down(nrows, ncols, flowdir[idxup[k]], idxup[k]))", props=["C06"])
# whatever the table: every answer is a valid cell, -1 or -2 (C05: callers index arrays with it)
K.behavior("range", "forall(k, 0 <= k < nval, valid_cell(nrows, ncols, idxup[k]))",
           "forall(k, 0 <= k < nval, idxdown[k] == -1 or idxdown[k] == -2 or valid_cell(nrows, ncols, idxdown[k]))", props=["C05"])
# on an invalid cell the kernel stops: entries from the first invalid cell on are left untouched
K.ensures("forall(k, 0 <= k < nval, implies(exists(q, 0 <= q <= k, not valid_cell(nrows, ncols, idxup[q])), idxdown[k] == old(idxdown[k])))", props=["C05"])
K.loop(0, var="i", invariant=[
    "0 <= i and i <= nval",
    "forall(k, 0 <= k < i, valid_cell(nrows, ncols, idxup[k]))",
    "forall(k, i <= k < nval, idxdown[k] == old(idxdown[k]))",
    "implies(" + FDC_IS + ", forall(k, 0 <= k < i, idxdown[k] == down(nrows, ncols, flowdir[idxup[k]], idxup[k])))",
    "forall(k, 0 <= k < i, idxdown[k] == -1 or idxdown[k] == -2 or valid_cell(nrows, ncols, idxdown[k]))",
])

# ---------------------------------------------------------------------------------- c_upstream
K = F.kernel("c_upstream")
K.requires(SANE_GRID)
K.requires("nval >= 0 and nval <= 2**58")
K.requires("valid(flowdircode, 9) and valid(flowdir, nrows*ncols) and valid(idxdown, nval) and valid(idxup, 9*nval)")
K.requires("separated(flowdircode, flowdir, idxdown, idxup)")
K.assigns("idxup[0:9*nval]")
K.behavior("all_valid", "forall(k, 0 <= k < nval, valid_cell(nrows, ncols, idxdown[k]))", "result == 0", props=["C06"])
K.behavior("some_invalid", "exists(k, 0 <= k < nval, not valid_cell(nrows, ncols, idxdown[k]))", "result > 0", props=["C06"])
UP_ROW = ("(" + " and ".join(
    "implies(is_up(nrows, ncols, flowdir, idxdown[k], %d), idxup[9*k + upcnt(nrows, ncols, flowdir, idxdown[k], %d)] == nbr(nrows, ncols, idxdown[k], %d))" % (j, j, j)
    for j in range(9)) + " and forall(p, upcnt(nrows, ncols, flowdir, idxdown[k], 9) <= p < 9, idxup[9*k + p] == -1))")
K.behavior("esri", FDC_IS + " and forall(k, 0 <= k < nval, valid_cell(nrows, ncols, idxdown[k]))",
           "forall(k, 0 <= k < nval, " + UP_ROW + ")", props=["C06"])
K.behavior("range", "forall(k, 0 <= k < nval, valid_cell(nrows, ncols, idxdown[k]))",
           "forall(q, 0 <= q < 9*nval, idxup[q] == -1 or valid_cell(nrows, ncols, idxup[q]))", props=["C05"])
K.loop(0, var="i", invariant=[
    "0 <= i and i <= nval",
    "forall(k, 0 <= k < i, valid_cell(nrows, ncols, idxdown[k]))",
    "implies(" + FDC_IS + ", forall(k, 0 <= k < i, " + UP_ROW + "))",
    "forall(q, 0 <= q < 9*i, idxup[q] == -1 or valid_cell(nrows, ncols, idxup[q]))",
])
K.loop(1, var="j")                 # 9 neighbour slots: fully unrolled
K.loop(2, var="j", unroll=9)       # padding with -1 from k to 9: unrolled with an unwinding assertion
# the same relation in the form callers use (C06 reachability): every listed cell drains into idxdown[k], and every cell that does is listed
UP_SOUND = "forall(p, 0 <= p < 9, idxup[9*k + p] == -1 or (valid_cell(nrows, ncols, idxup[9*k + p]) and down(nrows, ncols, flowdir[idxup[9*k + p]], idxup[9*k + p]) == idxdown[k]))"
UP_COMPLETE = "forall(c, 0 <= c < nrows*ncols, implies(down(nrows, ncols, flowdir[c], c) == idxdown[k], exists(p, 0 <= p < 9, idxup[9*k + p] == c)))"
UP_DISTINCT = "forall(p1, 0 <= p1 < 9, forall(p2, p1 < p2 < 9, idxup[9*k + p1] == -1 or idxup[9*k + p1] != idxup[9*k + p2]))"
K.behavior("esri_rel", FDC_IS + " and forall(k, 0 <= k < nval, valid_cell(nrows, ncols, idxdown[k]))",
           "forall(k, 0 <= k < nval, " + UP_SOUND + " and " + UP_COMPLETE + " and " + UP_DISTINCT + ")", props=["C06"])
K.loops[0].invariant.append("forall(k, 0 <= k < i, " + UP_DISTINCT + ")")
K.loops[0].invariant.append("implies(" + FDC_IS + ", forall(k, 0 <= k < i, " + UP_SOUND + "))")
K.loops[0].invariant.append("implies(" + FDC_IS + ", forall(k, 0 <= k < i, " + UP_COMPLETE + "))")

# ====================================================================================== exact cell function
# cell_of: the cell holding (x, y) -- floor-based, lower/left edges belong to the cell, -1 outside or for NaN.
# The C07 statements (footprint -> cell, outside -> -1) are lemmas over this function (below).
F.spec("cell_of(nrows, ncols, xll, yll, csz, x, y)",
       "ite(isnan(x) or isnan(y), -1, "
       "ite(0 <= floor((x - xll)/csz) and floor((x - xll)/csz) < ncols and 0 <= floor((y - yll)/csz) and floor((y - yll)/csz) < nrows, "
       "(nrows - 1 - floor((y - yll)/csz))*ncols + floor((x - xll)/csz), -1))")
K = F.kernels["c_coord2cell"]
K.ensures("forall(k, 0 <= k < nval, idxcell[k] == cell_of(nrows, ncols, xll, yll, csz, xycoords[2*k], xycoords[2*k+1]))", props=["C07", "C16"])
K.loops[0].invariant.append("forall(k, 0 <= k < i, idxcell[k] == cell_of(nrows, ncols, xll, yll, csz, xycoords[2*k], xycoords[2*k+1]))")

# ---------------------------------------------------------------------------------- c_slice (C05: safety only)
K = F.kernel("c_slice")
K.requires(SANE_GRID)
K.requires("nval >= 0 and nval <= 2**60")
K.requires("valid(data, nrows*ncols) and valid(xyslice, 2*nval) and valid(zslice, nval) and separated(data, xyslice, zslice)")
K.requires("not isnan(xll) and not isnan(yll) and csz > 0")
K.assigns("zslice[0:nval]")
K.ensures("result == 0")
K.loop(0, var="i", invariant=["0 <= i and i <= nval"])

# ---------------------------------------------------------------------------------- c_slope (C05: safety only)
K = F.kernel("c_slope")
K.requires("nrows <= 2**30 and ncols <= 2**30 and nrows >= -2**30 and ncols >= -2**30")
K.requires("implies(nrows >= 1 and ncols >= 1, valid(flowdir, nrows*ncols) and valid(altitude, nrows*ncols) and valid(slopeval, nrows*ncols))")
K.requires("valid(flowdircode, 9) and separated(flowdircode, flowdir, altitude, slopeval)")
K.assigns("slopeval[0:nrows*ncols]")
K.loop(0, var="i", invariant=["0 <= i and ntot == nrows*ncols and nrows >= 1 and implies(ntot > 0, i <= ntot and ncols >= 1)"])

# ====================================================================================== c_accumulate
SANE_ANY = "nrows <= 2**30 and ncols <= 2**30 and nrows >= -2**30 and ncols >= -2**30"
# ---- safety contract (C05): any grid (cycles included), any table, any nprint / cell limit
K = F.kernel("c_accumulate")
K.requires(SANE_ANY + " and max_accumulated_cells <= 2**61")
K.requires("valid(flowdircode, 9)")
K.requires("implies(nrows >= 1 and ncols >= 1, valid(flowdir, nrows*ncols) and valid(to_accumulate, nrows*ncols) and valid(accumulation, nrows*ncols))")
K.requires("separated(flowdircode, flowdir, to_accumulate, accumulation)")
K.assigns("accumulation[0:nrows*ncols]")      # C11/C18: the input grids are not in the frame
K.loop(0, var="i", invariant=["0 <= i and ntot == nrows*ncols and nrows >= 1 and max_accumulated_cells >= 1 and implies(ntot > 0, i <= ntot and ncols >= 1)"])
K.loop(1, var="accumulated_cells", invariant=[
    "0 <= i and i < ntot and ntot == nrows*ncols and nrows >= 1 and ncols >= 1 and max_accumulated_cells >= 1",
    "0 <= accumulated_cells and accumulated_cells <= max_accumulated_cells + 1",
    "valid_cell(nrows, ncols, idxup[0])"],
    variant="max_accumulated_cells + 1 - accumulated_cells")

# ---- functional contract (C11) on acyclic grids with the default cell limit
ACC_DOWN = "down(nrows, ncols, flowdir[{0}], {0})"
K = F.kernel("c_accumulate#acyclic")
K.requires(SANE_GRID + " and max_accumulated_cells <= 2**61 and max_accumulated_cells >= nrows*ncols")
K.requires("valid(flowdircode, 9) and " + FDC_IS)
K.requires("valid(flowdir, nrows*ncols) and valid(to_accumulate, nrows*ncols) and valid(accumulation, nrows*ncols)")
K.requires("separated(flowdircode, flowdir, to_accumulate, accumulation)")
K.requires("forall(c, 0 <= c < nrows*ncols, not isnan(to_accumulate[c]) and not isnan(accumulation[c]))")
# acyclic: a height function strictly decreasing along the downstream relation exists
K.ghost("hgt(c)", "int", None, concrete="ite(valid_cell(nrows, ncols, c) and %s >= 0, 1 + hgt(%s), 0)" % (ACC_DOWN.format("c"), ACC_DOWN.format("c")))
K.requires("forall(c, 0 <= c < nrows*ncols, 0 <= hgt(c) and hgt(c) < nrows*ncols and "
           "implies(%s >= 0, hgt(%s) < hgt(c)), hgt(c))" % (ACC_DOWN.format("c"), ACC_DOWN.format("c")))
K.ghost("dn(c)", "int", ACC_DOWN.format("c"))
# d drains through c (c is strictly downstream of d)
K.ghost("reaches(d, c)", "bool",
        "valid_cell(nrows, ncols, d) and dn(d) >= 0 and (dn(d) == c or reaches(dn(d), c))", decreases="hgt(d)")
# sum of the field over the cells d < n that drain through c
K.ghost("upsum(c, n)", "real", "ite(n <= 0, 0.0, upsum(c, n - 1) + ite(reaches(n - 1, c), to_accumulate[n - 1], 0.0))", decreases="n")
K.lemma("dn_range", "dn(c) == -1 or dn(c) == -2 or valid_cell(nrows, ncols, dn(c))", fixed=["c"], pre="valid_cell(nrows, ncols, c)", trigger="dn(c)")
K.lemma("reaches_lower", var="n", lo="0",
        stmt="forall(x, 0 <= x < nrows*ncols, forall(y, 0 <= y < nrows*ncols, implies(hgt(x) <= n and reaches(x, y), hgt(y) < hgt(x)), reaches(x, y)))",
        instance="nrows*ncols")
K.lemma("reaches_step", var="n", lo="0",
        stmt="forall(x, 0 <= x < nrows*ncols, forall(y, 0 <= y < nrows*ncols, implies(hgt(x) <= n and reaches(x, y) and dn(y) >= 0, reaches(x, dn(y))), mp(reaches(x, y), dn(y))))",
        instance="nrows*ncols")
K.assigns("accumulation[0:nrows*ncols]")
K.ensures("result == 0", props=["C11"])
# C11: a cell that drains into another cell holds its own (initial) value plus the field summed over everything draining through it
K.ensures("forall(c, 0 <= c < nrows*ncols, implies(dn(c) >= 0, accumulation[c] == old(accumulation[c]) + upsum(c, nrows*ncols)))", props=["C11"])
# cells that drain nowhere carry the no-data value
K.ensures("forall(c, 0 <= c < nrows*ncols, implies(dn(c) < 0, accumulation[c] == nodata_to_accumulate))", props=["C11"])
K.loop(0, var="i", invariant=[
    "0 <= i and i <= ntot and ntot == nrows*ncols",
    "forall(c, 0 <= c < nrows*ncols, implies(dn(c) >= 0, accumulation[c] == old(accumulation[c]) + upsum(c, i)))",
    "forall(c, 0 <= c < i, implies(dn(c) < 0, accumulation[c] == nodata_to_accumulate))",
])
K.loop(1, var="accumulated_cells", invariant=[
    "0 <= i and i < ntot and ntot == nrows*ncols",
    "valid_cell(nrows, ncols, idxup[0]) and (idxup[0] == i or reaches(i, idxup[0])) and dn(idxup[0]) >= -2",
    "0 <= accumulated_cells and accumulated_cells + hgt(idxup[0]) <= hgt(i)",
    # cells visited so far by the walk that started at i: those i drains through, up to and including idxup[0]
    "forall(c, 0 <= c < nrows*ncols, implies(dn(c) >= 0, accumulation[c] == old(accumulation[c]) + upsum(c, i) + "
    "ite(reaches(i, c) and not reaches(idxup[0], c), to_accumulate[i], 0.0)))",
    "forall(c, 0 <= c < i, implies(dn(c) < 0 and c != idxup[0], accumulation[c] == nodata_to_accumulate))",
], variant="max_accumulated_cells + 1 - accumulated_cells")

# ====================================================================================== c_intersect (C16)
K = F.kernel("c_intersect")
K.requires(SANE_GRID)
K.requires("nval >= 0 and nval <= 2**40")
K.requires("valid(xy_area, 2*nval) and ncells >= nrows*ncols and valid(idxcells, ncells) and valid(weights, ncells) and valid(npoints, 1)")
K.requires("separated(xy_area, npoints, idxcells, weights)")
K.requires("not isnan(xll) and not isnan(yll) and csz > 0 and not isnan(csz_area)")
K.assigns("npoints[0:1]", "idxcells[0:ncells]", "weights[0:ncells]")
# cell of the coarse grid holding the centre of catchment cell p (spec function of c_coord2cell)
K.ghost("cellp(p)", "int", "cell_of(nrows, ncols, xll, yll, csz, xy_area[2*p], xy_area[2*p+1])")
# number of catchment cells p < n whose centre falls in coarse cell c
K.ghost("cnt(c, n)", "int", "ite(n <= 0, 0, cnt(c, n - 1) + ite(cellp(n - 1) == c, 1, 0))", decreases="n")
K.lemma("cnt_nonneg", "cnt(c, n) >= 0", fixed=["c"], var="n", lo="0", trigger="cnt(c, n)")
# weight accumulated for coarse cell c by the first n catchment cells: one area ratio per centre (what the loop adds up) ...
K.ghost("wsum(c, n)", "real", "ite(n <= 0, 0.0, wsum(c, n - 1) + ite(cellp(n - 1) == c, (csz_area/csz)*(csz_area/csz), 0.0))", decreases="n")
# ... which is the number of centres times the ratio of cell areas (the form in which the property states it)
K.lemma("wsum_is_count_times_ratio", "wsum(c, n) == (csz_area/csz)*(csz_area/csz)*real(cnt(c, n))", fixed=["c"], var="n", lo="0", trigger="wsum(c, n)")
INTER_POST = [
    "0 <= {m} and {m} <= {n}",
    # each listed cell is a cell of the grid, holds at least one centre, and weighs (number of centres) x (ratio of cell areas)
    "forall(k, 0 <= k < {m}, valid_cell(nrows, ncols, idxcells[k]) and cnt(idxcells[k], {n}) >= 1 and "
    "weights[k] == wsum(idxcells[k], {n}))",
    # each grid cell appears once
    "forall(k1, 0 <= k1 < {m}, forall(k2, k1 < k2 < {m}, idxcells[k1] != idxcells[k2]))",
    # every cell holding a centre is listed
    "forall(c, 0 <= c < nrows*ncols, implies(cnt(c, {n}) > 0, exists(k, 0 <= k < {m}, idxcells[k] == c)))",
]
K.ensures("result == 0")
for e in INTER_POST:
    K.ensures(e.format(m="npoints[0]", n="nval"), props=["C16"])
K.ensures("forall(k, 0 <= k < npoints[0], weights[k] == (csz_area/csz)*(csz_area/csz)*real(cnt(idxcells[k], nval)))", props=["C16"])
K.loop(0, var="i", invariant=["0 <= i and i <= nval and j <= ncells and areafactor == (csz_area/csz)*(csz_area/csz) and not isnan(areafactor)"]
       + [e.format(m="j", n="i") for e in INTER_POST])
K.loop(1, var="k", invariant=[
    "0 <= k and k <= j",
    "forall(q, 0 <= q < k, idxcells[q] != idxcell[0])",
    "forall(q, 0 <= q < ncells, weights[q] == at_loop_entry(weights[q]))",
], assume=[
    # pigeonhole: j pairwise distinct cells of the grid, all different from one more cell of the grid, are fewer than the grid has cells
    ("Pigeonhole", "implies(valid_cell(nrows, ncols, idxcell[0]) and "
     "forall(q, 0 <= q < j, valid_cell(nrows, ncols, idxcells[q]) and idxcells[q] != idxcell[0]) and "
     "forall(k1, 0 <= k1 < j, forall(k2, k1 < k2 < j, idxcells[k1] != idxcells[k2])), j < nrows*ncols)")])

# ====================================================================================== c_voronoi (C05 safety, C16 partial)
K = F.kernel("c_voronoi")
K.requires(SANE_GRID)
K.requires("ncells >= 0 and ncells <= 2**60 and npoints <= 2**60 and npoints >= -2**60")
K.requires("valid(idxcells_area, ncells) and valid(xypoints, 2*npoints) and valid(weights, npoints)")
K.requires("separated(idxcells_area, xypoints, weights)")
K.requires("not isnan(xll) and not isnan(yll) and not isnan(csz)")
# content precondition (established by the catchment delineation): the area cells are cells of the grid
K.requires("forall(k, 0 <= k < ncells, valid_cell(nrows, ncols, idxcells_area[k]))")
K.assigns("weights[0:npoints]")
K.behavior("no_point", "npoints < 1", "result > 0", props=["C05", "C16"])
K.behavior("points", "npoints >= 1", "result == 0", props=["C16"])
K.behavior("nonneg", "npoints >= 1 and ncells >= 1", "forall(j, 0 <= j < npoints, weights[j] >= 0)", props=["C16"])
K.loop(0, var="j", invariant=["0 <= j and j <= npoints and npoints >= 1", "forall(q, 0 <= q < j, weights[q] == 0)"])
K.loop(1, var="i", invariant=["0 <= i and i <= ncells and npoints >= 1", "forall(q, 0 <= q < npoints, weights[q] >= 0)"])
K.loop(2, var="j", invariant=["0 <= j and j <= npoints and 0 <= jmin and jmin < npoints"])
K.loop(3, var="j", invariant=["0 <= j and j <= npoints and npoints >= 1",
                               "forall(q, 0 <= q < npoints, weights[q] >= 0 or ncells == 0)"])


# ---- functional contract (C16): the weight of point j is the fraction of the catchment cells whose NEAREST point is j, a tie going to the lowest index
K = F.kernel("c_voronoi#nearest")
K.requires(SANE_GRID)
K.requires("ncells >= 1 and ncells <= 2**40 and npoints >= 1 and npoints <= 2**40")
K.requires("valid(idxcells_area, ncells) and valid(xypoints, 2*npoints) and valid(weights, npoints)")
K.requires("separated(idxcells_area, xypoints, weights)")
K.requires("not isnan(xll) and not isnan(yll) and not isnan(csz)")
K.requires("forall(k, 0 <= k < ncells, valid_cell(nrows, ncols, idxcells_area[k]))")
K.requires("forall(q, 0 <= q < 2*npoints, not isnan(xypoints[q]))")
# distance from the centre of the k-th catchment cell to point j, written exactly as the code computes it
K.ghost("cx(k)", "real", "centre_x(xll, csz, col_of(ncols, idxcells_area[k]))")
K.ghost("cy(k)", "real", "centre_y(nrows, yll, csz, row_of(ncols, idxcells_area[k]))")
K.ghost("dst(k, j)", "real", "sqrt((cx(k) - xypoints[2*j])*(cx(k) - xypoints[2*j]) + (cy(k) - xypoints[2*j+1])*(cy(k) - xypoints[2*j+1]))")
# the search starts from the distance 1e30: every cell has a point closer than that (true for any realistic coordinates; stated, not hidden)
K.requires("forall(k, 0 <= k < ncells, exists(j, 0 <= j < npoints, dst(k, j) < 1e30))")
# nr(k): THE nearest point of cell k (first minimiser).  It is introduced by its defining property; such a function exists because a finite
# non-empty set of reals has a least element with a lowest index (elementary; not machine-checked here, listed as an assumption)
K.ghost("best(k, n)", "int", "ite(n <= 1, 0, ite(dst(k, n - 1) < dst(k, best(k, n - 1)), n - 1, best(k, n - 1)))", decreases="n")      # used to evaluate nr concretely
K.ghost("nr(k)", "int", None, concrete="best(k, npoints)")
K.requires("forall(k, 0 <= k < ncells, 0 <= nr(k) and nr(k) < npoints and forall(j, 0 <= j < npoints, dst(k, nr(k)) <= dst(k, j)) and "
           "forall(j, 0 <= j < nr(k), dst(k, j) > dst(k, nr(k))), nr(k))")
K.ghost("cnt(j, n)", "int", "ite(n <= 0, 0, cnt(j, n - 1) + ite(nr(n - 1) == j, 1, 0))", decreases="n")
# the counts add up to the number of cells (every cell has exactly one nearest point), hence the weights cnt(j)/ncells sum to 1
K.ghost("tot(P, n)", "int", "ite(P <= 0, 0, tot(P - 1, n) + cnt(P - 1, n))", decreases="P")
K.lemma("tot_zero", "tot(P, 0) == 0", var="P", lo="0", trigger="tot(P, 0)")
K.lemma("tot_step", "tot(P, n + 1) == tot(P, n) + ite(0 <= nr(n) and nr(n) < P, 1, 0)", fixed=["n"], var="P", lo="0", pre="n >= 0", trigger="tot(P, n + 1)")
K.lemma("tot_all", "implies(n <= ncells, tot(npoints, n) == n)", var="n", lo="0", trigger="tot(npoints, n)")
K.assigns("weights[0:npoints]")
K.ensures("result == 0", props=["C16"])
K.ensures("forall(j, 0 <= j < npoints, not isnan(weights[j]) and weights[j] == real(cnt(j, ncells))/real(ncells))", props=["C16"])
K.ensures("tot(npoints, ncells) == ncells", props=["C16"])
K.loop(0, var="j", invariant=["0 <= j and j <= npoints", "forall(q, 0 <= q < j, not isnan(weights[q]) and weights[q] == 0)"])
K.loop(1, var="i", invariant=["0 <= i and i <= ncells", "forall(q, 0 <= q < npoints, not isnan(weights[q]) and weights[q] == real(cnt(q, i)))"])
K.loop(2, var="j", invariant=[
    "0 <= i and i < ncells and 0 <= j and j <= npoints and 0 <= jmin and jmin < npoints and not isnan(distmin)",
    "not isnan(xy[0]) and not isnan(xy[1]) and xy[0] == cx(i) and xy[1] == cy(i)",
    "forall(q, 0 <= q < j, dst(i, q) >= distmin)",
    "(distmin == 1e30 and jmin == 0) or (jmin < j and distmin == dst(i, jmin) and forall(q, 0 <= q < jmin, dst(i, q) > distmin))",
    "forall(q, 0 <= q < npoints, not isnan(weights[q]) and weights[q] == real(cnt(q, i)))"])
K.loop(3, var="j", invariant=["0 <= j and j <= npoints",
                               "forall(q, 0 <= q < j, not isnan(weights[q]) and weights[q] == real(cnt(q, ncells))/real(ncells))",
                               "forall(q, j <= q < npoints, not isnan(weights[q]) and weights[q] == real(cnt(q, ncells)))"])
