"""Contracts for src/hydrodiy/gis/c_grid.c.

Top-level `ensures` are written from the property statements (C05, C06, C07, C11, C16);
`requires`, `assigns`, loop invariants and helper contracts are derived from the code and its call sites.
"""
from vf.contract import cfile

F = cfile("src/hydrodiy/gis/c_grid.c")

# SANE: magnitude restriction on integer scalars reaching a kernel straight from Python (DESIGN 2.3)
SANE_GRID = "nrows >= 1 and ncols >= 1 and nrows <= 2**30 and ncols <= 2**30"

# ---- spec functions (C07: row-major numbering from the top-left corner, centre coordinates, footprints)
F.spec("valid_cell(nrows, ncols, c)", "0 <= c and c < nrows*ncols")
F.spec("col_of(ncols, c)", "c % ncols")
F.spec("row_of(ncols, c)", "c // ncols")
F.spec("cell_at(ncols, row, col)", "row*ncols + col")
F.spec("centre_x(xll, csz, col)", "xll + csz*(real(col) + 0.5)")
F.spec("centre_y(nrows, yll, csz, row)", "yll + csz*(real(nrows - 1 - row) + 0.5)")
# footprint of cell (row, col): open box strictly inside the cell
F.spec("strictly_in_cell(nrows, ncols, xll, yll, csz, x, y, row, col)",
       "xll + csz*real(col) < x and x < xll + csz*real(col+1) and "
       "yll + csz*real(nrows-1-row) < y and y < yll + csz*real(nrows-row)")
F.spec("strictly_outside(nrows, ncols, xll, yll, csz, x, y)",
       "x < xll or x > xll + csz*real(ncols) or y < yll or y > yll + csz*real(nrows)")
# neighbour slot k (0..8, row-major 3x3 around the cell; slot 4 is the cell itself)
F.spec("nbr(nrows, ncols, c, k)",
       "ite(k != 4 and 0 <= c % ncols + (k % 3 - 1) and c % ncols + (k % 3 - 1) < ncols and "
       "0 <= c // ncols + (k // 3 - 1) and c // ncols + (k // 3 - 1) < nrows, "
       "(c // ncols + (k // 3 - 1))*ncols + c % ncols + (k % 3 - 1), -1)")

# ---------------------------------------------------------------------------------- getnxy
K = F.kernel("getnxy")
K.requires("ncols >= 1 and ncols <= 2**30")
K.requires("idxcell >= 0 and idxcell <= 2**61")
K.requires("valid(nxy, 2)")
K.assigns("nxy[0:2]")
K.ensures("result == 0")
K.ensures("nxy[0] == col_of(ncols, idxcell)", props=["C07"])
K.ensures("nxy[1] == row_of(ncols, idxcell)", props=["C07"])
K.ensures("0 <= nxy[0] and nxy[0] < ncols and nxy[1] >= 0 and nxy[1]*ncols + nxy[0] == idxcell", props=["C07"])

# ---------------------------------------------------------------------------------- getcoord
K = F.kernel("getcoord")
K.requires(SANE_GRID)
K.requires("idxcell >= 0 and idxcell < nrows*ncols")
K.requires("valid(coord, 2)")
K.requires("not isnan(xll) and not isnan(yll) and not isnan(csz)")
K.assigns("coord[0:2]")
K.ensures("result == 0")
K.ensures("coord[0] == centre_x(xll, csz, col_of(ncols, idxcell))", props=["C07"])
K.ensures("coord[1] == centre_y(nrows, yll, csz, row_of(ncols, idxcell))", props=["C07"])

# ---------------------------------------------------------------------------------- c_cell2rowcol
K = F.kernel("c_cell2rowcol")
K.requires(SANE_GRID)
K.requires("nval >= 0 and nval <= 2**60")
K.requires("valid(idxcell, nval) and valid(rowcols, 2*nval) and separated(idxcell, rowcols)")
K.assigns("rowcols[0:2*nval]")
K.ensures("result == 0")
K.ensures("forall(k, 0 <= k < nval, implies(valid_cell(nrows, ncols, idxcell[k]), "
          "rowcols[2*k] == row_of(ncols, idxcell[k]) and rowcols[2*k+1] == col_of(ncols, idxcell[k])))", props=["C07"])
K.ensures("forall(k, 0 <= k < nval, implies(not valid_cell(nrows, ncols, idxcell[k]), "
          "rowcols[2*k] == -1 and rowcols[2*k+1] == -1))", props=["C07"])
K.loop(0, var="i", invariant=[
    "0 <= i and i <= nval",
    "forall(k, 0 <= k < i, implies(valid_cell(nrows, ncols, idxcell[k]), "
    "rowcols[2*k] == row_of(ncols, idxcell[k]) and rowcols[2*k+1] == col_of(ncols, idxcell[k])))",
    "forall(k, 0 <= k < i, implies(not valid_cell(nrows, ncols, idxcell[k]), rowcols[2*k] == -1 and rowcols[2*k+1] == -1))",
])

# ---------------------------------------------------------------------------------- c_cell2coord
K = F.kernel("c_cell2coord")
K.requires(SANE_GRID)
K.requires("nval >= 0 and nval <= 2**60")
K.requires("valid(idxcell, nval) and valid(xycoords, 2*nval) and separated(idxcell, xycoords)")
K.requires("not isnan(xll) and not isnan(yll) and not isnan(csz)")
K.assigns("xycoords[0:2*nval]")
K.ensures("result == 0")
K.ensures("forall(k, 0 <= k < nval, implies(valid_cell(nrows, ncols, idxcell[k]), "
          "xycoords[2*k] == centre_x(xll, csz, col_of(ncols, idxcell[k])) and "
          "xycoords[2*k+1] == centre_y(nrows, yll, csz, row_of(ncols, idxcell[k]))))", props=["C07"])
K.ensures("forall(k, 0 <= k < nval, implies(not valid_cell(nrows, ncols, idxcell[k]), "
          "isnan(xycoords[2*k]) and isnan(xycoords[2*k+1])))", props=["C07"])
K.loop(0, var="i", invariant=[
    "0 <= i and i <= nval",
    "forall(k, 0 <= k < i, implies(valid_cell(nrows, ncols, idxcell[k]), "
    "xycoords[2*k] == centre_x(xll, csz, col_of(ncols, idxcell[k])) and "
    "xycoords[2*k+1] == centre_y(nrows, yll, csz, row_of(ncols, idxcell[k]))))",
    "forall(k, 0 <= k < i, implies(not valid_cell(nrows, ncols, idxcell[k]), isnan(xycoords[2*k]) and isnan(xycoords[2*k+1])))",
])

# ---------------------------------------------------------------------------------- c_coord2cell
K = F.kernel("c_coord2cell")
K.requires(SANE_GRID)
K.requires("nval >= 0 and nval <= 2**60")
K.requires("valid(xycoords, 2*nval) and valid(idxcell, nval) and separated(xycoords, idxcell)")
K.requires("not isnan(xll) and not isnan(yll) and csz > 0")
K.assigns("idxcell[0:nval]")
K.ensures("result == 0")
# C07: c for every point inside the footprint of c, -1 for every point outside the extent (edges unconstrained)
K.ensures("forall(k, 0 <= k < nval, forall(c, 0 <= c < nrows*ncols, implies("
          "not isnan(xycoords[2*k]) and not isnan(xycoords[2*k+1]) and "
          "strictly_in_cell(nrows, ncols, xll, yll, csz, xycoords[2*k], xycoords[2*k+1], row_of(ncols, c), col_of(ncols, c)), "
          "idxcell[k] == c)))", props=["C07"])
K.ensures("forall(k, 0 <= k < nval, implies("
          "not isnan(xycoords[2*k]) and not isnan(xycoords[2*k+1]) and "
          "strictly_outside(nrows, ncols, xll, yll, csz, xycoords[2*k], xycoords[2*k+1]), idxcell[k] == -1))", props=["C07"])
# C05/C07: every answer is a valid cell or -1 (NaN coordinates included)
K.ensures("forall(k, 0 <= k < nval, idxcell[k] == -1 or valid_cell(nrows, ncols, idxcell[k]))", props=["C05", "C07"])
K.loop(0, var="i", invariant=[
    "0 <= i and i <= nval",
    "forall(k, 0 <= k < i, forall(c, 0 <= c < nrows*ncols, implies("
    "not isnan(xycoords[2*k]) and not isnan(xycoords[2*k+1]) and "
    "strictly_in_cell(nrows, ncols, xll, yll, csz, xycoords[2*k], xycoords[2*k+1], row_of(ncols, c), col_of(ncols, c)), "
    "idxcell[k] == c)))",
    "forall(k, 0 <= k < i, implies("
    "not isnan(xycoords[2*k]) and not isnan(xycoords[2*k+1]) and "
    "strictly_outside(nrows, ncols, xll, yll, csz, xycoords[2*k], xycoords[2*k+1]), idxcell[k] == -1))",
    "forall(k, 0 <= k < i, idxcell[k] == -1 or valid_cell(nrows, ncols, idxcell[k]))",
])

# ---------------------------------------------------------------------------------- c_neighbours
K = F.kernel("c_neighbours")
K.requires(SANE_GRID)
K.requires("valid(neighbours, 9)")
K.assigns("neighbours[0:9]")
K.behavior("invalid", "not valid_cell(nrows, ncols, idxcell)", "result > 0", props=["C07"])
K.behavior("valid", "valid_cell(nrows, ncols, idxcell)",
           ["result == 0"] + ["neighbours[%d] == nbr(nrows, ncols, idxcell, %d)" % (k, k) for k in range(9)], props=["C07", "C06"])
