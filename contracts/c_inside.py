"""Contracts for src/hydrodiy/gis/c_points_inside_polygon.c (C05 safety; C15 even-odd rule)."""
from vf.contract import cfile

F = cfile("src/hydrodiy/gis/c_points_inside_polygon.c")

# ---- spec (from the property): crossing of the horizontal ray from the point to +infinity with an edge, half-open rule
F.spec("level(y, ay, by)", "min(ay, by) < y and y <= max(ay, by)")
F.spec("xint(y, ax, ay, bx, by)", "ax + (y - ay)*(bx - ax)/(by - ay)")
F.spec("cross(x, y, ax, ay, bx, by)", "level(y, ay, by) and x < xint(y, ax, ay, bx, by)")

SAFE = ["npoints >= 0 and npoints <= 2**30 and nvertices >= 1 and nvertices <= 2**29",
        "valid(points, 2*npoints) and valid(polygon, 2*nvertices) and valid(polygon_xlim, 2) and valid(polygon_ylim, 2) and valid(inside, npoints)",
        "separated(points, polygon, polygon_xlim, polygon_ylim, inside)"]

# ---------------------------------------------------------------------------------- safety, any content
K = F.kernel("c_inside")
for r in SAFE:
    K.requires(r)
K.assigns("inside[0:npoints]")
K.ensures("result == 0")
K.ensures("forall(q, 0 <= q < npoints, inside[q] == 0 or inside[q] == 1 or inside[q] == old(inside[q]))", props=["C05"])
K.loop(0, var="ipt", invariant=["0 <= ipt and ipt <= npoints", "forall(q, 0 <= q < npoints, inside[q] == 0 or inside[q] == 1 or inside[q] == old(inside[q]))"])
K.loop(1, var="ivert", invariant=["0 <= ipt and ipt < npoints and 1 <= ivert and ivert <= nvertices + 1",
                                   "forall(q, 0 <= q < npoints, inside[q] == 0 or inside[q] == 1 or inside[q] == old(inside[q]))",
                                   "inside[ipt] == 0 or inside[ipt] == 1"])

# ---------------------------------------------------------------------------------- even-odd rule (C15)
K = F.kernel("c_inside#evenodd")
for r in SAFE:
    K.requires(r)
K.requires("not isnan(atol) and atol > 0")
K.requires("forall(q, 0 <= q < 2*npoints, not isnan(points[q])) and forall(q, 0 <= q < 2*nvertices, not isnan(polygon[q]))")
K.requires("not isnan(polygon_xlim[0]) and not isnan(polygon_xlim[1]) and not isnan(polygon_ylim[0]) and not isnan(polygon_ylim[1])")
# vertex e, the vertex after it (cyclically), query point p
K.ghost("vx(e)", "real", "polygon[2*e]")
K.ghost("vy(e)", "real", "polygon[2*e + 1]")
K.ghost("nxt(e)", "int", "(e + 1) % nvertices")
K.ghost("px(p)", "real", "points[2*p]")
K.ghost("py(p)", "real", "points[2*p + 1]")
# input class of the property: consecutive vertex coordinates are equal or differ by more than the tolerance ...
K.ghost("edgeok(e)", "bool", "(vx(e) == vx(nxt(e)) or abs(vx(e) - vx(nxt(e))) > atol) and (vy(e) == vy(nxt(e)) or abs(vy(e) - vy(nxt(e))) > atol)")
K.requires("forall(e, 0 <= e < nvertices, edgeok(e), edgeok(e))")
# ... and no point lies on the supporting line of an edge it is level with (it is farther from the boundary than the tolerance)
K.ghost("offline(p, e)", "bool", "implies(level(py(p), vy(e), vy(nxt(e))), px(p) != xint(py(p), vx(e), vy(e), vx(nxt(e)), vy(nxt(e))))")
K.requires("forall(p, 0 <= p < npoints, forall(e, 0 <= e < nvertices, offline(p, e), offline(p, e)))")
K.ghost("crossp(p, e)", "bool", "cross(px(p), py(p), vx(e), vy(e), vx(nxt(e)), vy(nxt(e)))")
# parity of the number of crossings with the first n edges (edge e joins vertex e and vertex e+1 mod N)
K.ghost("par(p, n)", "int", "ite(n <= 0, 0, ite(crossp(p, n - 1), 1 - par(p, n - 1), par(p, n - 1)))", decreases="n")
K.lemma("par_range", "par(p, n) == 0 or par(p, n) == 1", fixed=["p"], var="n", lo="0", trigger="par(p, n)")
K.ghost("inbox(p)", "bool", "not (px(p) < polygon_xlim[0] or px(p) > polygon_xlim[1] or py(p) < polygon_ylim[0] or py(p) > polygon_ylim[1])")
K.assigns("inside[0:npoints]")
K.ensures("result == 0")
K.ensures("forall(q, 0 <= q < npoints, implies(inbox(q), inside[q] == par(q, nvertices)))", props=["C15"])
K.ensures("forall(q, 0 <= q < npoints, implies(not inbox(q), inside[q] == old(inside[q])))", props=["C15"])
K.loop(0, var="ipt", invariant=[
    "0 <= ipt and ipt <= npoints",
    "forall(q, 0 <= q < ipt, implies(inbox(q), inside[q] == par(q, nvertices)))",
    "forall(q, 0 <= q < npoints, implies(not inbox(q) or q >= ipt, inside[q] == old(inside[q])))"])
K.loop(1, var="ivert", invariant=[
    "0 <= ipt and ipt < npoints and 1 <= ivert and ivert <= nvertices + 1 and inbox(ipt)",
    "x == px(ipt) and y == py(ipt)",
    "implies(ivert <= nvertices, p1x == vx(ivert - 1) and p1y == vy(ivert - 1) and edgeok(ivert - 1) and offline(ipt, ivert - 1) and nxt(ivert - 1) == ivert % nvertices)",
    "inside[ipt] == par(ipt, ivert - 1)",
    "forall(q, 0 <= q < npoints, implies(q != ipt, inside[q] == at_loop_entry(inside[q])))"],
    hints=[
    # the edge handled by this iteration joins vertex ivert-1 (p1 at the start) and its successor (p1 at the end)
    "p1x == vx(nxt(ivert - 1)) and p1y == vy(nxt(ivert - 1))",
    "inside[ipt] == at_iter_start(inside[ipt]) or inside[ipt] == 1 - at_iter_start(inside[ipt])",
    # on a level edge the intersection abscissa lies between the abscissae of the two end points
    "implies(level(py(ipt), vy(ivert - 1), vy(nxt(ivert - 1))), "
    "min(vx(ivert - 1), vx(nxt(ivert - 1))) <= xint(py(ipt), vx(ivert - 1), vy(ivert - 1), vx(nxt(ivert - 1)), vy(nxt(ivert - 1))) and "
    "xint(py(ipt), vx(ivert - 1), vy(ivert - 1), vx(nxt(ivert - 1)), vy(nxt(ivert - 1))) <= max(vx(ivert - 1), vx(nxt(ivert - 1))))",
    # toggled only on level edges
    "implies(inside[ipt] != at_iter_start(inside[ipt]), level(py(ipt), vy(ivert - 1), vy(nxt(ivert - 1))))",
    # per-edge step of the even-odd rule: the answer is toggled exactly when the ray crosses this edge
    "iff(inside[ipt] != at_iter_start(inside[ipt]), crossp(ipt, ivert - 1))",
])
