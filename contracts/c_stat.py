"""Contracts for the kernels of src/hydrodiy/stat (C05 safety for all; C20 pareto front; C17 AR models; C03 CRPS; C10 ranks / Anderson-Darling)."""
from vf.contract import cfile

# ====================================================================================== c_paretofront.c (C20)
F = cfile("src/hydrodiy/stat/c_paretofront.c")
K = F.kernel("c_paretofront")
K.requires("nval >= 0 and ncol >= 0 and nval <= 2**15 and ncol <= 2**15 and orientation >= -2**20 and orientation <= 2**20")
K.requires("valid(data, nval*ncol) and valid(isdominated, nval) and separated(data, isdominated)")
K.assigns("isdominated[0:nval]")
# point j is strictly better than point i in coordinate q, or the comparison is not possible (missing coordinate)
F.spec("better(ncol, orientation, data, i, j, q)",
       "isnan(data[ncol*j+q]) or isnan(data[ncol*i+q]) or real(orientation)*(data[ncol*j+q] - data[ncol*i+q]) > 0")
F.spec("dominates(ncol, orientation, data, i, j)", "forall(q, 0 <= q < ncol, better(ncol, orientation, data, i, j, q))")
K.ensures("result == 0")
# dm(p, j): point j is strictly better than point p in every non-missing coordinate (a ghost function, so that the solver has the
# atom dm(p, j) to instantiate on; its definition is the spec `dominates`)
K.ghost("dm(p, j)", "bool", "dominates(ncol, orientation, data, p, j)")
# C20: a point is flagged exactly when another point is strictly better in every non-missing coordinate
K.ensures("forall(p, 0 <= p < nval, iff(isdominated[p] == 1, exists(j, 0 <= j < nval, j != p and dm(p, j))))", props=["C20"])
K.ensures("forall(p, 0 <= p < nval, isdominated[p] == 0 or isdominated[p] == 1)", props=["C20"])
K.loop(0, var="i", invariant=[
    "0 <= i and i <= nval and orientationd == real(orientation)",
    "forall(p, 0 <= p < i, isdominated[p] == 0 or isdominated[p] == 1)",
    # the equivalence is carried as its two directions: a flagged point has a dominating point, an unflagged one has none
    "forall(p, 0 <= p < i, implies(isdominated[p] == 1, exists(j, 0 <= j < nval, j != p and dm(p, j))))",
    "forall(p, 0 <= p < i, forall(j, 0 <= j < nval, implies(isdominated[p] == 0 and j != p, not dm(p, j)), dm(p, j)))"])
K.loop(1, var="j", invariant=[
    "0 <= i and i < nval and 0 <= j and j <= nval and orientationd == real(orientation) and isdominated[i] == 0",
    "forall(p, 0 <= p < nval, implies(p != i, isdominated[p] == at_loop_entry(isdominated[p])))",
    "forall(jj, 0 <= jj < j, jj == i or not dm(i, jj), dm(i, jj))"])
K.loop(2, var="k", invariant=[
    "0 <= i and i < nval and 0 <= j and j < nval and i != j and 0 <= k and k <= ncol and (dom == 0 or dom == 1) and orientationd == real(orientation)",
    "iff(dom == 1, forall(q, 0 <= q < k, better(ncol, orientation, data, i, j, q)))"])
# lemma over the spec (C20): reversing the orientation equals negating the data (stated per coordinate pair)
F.lemma("orientation_negation", "o:int, a:real, b:real", stmt="iff(real(-o)*(a - b) > 0, real(o)*((-a) - (-b)) > 0)", props=["C20"])

# ====================================================================================== c_armodels.c (C17)
F = cfile("src/hydrodiy/stat/c_armodels.c")
AR_SAFE = ["nval >= 0 and nval <= 2**30 and nparams >= -2**30 and nparams <= 2**30",
           "implies(1 <= nparams and nparams <= 10, valid(params, nparams))"]
PARAMS_OK = "1 <= nparams and nparams <= 10 and forall(k, 0 <= k < nparams, not isnan(params[k])) and not isnan(sim_mean) and not isnan(sim_ini)"
PARAMS_BAD = "nparams > 10 or nparams <= 0 or exists(k, 0 <= k < nparams, isnan(params[k])) or isnan(sim_mean) or isnan(sim_ini)"

# ---------------------------------------------------------------------------------- c_armodel_sim
K = F.kernel("c_armodel_sim")
K.option(uf_mul=True)      # products phi[k]*y[t-k] are only compared structurally: no nonlinear arithmetic needed
for r in AR_SAFE:
    K.requires(r)
K.requires("valid(innov, nval) and valid(outputs, nval) and separated(params, innov, outputs)")
K.assigns("outputs[0:nval]")
# centred simulated value at time t (the initial value before the start), innovation with missing values acting as zero
F.spec("ysim(outputs, sim_mean, sim_ini, t)", "ite(t < 0, sim_ini - sim_mean, outputs[t] - sim_mean)")
F.spec("einn(innov, t)", "ite(isnan(innov[t]), 0.0, innov[t])")
F.spec("arsum_sim(outputs, params, nparams, sim_mean, sim_ini, t)",
       " + ".join("ite(%d < nparams, params[%d]*ysim(outputs, sim_mean, sim_ini, t - 1 - %d), 0.0)" % (k, k, k) for k in range(10)))
K.behavior("rejected", PARAMS_BAD, "result > 0", props=["C17", "C05"])
# C17: y[t]-m = sum_k phi[k]*(y[t-k]-m) + e[t], started from the initial value
K.behavior("recursion", PARAMS_OK, ["result == 0",
           "forall(t, 0 <= t < nval, not isnan(outputs[t]) and outputs[t] - sim_mean == arsum_sim(outputs, params, nparams, sim_mean, sim_ini, t) + einn(innov, t))"], props=["C17"])
K.loop(0, var="k", invariant=["1 <= nparams and nparams <= 10 and 0 <= k and k <= nparams", "forall(q, 0 <= q < k, not isnan(params[q]))"])
K.loop(1, var="k", invariant=["1 <= nparams and nparams <= 10 and 0 <= k and k <= nparams and not isnan(sim_ini) and not isnan(sim_mean)",
                               "forall(q, 0 <= q < k, prev_centered[q] == sim_ini - sim_mean)"])
K.loop(2, var="i", invariant=[
    "1 <= nparams and nparams <= 10 and 0 <= i and i <= nval and not isnan(sim_ini) and not isnan(sim_mean) and forall(q, 0 <= q < nparams, not isnan(params[q]))",
    "forall(q, 0 <= q < nparams, prev_centered[q] == ysim(outputs, sim_mean, sim_ini, i - 1 - q))",
    "forall(t, 0 <= t < i, not isnan(outputs[t]) and outputs[t] - sim_mean == arsum_sim(outputs, params, nparams, sim_mean, sim_ini, t) + einn(innov, t))"])
K.loop(3, var="k", unroll=10)

# ---------------------------------------------------------------------------------- c_armodel_residual
K = F.kernel("c_armodel_residual")
K.option(uf_mul=True)
for r in AR_SAFE:
    K.requires(r)
K.requires("valid(inputs, nval) and valid(residuals, nval) and separated(params, inputs, residuals)")
K.assigns("residuals[0:nval]")
K.behavior("rejected", PARAMS_BAD, "result > 0", props=["C17", "C05"])
# centred input at time t; a missing input is replaced by its AR prediction (so that its residual is zero)
K.ghost("vin(t)", "real", "ite(t < 0, sim_ini - sim_mean, ite(isnan(inputs[t]), "
        + " + ".join("ite(%d < nparams, params[%d]*vin(t - 1 - %d), 0.0)" % (k, k, k) for k in range(10))
        + ", inputs[t] - sim_mean))", decreases="t + 11")
F.spec("arsum_res(params, nparams, t)", " + ".join("ite(%d < nparams, params[%d]*vin(t - 1 - %d), 0.0)" % (k, k, k) for k in range(10)))
K.behavior("recursion", PARAMS_OK, ["result == 0",
           "forall(t, 0 <= t < nval, residuals[t] == vin(t) - arsum_res(params, nparams, t))",
           # missing inputs give zero residuals
           "forall(t, 0 <= t < nval, implies(isnan(inputs[t]), residuals[t] == 0))"], props=["C17"])
K.loop(0, var="k", invariant=["1 <= nparams and nparams <= 10 and 0 <= k and k <= nparams", "forall(q, 0 <= q < k, not isnan(params[q]))"])
K.loop(1, var="k", invariant=["1 <= nparams and nparams <= 10 and 0 <= k and k <= nparams and not isnan(sim_ini) and not isnan(sim_mean)",
                               "forall(q, 0 <= q < k, prev_centered[q] == sim_ini - sim_mean)"])
K.loop(2, var="i", invariant=[
    "1 <= nparams and nparams <= 10 and 0 <= i and i <= nval and not isnan(sim_ini) and not isnan(sim_mean) and forall(q, 0 <= q < nparams, not isnan(params[q]))",
    "forall(q, 0 <= q < nparams, prev_centered[q] == vin(i - 1 - q))",
    "forall(t, 0 <= t < i, residuals[t] == vin(t) - arsum_res(params, nparams, t))",
    "forall(t, 0 <= t < i, implies(isnan(inputs[t]), residuals[t] == 0))"])
K.loop(3, var="k", unroll=10)
K.loop(4, var="k", unroll=10)

# ====================================================================================== c_crps.c (C05 safety; C03)
F = cfile("src/hydrodiy/stat/c_crps.c")
K = F.kernel("c_crps")
K.requires("nval >= 0 and nval <= 2**15 and ncol >= 1 and ncol <= 2**15")
K.requires("valid(obs, nval) and valid(sim, nval*ncol) and valid(reliability_table, (ncol+1)*7) and valid(crps_decompos, 5)")
K.requires("implies(use_weights == 1, valid(weights_vector, nval))")
K.requires("separated(obs, sim, weights_vector, reliability_table, crps_decompos)")
K.assigns("reliability_table[0:(ncol+1)*7]", "crps_decompos[0:5]")
K.loop(0, var="j", invariant=["0 <= j and j <= ncol + 1"])
K.loop(1, var="i", invariant=["0 <= i and i <= nval"])
K.loop(2, var="j", invariant=["0 <= i and i < nval and 0 <= j and j <= ncol"])
K.loop(3, var="j", invariant=["0 <= i and i < nval and 0 <= j and (j <= ncol - 1 or ncol < 1)"])
K.loop(4, var="k", invariant=["0 <= i and i < nval and 0 <= k and k <= i"])
K.loop(5, var="j", invariant=["0 <= j and j <= ncol + 1"])

# ---- functional contract (C03): the Hersbach decomposition is exact, term by term, for unweighted forecasts without missing values
K = F.kernel("c_crps#decomp")
K.requires("nval >= 1 and nval <= 2**15 and ncol >= 1 and ncol <= 2**15 and use_weights == 0")
K.requires("valid(obs, nval) and valid(sim, nval*ncol) and valid(reliability_table, (ncol+1)*7) and valid(crps_decompos, 5)")
K.requires("separated(obs, sim, weights_vector, reliability_table, crps_decompos)")
K.requires("forall(q, 0 <= q < nval, not isnan(obs[q]))")
K.requires("forall(q, 0 <= q < nval*ncol, not isnan(sim[q]))")
# the kernel accumulates into the output vector: the wrapper hands it over zeroed (checked at the boundary by the L3 monitor)
K.requires("not isnan(crps_decompos[0]) and crps_decompos[0] == 0.0 and not isnan(crps_decompos[1]) and crps_decompos[1] == 0.0")
K.assigns("reliability_table[0:(ncol+1)*7]", "crps_decompos[0:5]")
OKR = "result == 0"
K.ensures("implies(%s, not isnan(crps_decompos[0]) and not isnan(crps_decompos[1]) and not isnan(crps_decompos[4]) and crps_decompos[0] == crps_decompos[1] + crps_decompos[4])" % OKR, props=["C03"])
K.ensures("implies(%s, not isnan(crps_decompos[2]) and not isnan(crps_decompos[3]) and crps_decompos[2] == crps_decompos[3] - crps_decompos[4])" % OKR, props=["C03"])
K.ensures("implies(%s, crps_decompos[1] >= 0 and crps_decompos[4] >= 0 and crps_decompos[3] >= 0)" % OKR, props=["C03"])
W = "not isnan(weight) and weight*real(nval) == 1.0 and weight > 0"
ACC = ["forall(q, 0 <= q <= ncol, not isnan(a[q]) and a[q] >= 0)", "forall(q, 0 <= q <= ncol, not isnan(b[q]) and b[q] >= 0)", "forall(q, 0 <= q <= ncol, not isnan(g[q]) and g[q] == 0.0)",
       "not isnan(o[0]) and o[0] >= 0", "implies(b[0] > 0, o[0] > 0)", "o[0]*real(nval) <= real(i)", "not isnan(o[ncol]) and o[ncol] >= 0",
       "not isnan(uncertainty) and uncertainty >= 0", "not isnan(crps_potential) and crps_potential == 0.0"]
K.loop(0, var="j", invariant=["0 <= j and j <= ncol + 1 and not isnan(uncertainty) and uncertainty == 0.0 and not isnan(crps_potential) and crps_potential == 0.0",
                              "forall(q, 0 <= q < j, not isnan(a[q]) and a[q] == 0.0 and not isnan(b[q]) and b[q] == 0.0 and not isnan(g[q]) and g[q] == 0.0 and not isnan(o[q]) and o[q] == 0.0)"])
K.loop(1, var="i", invariant=["0 <= i and i <= nval"] + ACC + ["o[ncol]*real(nval) <= real(i)", "implies(a[ncol] > 0, o[ncol]*real(nval) <= real(i) - 1.0)"])
K.loop(2, var="j", invariant=["0 <= i and i < nval and 0 <= j and j <= ncol", "forall(q, 0 <= q < j, not isnan(ensemb[q]))"])
K.loop(3, var="j", invariant=["0 <= i and i < nval and 0 <= j and (j <= ncol - 1 or ncol < 1)", W,
                              "forall(q, 0 <= q < ncol, not isnan(ensemb[q]))",
                              "forall(q, 0 <= q <= ncol, not isnan(a[q]) and a[q] >= 0 and not isnan(b[q]) and b[q] >= 0)",
                              # the bins written are 1 .. ncol-1: the outlier bins keep their value
                              "b[0] == at_loop_entry(b[0]) and a[ncol] == at_loop_entry(a[ncol])"])
K.loop(4, var="k", invariant=["0 <= i and i < nval and 0 <= k and k <= i", W, "not isnan(uncertainty) and uncertainty >= 0"])
K.loop(5, var="j", invariant=["0 <= j and j <= ncol + 1",
                              "forall(q, 0 <= q <= ncol, not isnan(a[q]) and a[q] >= 0 and not isnan(b[q]) and b[q] >= 0)",
                              "forall(q, j <= q <= ncol, not isnan(g[q]) and g[q] == 0.0)",
                              "implies(j == 0, not isnan(o[0]) and o[0] >= 0 and o[0] <= 1 and implies(b[0] > 0, o[0] > 0))",
                              "implies(j <= ncol, not isnan(o[ncol]) and o[ncol] >= 0 and o[ncol] <= 1 and implies(a[ncol] > 0, o[ncol] < 1))",
                              "not isnan(crps_decompos[0]) and not isnan(crps_decompos[1]) and not isnan(crps_potential) and crps_decompos[0] == crps_decompos[1] + crps_potential",
                              "crps_decompos[1] >= 0 and crps_potential >= 0 and not isnan(uncertainty) and uncertainty >= 0"])

# ---- functional contract (C03): the uncertainty term is the CRPS of the observed climatology, i.e. the weighted sum over the pairs of
#      observations  sum_{k<i} w_i w_k |obs_k - obs_i|  ( = 1/2 E|Y - Y'| over the empirical distribution of the observations ), weighted or not
K = F.kernel("c_crps#uncertainty")
K.option(uf_mul=True)     # the products w_i*w_k*|.| are compared structurally with the ghost sum
K.requires("nval >= 1 and nval <= 2**15 and ncol >= 1 and ncol <= 2**15 and (use_weights == 0 or use_weights == 1)")
K.requires("valid(obs, nval) and valid(sim, nval*ncol) and valid(reliability_table, (ncol+1)*7) and valid(crps_decompos, 5)")
K.requires("implies(use_weights == 1, valid(weights_vector, nval) and forall(q, 0 <= q < nval, not isnan(weights_vector[q])))")
K.requires("separated(obs, sim, weights_vector, reliability_table, crps_decompos)")
K.requires("forall(q, 0 <= q < nval, not isnan(obs[q]))")
K.assigns("reliability_table[0:(ncol+1)*7]", "crps_decompos[0:5]")
K.ghost("wgt(q)", "real", "ite(use_weights == 1, weights_vector[q], 1.0/real(nval))")
K.ghost("uin(i, m)", "real", "ite(m <= 0, 0.0, uin(i, m - 1) + wgt(i)*wgt(m - 1)*abs(obs[m - 1] - obs[i]))", decreases="m")
K.ghost("uout(n)", "real", "ite(n <= 0, 0.0, uout(n - 1) + uin(n - 1, n - 1))", decreases="n")
K.ensures("implies(result == 0, not isnan(crps_decompos[3]) and crps_decompos[3] == uout(nval))", props=["C03"])
K.loop(0, var="j", invariant=["0 <= j and j <= ncol + 1 and not isnan(uncertainty) and uncertainty == 0.0"])
K.loop(1, var="i", invariant=["0 <= i and i <= nval", "not isnan(uncertainty) and uncertainty == uout(i)"])
K.loop(2, var="j", invariant=["0 <= i and i < nval and 0 <= j and j <= ncol"])
K.loop(3, var="j", invariant=["0 <= i and i < nval and 0 <= j and (j <= ncol - 1 or ncol < 1)"])
K.loop(4, var="k", invariant=["0 <= i and i < nval and 0 <= k and k <= i", "not isnan(weight) and weight == wgt(i)",
                              "not isnan(uncertainty) and uncertainty == uout(i) + uin(i, k)"])
K.loop(5, var="j", invariant=["0 <= j and j <= ncol + 1"])

# ====================================================================================== c_dscore.c (C05 safety; C10)
F = cfile("src/hydrodiy/stat/c_dscore.c")
K = F.kernel("c_ensrank")
K.requires("nval <= 2**15 and ncol <= 2**14 and nval >= -2**15 and ncol >= -2**14")
K.requires("implies(nval >= 1 and ncol >= 1, valid(sim, nval*ncol) and valid(fmat, nval*nval) and valid(ranks, nval))")
K.requires("separated(sim, fmat, ranks)")
K.assigns("fmat[0:nval*nval]", "ranks[0:nval]")
K.loop(0, var="j", invariant=["nval >= 1 and ncol >= 1 and 0 <= j and j <= ninit and (ninit == nval or ninit == 2*ncol) and ninit >= nval and ninit >= 2*ncol"])
K.loop(1, var="i1", invariant=["nval >= 1 and ncol >= 1 and 0 <= i1 and i1 <= nval"])
K.loop(2, var="i2", invariant=["nval >= 1 and ncol >= 1 and 0 <= i1 and i1 < nval and i1 + 1 <= i2 and i2 <= nval"])
K.loop(3, var="j", invariant=["nval >= 1 and ncol >= 1 and 0 <= i1 and i1 < i2 and i2 < nval and 0 <= j and j <= 2*ncol"])
K.loop(4, var="j", invariant=["nval >= 1 and ncol >= 1 and 0 <= i1 and i1 < i2 and i2 < nval and 0 <= j and j <= 2*ncol"])

# ====================================================================================== AnDarl.c, c_andersondarling.c (C05 safety; C10)
A = cfile("src/hydrodiy/stat/AnDarl.c")
K = A.kernel("adinf")
K = A.kernel("AD")
K = A.kernel("ADtest")
K.requires("n >= 0 and n <= 2**30 and valid(x, n) and valid(outputs, 2) and separated(x, outputs)")
K.assigns("outputs[0:2]")
# data outside [0, 1] (NaN included) are rejected
K.behavior("rejected", "exists(q, 0 <= q < n, isnan(x[q]) or x[q] < 0 or x[q] > 1)", "result > 0", props=["C10"])
# C10: on a sorted sample strictly inside (0, 1) the statistic is the textbook formula
#      A2 = -n - (1/n) sum_{i=1..n} (2i-1) ln( u_(i) (1 - u_(n+1-i)) )          (adsum is minus the sum, 0-based)
K.ghost("adsum(i)", "real", "ite(i <= 0, 0.0, adsum(i-1) - real(2*(i-1)+1)*log(x[i-1]*(1.0 - x[n-1-(i-1)])))", decreases="i")
AD_OK = "n >= 1 and forall(q, 0 <= q < n, not isnan(x[q]) and x[q] > 0 and x[q] < 1) and forall(q, 0 <= q < n - 1, x[q] <= x[q+1])"
K.behavior("accepted", AD_OK, "result == 0", props=["C10"])
K.behavior("statistic", AD_OK, "outputs[0] == -real(n) + adsum(n)/real(n)", props=["C10"])
# C10: the p-value lies in [0, 1]
K.ensures("implies(result == 0, isnan(outputs[1]) or (outputs[1] >= 0 and outputs[1] <= 1))", props=["C10"])
K.loop(0, var="i", invariant=["0 <= i and i <= n", "forall(q, 0 <= q < i, not isnan(x[q]) and x[q] >= 0 and x[q] <= 1)",
                              "implies(%s, not isnan(z) and z == adsum(i) and not isnan(prev) and (i == 0 or prev == x[i-1]) and (i > 0 or prev < 0))" % AD_OK])
F = cfile("src/hydrodiy/stat/c_andersondarling.c")
F.use(A)
K = F.kernel("c_ad_test")
K.requires("nval >= 0 and nval <= 2**30 and valid(unifdata, nval) and valid(outputs, 2) and separated(unifdata, outputs)")
K.assigns("unifdata[0:nval]", "outputs[0:2]")      # C18: the sample is sorted in place
# C10: whatever the order of the data: values outside [0, 1] or NaN anywhere in the sample are rejected, a sample strictly inside (0, 1) is accepted
K.behavior("rejected", "exists(q, 0 <= q < nval, isnan(old(unifdata[q])) or old(unifdata[q]) < 0 or old(unifdata[q]) > 1)", "result > 0", props=["C10"])
K.behavior("accepted", "nval >= 1 and forall(q, 0 <= q < nval, not isnan(old(unifdata[q])) and old(unifdata[q]) > 0 and old(unifdata[q]) < 1)", "result == 0", props=["C10"])
K.ensures("implies(result == 0, isnan(outputs[1]) or (outputs[1] >= 0 and outputs[1] <= 1))", props=["C10"])
