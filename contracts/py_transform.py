"""Contracts for the real src/hydrodiy/stat/transform.py (C01, C02), consumed by Engine P (vf/engp.py).

Per class: constructor variants, the domain of x (forward direction) and of y (backward direction) as predicates over the
symbolic parameters / constants.  Parameter bounds are NOT written here: they are read from the Vector the real constructor builds.
Domains come from the property text and from the code's own np.where guards."""
import z3
from vf.engp import rv, CTX

EPS = 1e-10


def _exp(t):
    return CTX.app('exp', t)


def _log(t):
    return CTX.app('log', t)


# each entry: ctor variants, dom_x(x, p, c, kw) -> list of z3 Bool, dom_y(y, p, c, kw) -> list
def logit_dx(x, p, c, kw):
    up = p['lower'] + _exp(p['logdelta'])
    return [x > p['lower'], x < up]


def boxcox_dy(y, p, c, kw, lam=None, nu=None):
    lam = p['lam'] if lam is None else lam
    # general branch: the base of the power must be positive; limit branch (|lam| <= EPS): every y
    return [z3.Or(z3.And(lam <= rv(EPS), lam >= rv(-EPS)), lam * y + 1 > 0)]


def recip_dx(x, p, c, kw):
    mininu = kw.get('mininu', EPS)
    return [x > -p['nu'], (x + p['nu']) * rv(mininu) < 1]


def logsinh_dx(x, p, c, kw):
    a = _exp(p['loga']); b = _exp(p['logb'])
    return [c['xmax'] > 0, x / c['xmax'] > -a / b + rv(EPS)]


def yj_dy(y, p, c, kw):
    # range of forward: the base of each power must be positive (the logarithmic limit branches accept every y)
    lam = p['lam']
    near0 = z3.And(lam <= rv(1e-8), lam >= rv(-1e-8)); near2 = z3.And(lam - 2 <= rv(1e-8 + 2e-5), lam - 2 >= rv(-(1e-8 + 2e-5)))
    return [z3.Or(y < rv(EPS), near0, lam * y + 1 > 0), z3.Or(y >= rv(EPS), near2, -(2 - lam) * y + 1 > 0)]


def manly_dy(y, p, c, kw):
    return [c['xmax'] > 0, z3.Or(z3.And(p['lam'] <= rv(EPS), p['lam'] >= rv(-EPS)), 1 + p['lam'] * y > 0)]


CLASSES = [
    dict(name='Identity', variants=[{}], dom_x=lambda x, p, c, kw: [], dom_y=lambda y, p, c, kw: []),
    dict(name='Logit', variants=[{}], dom_x=logit_dx, dom_y=lambda y, p, c, kw: []),
    dict(name='Log', variants=[{}, {'mininu': 0.5}, {'base': 10.0}, {'base': 2.0, 'mininu': 1e-3}, {'base': 0.5}],
         dom_x=lambda x, p, c, kw: [x + p['nu'] > 0], dom_y=lambda y, p, c, kw: []),
    dict(name='BoxCox2', variants=[{}, {'mininu': 0.1, 'minilam': -1.0}],
         dom_x=lambda x, p, c, kw: [x + p['nu'] > 0], dom_y=boxcox_dy),
    dict(name='BoxCox1lam', variants=[{}, {'mininu': 0.1, 'minilam': -1.0}],
         dom_x=lambda x, p, c, kw: [x + c['nu'] > 0], dom_y=lambda y, p, c, kw: boxcox_dy(y, p, c, kw, lam=p['lam'])),
    dict(name='BoxCox1nu', variants=[{}, {'mininu': 0.1, 'minilam': -1.0}],
         dom_x=lambda x, p, c, kw: [x + p['nu'] > 0], dom_y=lambda y, p, c, kw: boxcox_dy(y, p, c, kw, lam=c['lam'])),
    dict(name='BoxCox2sym', variants=[{}], dom_x=lambda x, p, c, kw: [], dom_y=lambda y, p, c, kw: []),
    dict(name='YeoJohnson', variants=[{}], dom_x=lambda x, p, c, kw: [], dom_y=yj_dy, junction=True),
    dict(name='Reciprocal', variants=[{}, {'mininu': 0.01}], dom_x=recip_dx,
         dom_y=lambda y, p, c, kw: [y < -rv(kw.get('mininu', EPS))]),
    dict(name='Sinh', variants=[{}], dom_x=lambda x, p, c, kw: [], dom_y=lambda y, p, c, kw: []),
    # LogSinh: the round-trip identity needs the addition law of exp and log of products on terms with symbolic scale factors
    # (exp(loga), exp(logb)); the VC was not discharged within the time-box, so the clause is DEMOTED to the bounded float grid
    # (fall-back rule of DESIGN.md section 11): bounded_only
    dict(name='LogSinh', variants=[{}], dom_x=logsinh_dx, dom_y=lambda y, p, c, kw: [c['xmax'] > 0], bounded_only=True),
    dict(name='Manly', variants=[{}], dom_x=lambda x, p, c, kw: [c['xmax'] > 0], dom_y=manly_dy),
]
# Softmax works on rows: handled separately (row lengths 1..4)
