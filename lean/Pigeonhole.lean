/-
Lemma used (as an assumption named "Pigeonhole") by the contract of `c_intersect` (contracts/c_grid.py, inner search loop):
j pairwise distinct cells of a grid with N cells, all different from one more cell of the grid, are fewer than N.
Cells are natural numbers below N (the contract states `valid_cell`, i.e. 0 <= cell < nrows*ncols).
Checked with `lean lean/Pigeonhole.lean` (Lean 4.33 + Mathlib) in the thorough tier of C16.
-/
import Mathlib

theorem pigeonhole (N j : ℕ) (f : ℕ → ℕ) (c : ℕ) (hc : c < N)
    (hf : ∀ q, q < j → f q < N ∧ f q ≠ c)
    (hinj : ∀ k1 k2, k1 < k2 → k2 < j → f k1 ≠ f k2) : j < N := by
  have hinj' : Set.InjOn f (Finset.range j : Set ℕ) := by
    intro a ha b hb hab
    simp only [Finset.coe_range, Set.mem_Iio] at ha hb
    rcases lt_trichotomy a b with h | h | h
    · exact absurd hab (hinj a b h hb)
    · exact h
    · exact absurd hab.symm (hinj b a h ha)
  have hcard : ((Finset.range j).image f).card = j := by
    rw [Finset.card_image_of_injOn hinj', Finset.card_range]
  have hsub : (Finset.range j).image f ⊆ (Finset.range N).erase c := by
    intro x hx
    simp only [Finset.mem_image, Finset.mem_range] at hx
    obtain ⟨q, hq, rfl⟩ := hx
    simp only [Finset.mem_erase, Finset.mem_range]
    exact ⟨(hf q hq).2, (hf q hq).1⟩
  have hle := Finset.card_le_card hsub
  rw [hcard, Finset.card_erase_of_mem (Finset.mem_range.mpr hc), Finset.card_range] at hle
  omega

/-- the same statement over integers, as the contract states it (cells are `long long`) -/
theorem pigeonhole_int (N : ℤ) (j : ℕ) (f : ℕ → ℤ) (c : ℤ) (hc : 0 ≤ c ∧ c < N)
    (hf : ∀ q, q < j → 0 ≤ f q ∧ f q < N ∧ f q ≠ c)
    (hinj : ∀ k1 k2, k1 < k2 → k2 < j → f k1 ≠ f k2) : (j : ℤ) < N := by
  have hN : 0 ≤ N := by omega
  have h := pigeonhole N.toNat j (fun q => (f q).toNat) c.toNat (by omega)
    (by
      intro q hq
      have := hf q hq
      constructor
      · show (f q).toNat < N.toNat
        omega
      · show (f q).toNat ≠ c.toNat
        omega)
    (by
      intro k1 k2 h12 h2
      have h1 := hf k1 (by omega)
      have h2' := hf k2 h2
      have := hinj k1 k2 h12 h2
      show (f k1).toNat ≠ (f k2).toNat
      omega)
  omega
