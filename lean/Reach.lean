/-
Meta-step of C06 (catchment area == upstream reachability).  The contract `c_delineate_area#reach` (contracts/c_catchment.py)
proves, for every input, two facts about the vector of listed cells `a 0 .. a (n-1)` that the kernel returns:

  SOUND   every listed cell is the outlet, or a grid cell that is not an inlet and whose downstream cell is the outlet or is
          listed EARLIER;
  CLOSED  every grid cell that is not an inlet and whose downstream cell is the outlet or is listed, is listed.

This file proves that the two together say: a cell other than the outlet is listed exactly when its downstream chain reaches
the outlet through cells that are not inlets (`Reach`, the least such relation).  Checked with `lean lean/Reach.lean`
(Lean 4.33 + Mathlib) in the thorough tier of C06.
-/
import Mathlib

/-- `Reach valid inl dn out c`: c is a grid cell, not an inlet, and its downstream cell is the outlet or again such a cell -/
inductive Reach (valid : ℤ → Prop) (inl : ℤ → Prop) (dn : ℤ → ℤ) (out : ℤ) : ℤ → Prop
  | base (c : ℤ) : valid c → ¬ inl c → dn c = out → Reach valid inl dn out c
  | step (c : ℤ) : valid c → ¬ inl c → Reach valid inl dn out (dn c) → Reach valid inl dn out c

theorem listed_iff_reach (valid : ℤ → Prop) (inl : ℤ → Prop) (dn : ℤ → ℤ) (out : ℤ) (n : ℕ) (a : ℕ → ℤ)
    (hvalid : ∀ c, valid c → 0 ≤ c) (hout : valid out)
    (sound : ∀ q, q < n → a q = out ∨ (valid (a q) ∧ ¬ inl (a q) ∧ (dn (a q) = out ∨ ∃ p, p < q ∧ a p = dn (a q))))
    (closed : ∀ c, valid c → ¬ inl c → 0 ≤ dn c → (dn c = out ∨ ∃ p, p < n ∧ a p = dn c) → ∃ q, q < n ∧ a q = c)
    (c : ℤ) (hc : c ≠ out) :
    (∃ q, q < n ∧ a q = c) ↔ Reach valid inl dn out c := by
  constructor
  · -- listed -> reaches the outlet: strong induction on the position
    rintro ⟨q, hq, rfl⟩
    induction q using Nat.strong_induction_on with
    | _ q ih =>
      rcases sound q hq with h | ⟨hv, hi, hd⟩
      · exact absurd h hc
      · rcases hd with hd | ⟨p, hp, hpe⟩
        · exact Reach.base _ hv hi hd
        · by_cases hpo : a p = out
          · exact Reach.base _ hv hi (by rw [← hpe]; exact hpo)
          · have := ih p hp (lt_trans hp hq) hpo
            exact Reach.step _ hv hi (by rw [← hpe]; exact this)
  · -- reaches the outlet -> listed: induction on the derivation
    intro h
    induction h with
    | base c hv hi hd =>
      exact closed c hv hi (by rw [hd]; exact hvalid out hout) (Or.inl hd)
    | step c hv hi hr ih =>
      by_cases hdo : dn c = out
      · exact closed c hv hi (by rw [hdo]; exact hvalid out hout) (Or.inl hdo)
      · obtain ⟨p, hp, hpe⟩ := ih hdo
        have hdv : 0 ≤ dn c := by
          cases hr with
          | base _ hv' _ _ => exact hvalid _ hv'
          | step _ hv' _ _ => exact hvalid _ hv'
        exact closed c hv hi hdv (Or.inr ⟨p, hp, hpe⟩)
