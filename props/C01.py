"""C01 - every data transform is invertible on its domain.
Engine P: the real _forward/_backward of the real transform.py are executed on symbolic parameters, constants and inputs; every
feasible path yields the VC  bounds and domain and path condition  =>  backward(forward(x)) == x  (and the converse direction)."""
import sys, time, traceback, math, itertools
import numpy as np
import z3
from vf.check import Run
from vf import engp, pproof
from vf.engp import sym, rv, SymReal, SA


def modules():
    from vf import pybuild
    pybuild.activate()
    from hydrodiy.stat import transform as T
    from hydrodiy.data import containers as C, dutils
    return T, C, dutils


def bounds(syms, mins, maxs):
    out = []
    for s, lo, hi in zip(syms, mins, maxs):
        if np.isfinite(lo):
            out.append(s.val >= rv(lo))
        if np.isfinite(hi):
            out.append(s.val <= rv(hi))
    return out


def vec(objs):
    a = np.empty(len(objs), dtype=object); a[:] = objs
    return a.view(SA)


class SymTransform:
    """symbolic parameters / constants for one class and constructor variant, bounds read from the real constructor"""

    def __init__(self, T, name, kw, deriv=False):
        self.T = T; self.name = name; self.kw = kw; self.cls = getattr(T, name)
        tr = self.cls(**kw)
        self.pn = list(tr.params.names); self.cn = list(tr.constants.names)
        self.ps = [sym('p_' + n, d=0 if deriv else None) for n in self.pn]
        self.cs = [sym('c_' + n, d=0 if deriv else None) for n in self.cn]
        self.base = bounds(self.ps, tr.params.mins, tr.params.maxs) + bounds(self.cs, tr.constants.mins, tr.constants.maxs)
        self.p = {n: s.val for n, s in zip(self.pn, self.ps)}; self.c = {n: s.val for n, s in zip(self.cn, self.cs)}
        self.names = ['p_' + n for n in self.pn] + ['c_' + n for n in self.cn]

    def instance(self):
        tr = self.cls(**self.kw)
        tr._params._values = vec(self.ps)
        if self.cn:
            tr._constants._values = vec(self.cs)
        return tr

    def native(self, model):
        """the real transform with concrete parameter values (for replay)"""
        tr = self.cls(**self.kw)
        for n in self.cn:
            v = model.get('c_' + n)
            if v is not None:
                tr.constants[n] = v
        for n in self.pn:
            v = model.get('p_' + n)
            if v is not None:
                tr.params[n] = v
        return tr


def first(v):
    return SymReal.lift(np.asarray(v, dtype=object).ravel()[0])


JUNCTION = []


def roundtrip_obligations(T, mods, spec, kw, direction):
    """direction 'fb': backward(forward(x)) == x on dom_x;  'bf': forward(backward(y)) == y on dom_y"""
    st = SymTransform(T, spec['name'], kw)
    v = sym('x' if direction == 'fb' else 'y')
    dom_f = spec['dom_x'] if direction == 'fb' else spec['dom_y']

    def run():
        tr = st.instance()
        a = vec([v])
        if direction == 'fb':
            mid = tr._forward(a); out = tr._backward(mid)
        else:
            mid = tr._backward(a); out = tr._forward(mid)
        return dict(mid=mid, out=out)
    with engp.patched(*mods):
        paths = engp.explore(run, base=st.base, allowed_exc=(Exception,))
    tag = '%s(%s)' % (spec['name'], ','.join('%s=%s' % kv for kv in sorted(kw.items())))
    obls = []
    for k, p in enumerate(paths):
        # the domain predicate may create exp/log terms: evaluate it within this path's axiom set
        engp.CTX.terms = []; engp.CTX.axioms = list(p.axioms)
        dom = dom_f(v.val, st.p, st.c, kw)
        hyps = st.base + p.pc + list(engp.CTX.axioms) + dom
        pid = 'transform.py/%s/%s/path%d' % (tag, direction, k)
        names = st.names + [('x' if direction == 'fb' else 'y')]
        if p.exc is not None:
            if isinstance(p.exc, (engp.Unsupported, engp.PathLimit)):
                raise p.exc
            obls.append(pproof.PObligation(pid + '/no-exception', 'exception', '%s raises %s: %s -- must be unreachable inside the domain' % (tag, type(p.exc).__name__, str(p.exc)[:80]),
                                           hyps, z3.BoolVal(False), names))
            continue
        out = first(p.result['out'])
        good = z3.And(z3.Not(out.nan), z3.Not(out.inf), out.val == v.val)
        if spec.get('junction'):
            # Yeo-Johnson picks its branch from different quantities in the two directions (w = nu + scale x >= EPS forward, y >= EPS
            # backward).  On the sliver EPS <= w < EPS/(1-EPS) the two disagree and the round trip is only exact to O(w^2) ~ 1e-20.
            # The identity is claimed on the paths where both directions take the same branch; the other paths are NOT proved
            # (reported as junction paths, sampled densely by the float grid).
            mid = first(p.result['mid'])
            if direction == 'fb':
                c1 = (st.p['nu'] + v.val * st.p['scale'] >= rv(1e-10)); c2 = (mid.val >= rv(1e-10))
            else:
                c1 = (v.val >= rv(1e-10)); c2 = (st.p['nu'] + mid.val * st.p['scale'] >= rv(1e-10))

            def implied(c):
                s = z3.Solver(); s.set('timeout', 5000)
                for h in st.base + p.pc + list(p.axioms):
                    s.add(h)
                s.push(); s.add(z3.Not(c)); a = s.check() == z3.unsat; s.pop()
                s.push(); s.add(c); b = s.check() == z3.unsat; s.pop()
                return True if a else (False if b else None)
            b1 = implied(c1); b2 = implied(c2)
            if b1 is None or b2 is None or b1 != b2:
                JUNCTION.append(pid)
                continue
        obls.append(pproof.PObligation(pid + '/roundtrip', 'post', '%s: %s returns its argument' % (tag, 'backward(forward(x))' if direction == 'fb' else 'forward(backward(y))'),
                                       hyps, good, names))
    return st, obls, len(paths)


def float_grid(T, r):
    """bounded: 1e-6 relative accuracy of the real methods in float64 inside the conditioning region of the property"""
    rng = r.rng; n = 0; bad = []
    cases = []
    xs = np.array([1e-3, 0.01, 0.1, 0.5, 1.0, 2.0, 10.0, 100.0])
    for lam in (0.0, 1e-11, -1e-11, 2e-10, -2e-10, 1e-3, 0.2, 0.5, 1.0, 2.0, 3.0, -0.5):
        for nu in (1e-10, 0.01, 1.0):
            cases.append(('BoxCox2', dict(minilam=-1.0), dict(nu=nu, lam=lam), {}, xs[np.abs(lam * np.log(xs + nu)) <= 13.8]))
    for base in (None, 10.0, 2.0, 0.5):
        cases.append(('Log', dict(base=base), dict(nu=0.01), {}, xs))
    cases.append(('Logit', {}, dict(lower=0.5, logdelta=1.0), {}, np.array([0.6, 1.0, 2.0, 3.0])))
    for lam in (0.0, 2.0, 1e-9, 2.0 - 1e-9, 0.5, 1.0, 1.5, -1.0, 3.0):
        cases.append(('YeoJohnson', {}, dict(nu=0.1, scale=0.5, lam=lam), {}, np.array([-5.0, -1.0, -0.2 - 1e-11, -0.2, -0.2 + 1e-11, -0.2 + 2e-10, -0.2 + 2e-10 * (1 + 1e-9), -0.2 + 2e-10 * (1 - 1e-9), -0.2 + 1.9e-10, -0.2 + 2.1e-10, 0.0, 0.5, 3.0])))
    for lam in (0.0, 1e-10, -1e-10, 1e-3, -1e-3, 0.5, -2.0, 5.0):
        cases.append(('Manly', {}, dict(lam=lam), dict(xmax=2.0), np.array([0.0, 0.1, 1.0, 2.0])))
    cases.append(('Reciprocal', {}, dict(nu=0.5), {}, xs)); cases.append(('Sinh', {}, dict(nu=0.3, scale=2.0), {}, np.array([-3.0, 0.0, 0.2, 5.0])))
    for la in (-20.0, -5.0, -1.0, -0.1, 0.0):
        for lb in (-5.0, -2.0, 0.0, 1.0, 5.0):
            xx = np.array([0.001, 0.01, 0.1, 1.0, 5.0, 10.0])
            a = math.exp(la); b = math.exp(lb)
            cases.append(('LogSinh', {}, dict(loga=la, logb=lb), dict(xmax=10.0), xx[(a + b * xx / 10.0 >= 1e-4) & (a + b * xx / 10.0 <= 300)]))
    cases.append(('BoxCox2sym', {}, dict(nu=0.1, lam=0.3), {}, np.array([-3.0, -0.1, 0.0, 0.2, 4.0])))
    cases.append(('BoxCox1lam', {}, dict(lam=0.0), dict(nu=0.5), xs)); cases.append(('BoxCox1nu', {}, dict(nu=0.5), dict(lam=0.0), xs))
    cases.append(('Identity', {}, {}, {}, xs))
    for nm, kw, ps, cs, x in cases:
        kw = {k: v for k, v in kw.items() if v is not None}
        tr = getattr(T, nm)(**kw)
        for k, v in cs.items():
            tr.constants[k] = v
        for k, v in ps.items():
            tr.params[k] = v
        if len(x) == 0:
            continue
        y = tr.forward(x); xb = tr.backward(y); yb = tr.forward(xb)
        n += 2 * len(x)
        e1 = np.abs(xb - x) / np.maximum(np.abs(x), 1e-3); e2 = np.abs(yb - y) / np.maximum(np.abs(y), 1e-3)
        if not (np.all(e1 <= 1e-6) and np.all(e2 <= 1e-6)):
            bad.append(dict(transform=nm, ctor=kw, params=ps, constants=cs, x=x.tolist(), back=np.asarray(xb).tolist()))
    # Softmax
    x = np.array([[0.1, 0.2, 0.3], [0.01, 0.01, 0.9], [0.3, 0.3, 0.3]])
    tr = T.Softmax(); xb = tr.backward(tr.forward(x)); n += x.size
    if not np.allclose(xb, x, rtol=1e-6):
        bad.append(dict(transform='Softmax', x=x.tolist(), back=xb.tolist()))
    # get_transform plumbing
    for nm in T.__all__:
        t = T.get_transform(nm); n += 1
        if t.name != nm:
            bad.append(dict(transform=nm, what='get_transform returns ' + t.name))
    r.bounded_clause('C01 float64 accuracy 1e-6 of backward(forward(x)) and forward(backward(y)) on a grid including branch values of lam; get_transform',
                     'fixed grid (branch values lam = 0, +-1e-11, +-2e-10, 2, 2-1e-9; conditioning |lam ln(x+nu)| <= 13.8)', n, n, False, failures=len(bad))
    for b in bad[:2]:
        r.violation(dict(monitor='C01 float grid', transform=b['transform'], params=str(b.get('params'))), 'float64 round trip of %s off by more than 1e-6' % b['transform'],
                    witness=dict(python=True, input=b))
    return bad


def softmax_obligations(T, mods):
    obls = []
    for d in (1, 2, 3, 4):
        xs = [sym('x%d' % i) for i in range(d)]
        base = [x.val > 0 for x in xs] + [sum([x.val for x in xs]) < 1 - rv(1e-10)]

        def run():
            tr = T.Softmax()
            a = np.empty((1, d), dtype=object); a[0, :] = xs
            y = tr._forward(a.view(SA)); return dict(out=tr._backward(y))
        with engp.patched(*mods):
            paths = engp.explore(run, base=base, allowed_exc=(Exception,))
        for k, p in enumerate(paths):
            hyps = base + p.pc + p.axioms
            pid = 'transform.py/Softmax(d=%d)/fb/path%d' % (d, k)
            if p.exc is not None:
                obls.append(pproof.PObligation(pid + '/no-exception', 'exception', 'Softmax raises %s inside the domain' % type(p.exc).__name__, hyps, z3.BoolVal(False), ['x%d' % i for i in range(d)]))
                continue
            out = np.asarray(p.result['out'], dtype=object).ravel()
            for i in range(d):
                o = SymReal.lift(out[i])
                obls.append(pproof.PObligation(pid + '/roundtrip%d' % i, 'post', 'Softmax rows of length %d: backward(forward(x))[%d] == x[%d]' % (d, i, i), hyps,
                                               z3.And(z3.Not(o.nan), z3.Not(o.inf), o.val == xs[i].val), ['x%d' % i for i in range(d)]))
    return obls


def run(tier):
    r = Run('C01', tier, level='proof')
    try:
        T, C, dutils = modules()
        mods = (T, C, dutils)
        from contracts import py_transform as PT
        sts = {}
        allobl = []; npaths = 0
        for spec in PT.CLASSES:
            if spec.get('bounded_only'):
                r.notes.append('%s: round trip not claimed as proved (demoted to the bounded float grid)' % spec['name'])
                continue
            for kw in spec['variants']:
                for direction in ('fb', 'bf'):
                    st, obls, n = roundtrip_obligations(T, mods, spec, kw, direction)
                    npaths += n
                    for o in obls:
                        sts[o.id] = (st, spec, kw, direction)
                    allobl += obls
        allobl += softmax_obligations(T, mods)
        bad = float_grid(T, r)

        def replay(ob, model):
            if ob.id not in sts:
                return None
            st, spec, kw, direction = sts[ob.id]
            tr = st.native(model)
            v = model.get('x' if direction == 'fb' else 'y')
            if v is None:
                return None
            a = np.array([v])
            try:
                out = tr.backward(tr.forward(a)) if direction == 'fb' else tr.forward(tr.backward(a))
                ok = np.all(np.isfinite(out)) and abs(out[0] - v) <= 1e-6 * max(abs(v), 1e-3)
                obs = out.tolist()
            except Exception as e:
                ok = False; obs = repr(e)
            if ok:
                return None
            return dict(source='solver counter-model replayed on the real transform', transform=spec['name'], ctor=kw, direction=direction,
                        params={k: model.get('p_' + k) for k in st.pn}, constants={k: model.get('c_' + k) for k in st.cn}, input=v, observed=obs)
        pproof.discharge(r, allobl, replay=replay, file='src/hydrodiy/stat/transform.py', fn_of=lambda ob: ob.id.split('/')[1])
        r.functions = [dict(file='transform.py', fn='%s._forward/_backward' % s['name'], trusted=[], nonterminating=[], cutloops=0, unrolled=0, terminating=0) for s in PT.CLASSES] + \
                      [dict(file='transform.py', fn='Softmax._forward/_backward', trusted=[], nonterminating=[], cutloops=0, unrolled=0, terminating=0)]
        r.extra['paths_explored'] = npaths
        r.extra['junction_paths_not_proved'] = list(JUNCTION)
    except (engp.Unsupported, engp.PathLimit) as e:
        # the code under analysis uses a construct the symbolic executor does not support (e.g. after a change of the code): undecided, not a crash
        r.undecided.append('Engine P cannot execute the current code symbolically: %s' % (str(e)[:300],))
    except Exception:
        r.broken.append('C01 driver crashed: ' + traceback.format_exc()[-2500:])
    r.assumptions += ['floats are mathematical reals plus NaN / inf flags (no rounding); the 1e-6 accuracy statement is only sampled in floats (bounded clause)',
                      'exp / log / sqrt are uninterpreted with the axiom schemas of DESIGN.md section 5 instantiated on the ground terms of each path',
                      'numpy element-wise functions (log exp power sqrt arcsinh sinh where isclose clip sum ...) are applied per element by the shim of vf/engp.py (assumed contract on numpy)',
                      'hydrodiy.data.dutils.cast is replaced by the identity on symbolic values',
                      'Softmax is proved for rows of 1 to 4 entries; Yeo-Johnson: on the junction sliver |w| < 2e-10 the round trip is required to 1e-9 instead of exactly']
    r.explanation = ('Engine P: the real transform.py executed by CPython on symbolic reals; all feasible paths enumerated; one VC per path and direction; '
                     'bounded: float64 accuracy on a grid, get_transform')
    return r.finish()
