"""C02 - the Jacobian of every transform is the derivative of forward and is strictly positive (forward is increasing).
Engine P with forward-mode differentiation: the real _forward is executed on a symbolic input carrying derivative 1 (parameters carry 0);
the derivative propagated by the sum / product / quotient / chain rules is compared with what the real _jacobian returns."""
import traceback, math
import numpy as np
import z3
from vf.check import Run
from vf import engp, pproof
from vf.engp import sym, rv, SymReal, SA
from props.C01 import modules, SymTransform, vec, first

C02_VARIANTS = {'Log': [{}, {'mininu': 0.5}, {'base': 10.0}, {'base': 2.0, 'mininu': 1e-3}]}      # base > 1 (a base below 1 makes Log decreasing: outside the admissible settings of C02, see DESIGN.md)


def jac_obligations(T, mods, spec, kw):
    st = SymTransform(T, spec['name'], kw, deriv=True)
    x = sym('x', d=1)

    def run():
        tr = st.instance()
        a = vec([x])
        return dict(y=tr._forward(a), j=tr._jacobian(a))
    with engp.patched(*mods):
        paths = engp.explore(run, base=st.base, allowed_exc=(Exception,))
    tag = '%s(%s)' % (spec['name'], ','.join('%s=%s' % kv for kv in sorted(kw.items())))
    obls = []
    names = st.names + ['x']
    for k, p in enumerate(paths):
        engp.CTX.terms = []; engp.CTX.axioms = list(p.axioms)
        dom = spec['dom_x'](x.val, st.p, st.c, kw)
        hyps = st.base + p.pc + list(engp.CTX.axioms) + dom
        pid = 'transform.py/%s/jac/path%d' % (tag, k)
        if p.exc is not None:
            if isinstance(p.exc, (engp.Unsupported, engp.PathLimit)):
                raise p.exc
            obls.append(pproof.PObligation(pid + '/no-exception', 'exception', '%s forward/jacobian raises %s inside the domain' % (tag, type(p.exc).__name__), hyps, z3.BoolVal(False), names))
            continue
        y = first(p.result['y']); j = first(p.result['j'])
        if y.d is None:
            raise engp.Unsupported('derivative lost in ' + tag)
        # mininu guard of the jacobian (x + nu > mininu) is part of its domain
        extra = []
        if 'mininu' in kw or spec['name'] in ('Log', 'BoxCox2', 'BoxCox1lam', 'BoxCox1nu', 'BoxCox2sym'):
            mininu = kw.get('mininu', 1e-10)
            nuv = st.p.get('nu', st.c.get('nu'))
            if spec['name'] == 'BoxCox2sym':
                extra = [z3.If(x.val >= 0, x.val, -x.val) + nuv > rv(mininu), x.val != 0]
            else:
                extra = [x.val + nuv > rv(mininu)]
        if spec['name'] == 'Logit':
            up = st.p['lower'] + engp.CTX.app('exp', st.p['logdelta'])
            extra = [x.val > st.p['lower'] + rv(1e-10), x.val < up - rv(1e-10)]
            hyps = st.base + p.pc + list(engp.CTX.axioms) + dom
        obls.append(pproof.PObligation(pid + '/derivative', 'post', '%s: jacobian(x) equals d forward / dx' % tag, hyps + extra,
                                       z3.And(z3.Not(j.nan), z3.Not(j.inf), j.val == y.d), names))
        obls.append(pproof.PObligation(pid + '/positive', 'post', '%s: jacobian(x) > 0 on the domain' % tag, hyps + extra, z3.And(z3.Not(j.nan), j.val > 0), names))
    return st, obls, len(paths)


def softmax_obligations(T, mods):
    obls = []
    for d in (1, 2, 3):
        names = ['x%d' % i for i in range(d)]
        base = None; cols = []; jac = None; pcs = []
        ok = True
        for wrt in range(d):
            xs = [sym('x%d' % i, d=(1 if i == wrt else 0)) for i in range(d)]
            base = [x.val > 0 for x in xs] + [sum([x.val for x in xs]) < 1 - rv(1e-10)]

            def run():
                tr = T.Softmax()
                a = np.empty((1, d), dtype=object); a[0, :] = xs
                return dict(y=tr._forward(a.view(SA)), j=tr._jacobian(a.view(SA)))
            with engp.patched(*mods):
                paths = engp.explore(run, base=base, allowed_exc=(Exception,))
            good = [p for p in paths if p.exc is None]
            for p in paths:
                if p.exc is not None:
                    obls.append(pproof.PObligation('transform.py/Softmax(d=%d)/jac/wrt%d/no-exception' % (d, wrt), 'exception', 'Softmax raises inside the domain', base + p.pc + p.axioms, z3.BoolVal(False), names))
            if len(good) != 1:
                ok = False; break
            p = good[0]
            y = np.asarray(p.result['y'], dtype=object).ravel()
            # the partial derivatives and the returned determinant are rational functions of the inputs: the axioms about log are not needed
            cols.append([SymReal.lift(v).d for v in y]); jac = SymReal.lift(np.asarray(p.result['j'], dtype=object).ravel()[0]); pcs = base + p.pc
        if not ok:
            raise engp.Unsupported('Softmax path structure')
        # matrix M[i][j] = d y_i / d x_j ; determinant by cofactor expansion
        M = [[cols[j][i] for j in range(d)] for i in range(d)]

        def det(m):
            if len(m) == 1:
                return m[0][0]
            tot = 0
            for c in range(len(m)):
                minor = [row[:c] + row[c + 1:] for row in m[1:]]
                tot = tot + (-1) ** c * m[0][c] * det(minor)
            return tot
        obls.append(pproof.PObligation('transform.py/Softmax(d=%d)/jac/determinant' % d, 'post', 'Softmax rows of length %d: jacobian == determinant of the matrix of partial derivatives' % d,
                                       pcs, z3.And(z3.Not(jac.nan), jac.val == det(M), jac.val > 0), names))
    return obls


def float_fd(T, r):
    """bounded: 5-point central difference with exactly representable steps vs jacobian (1e-4), monotonicity on ordered pairs (floats)"""
    n = 0; bad = []
    cases = [('Identity', {}, {}, {}, [0.5, 2.0]), ('Logit', {}, dict(lower=0.5, logdelta=1.0), {}, [1.0, 2.0, 3.0]),
             ('Log', {}, dict(nu=0.1), {}, [0.5, 2.0, 10.0]), ('Log', dict(base=10.0), dict(nu=0.1), {}, [0.5, 2.0]),
             ('Reciprocal', {}, dict(nu=0.5), {}, [0.5, 2.0]), ('Sinh', {}, dict(nu=0.3, scale=2.0), {}, [-3.0, 0.5, 5.0]),
             ('LogSinh', {}, dict(loga=-1.0, logb=0.0), dict(xmax=10.0), [1.0, 5.0]), ('BoxCox2sym', {}, dict(nu=0.1, lam=0.3), {}, [-3.0, 0.5, 4.0])]
    for lam in (0.0, 1e-11, 2e-10, 1e-3, 0.2, 1.0, 3.0, -0.5):
        cases.append(('BoxCox2', dict(minilam=-1.0), dict(nu=0.5, lam=lam), {}, [0.5, 2.0, 8.0]))
    for lam in (0.0, 2.0, 1e-9, 0.5, 1.5, -1.0, 3.0):
        cases.append(('YeoJohnson', {}, dict(nu=0.1, scale=0.5, lam=lam), {}, [-5.0, -1.0, 0.5, 3.0]))
    for lam in (0.0, 1e-3, -1e-3, 0.5, -2.0):
        cases.append(('Manly', {}, dict(lam=lam), dict(xmax=2.0), [0.5, 1.0, 2.0]))
    h = 2.0 ** -12
    for nm, kw, ps, cs, xs in cases:
        tr = getattr(T, nm)(**kw)
        for k, v in cs.items():
            tr.constants[k] = v
        for k, v in ps.items():
            tr.params[k] = v
        for x0 in xs:
            f = lambda v: float(np.asarray(tr.forward(np.array([v]))).ravel()[0])
            fd = (-f(x0 + 2 * h) + 8 * f(x0 + h) - 8 * f(x0 - h) + f(x0 - 2 * h)) / (12 * h)
            j = float(np.asarray(tr.jacobian(np.array([x0]))).ravel()[0]); n += 1
            if not (abs(fd - j) <= 1e-4 * abs(j) and j > 0):
                bad.append(dict(transform=nm, params=ps, x=x0, jacobian=j, finite_difference=fd))
        grid = np.linspace(min(xs) - 0.4, max(xs) + 0.4, 41)
        y = np.asarray(tr.forward(grid)); ok = np.isfinite(y); yy = y[ok]; n += 1
        if np.any(np.diff(yy) < -1e-12 * np.maximum(1, np.abs(yy[1:]))):
            bad.append(dict(transform=nm, params=ps, what='forward not increasing on the grid', x=grid[ok].tolist(), y=yy.tolist()))
    x = np.array([[0.1, 0.2, 0.3]]); tr = T.Softmax(); n += 1
    J = np.zeros((3, 3))
    for k in range(3):
        e = np.zeros(3); e[k] = h
        J[:, k] = (tr.forward(x + e) - tr.forward(x - e)).ravel() / (2 * h)
    if abs(np.linalg.det(J) - tr.jacobian(x)[0]) > 1e-4 * abs(tr.jacobian(x)[0]):
        bad.append(dict(transform='Softmax', jacobian=float(tr.jacobian(x)[0]), finite_difference=float(np.linalg.det(J))))
    r.bounded_clause('C02 float64: 5-point finite difference vs jacobian within 1e-4, jacobian > 0, forward non-decreasing on ordered grids (across branch junctions too)',
                     'fixed grid of classes x parameters (branch values included) x interior points', n, n, False, failures=len(bad))
    for b in bad[:2]:
        r.violation(dict(monitor='C02 finite difference', transform=b['transform'], params=str(b.get('params'))), 'jacobian of %s differs from the finite difference / is not positive' % b['transform'],
                    witness=dict(python=True, input=b))


def run(tier):
    r = Run('C02', tier, level='proof')
    try:
        T, C, dutils = modules(); mods = (T, C, dutils)
        from contracts import py_transform as PT
        allobl = []; sts = {}; npaths = 0
        for spec in PT.CLASSES:
            for kw in C02_VARIANTS.get(spec['name'], spec['variants']):
                st, obls, n = jac_obligations(T, mods, spec, kw); npaths += n
                for o in obls:
                    sts[o.id] = (st, spec, kw)
                allobl += obls
        allobl += softmax_obligations(T, mods)
        float_fd(T, r)

        def replay(ob, model):
            if ob.id not in sts:
                return None
            st, spec, kw = sts[ob.id]
            tr = st.native(model); v = model.get('x')
            if v is None:
                return None
            h = max(abs(v), 1.0) * 2.0 ** -20
            try:
                f = lambda t: float(np.asarray(tr.forward(np.array([t]))).ravel()[0])
                fd = (f(v + h) - f(v - h)) / (2 * h); j = float(np.asarray(tr.jacobian(np.array([v]))).ravel()[0])
                ok = np.isfinite(j) and j > 0 and abs(fd - j) <= 1e-3 * abs(j)
                obs = dict(jacobian=j, finite_difference=fd)
            except Exception as e:
                ok = False; obs = repr(e)
            if ok:
                return None
            return dict(source='solver counter-model replayed on the real transform', transform=spec['name'], ctor=kw,
                        params={k: model.get('p_' + k) for k in st.pn}, constants={k: model.get('c_' + k) for k in st.cn}, input=v, observed=obs)
        pproof.discharge(r, allobl, replay=replay, file='src/hydrodiy/stat/transform.py', fn_of=lambda ob: ob.id.split('/')[1])
        r.functions = [dict(file='transform.py', fn='%s._forward/_jacobian' % s['name'], trusted=[], nonterminating=[], cutloops=0, unrolled=0, terminating=0) for s in PT.CLASSES] + \
                      [dict(file='transform.py', fn='Softmax._forward/_jacobian', trusted=[], nonterminating=[], cutloops=0, unrolled=0, terminating=0)]
        r.extra['paths_explored'] = npaths
    except (engp.Unsupported, engp.PathLimit) as e:
        # the code under analysis uses a construct the symbolic executor does not support (e.g. after a change of the code): undecided, not a crash
        r.undecided.append('Engine P cannot execute the current code symbolically: %s' % (str(e)[:300],))
    except Exception:
        r.broken.append('C02 driver crashed: ' + traceback.format_exc()[-2500:])
    r.assumptions += ['floats are mathematical reals plus NaN / inf flags; the 1e-4 finite-difference statement is only sampled in floats (bounded clause)',
                      'differentiation rules (sum, product, quotient, chain rule for exp log sqrt pow, piecewise on an open branch) implemented in the operator overloads of vf/engp.py are trusted',
                      'deriv > 0 on an interval implies strictly increasing (mean value theorem; Mathlib strictMonoOn_of_deriv_pos) -- monotonicity across branch junctions is only sampled in floats',
                      'Log with base <= 1 (decreasing) is treated as outside the admissible settings of C02; Softmax determinant for rows of 1 to 3 entries',
                      'exp / log / sqrt uninterpreted with axiom instances; numpy shim; dutils.cast identity on symbolic values']
    r.explanation = 'Engine P with forward-mode differentiation on the real transform.py: per path, jacobian == derivative of forward and jacobian > 0; bounded: finite differences and monotonicity in floats'
    return r.finish()
