"""C03 - CRPS equals its definition and its decomposition is exact.
Engine C : c_crps under the functional contract c_crps#decomp (unweighted forecasts, no missing value, zeroed output vector): for every number of
           forecasts and members  crps == reliability + potential,  resolution == uncertainty - potential,  reliability, potential and
           uncertainty >= 0  (loop invariants over the Hersbach bins, nonlinear real arithmetic); memory safety of c_crps in general.
Bounded  : crps == mean of E|X-y| - 0.5 E|X-X'| (brute force), uncertainty == CRPS of the climatology, invariance under member / forecast
           order, shift, positive scaling, forecasts with a missing observation ignored."""
import random, traceback, warnings
import numpy as np
from vf.check import Run
from props import common as cm


def monitors(r):
    from vf import child
    res = child.run('props.C03', 'monitors_child', r.prop, r.tier, r.seed)
    child.merge(r, res['recorder'])
    if res['rc'] != 0:
        r.broken.append('C03 monitors child failed (rc=%s) at %s: %s' % (res['rc'], res['progress'], res['stderr'][-1500:]))


def _fail(rec, name, what, **w):
    rec.violation(dict(function=name, kind='monitor', clause=what.split(':')[0][:80]), 'bounded monitor %s: %s' % (name, what), witness=dict(python=True, source='bounded monitor', **w))


def crps_def(obs, ens):
    """mean over forecasts of E|X - y| - 0.5 E|X - X'| over the empirical ensemble distribution"""
    out = 0.0
    for y, x in zip(obs, ens):
        out += np.mean(np.abs(x - y)) - 0.5 * np.mean(np.abs(x[:, None] - x[None, :]))
    return out / len(obs)


def monitors_child(rec):
    from props import apidrive
    from vf import child
    apidrive.setup()
    from hydrodiy.stat import metrics as M
    warnings.simplefilter('ignore')
    rng = random.Random(rec.seed + 300); nrng = np.random.default_rng(rec.seed + 301)
    quick = rec.tier == 'quick'
    DD = child.Distinct().wrap(M, 'crps')
    child.progress('crps'); ev = 0; bad = 0
    tol = lambda v: 1e-10 * max(1.0, abs(v))
    for _ in range(300 if quick else 3000):
        n = rng.choice([1, 2, 3, 5, 12, 40]); m = rng.choice([1, 2, 3, 5, 10, 25])
        mode = rng.choice(['lattice', 'cont', 'const', 'below', 'above'])
        if mode == 'lattice':
            ens = nrng.integers(0, 4, size=(n, m)).astype(float); obs = nrng.integers(-1, 5, size=n).astype(float)
        elif mode == 'const':
            ens = np.tile(nrng.integers(0, 3, size=(n, 1)).astype(float), (1, m)); obs = nrng.integers(0, 3, size=n).astype(float)
        else:
            ens = np.round(nrng.normal(size=(n, m)), 3); obs = np.round(nrng.normal(size=n), 3)
            if mode == 'below':
                obs = ens.min(axis=1) - nrng.uniform(0, 2, size=n).round(2)
            if mode == 'above':
                obs = ens.max(axis=1) + nrng.uniform(0, 2, size=n).round(2)
        d, tab = M.crps(obs, ens); ev += 1
        ref = crps_def(obs, ens)
        ok = abs(d['crps'] - ref) <= tol(ref)
        ok = ok and abs(d['crps'] - (d['reliability'] + d['potential'])) <= tol(ref) and abs(d['resolution'] - (d['uncertainty'] - d['potential'])) <= tol(ref)
        ok = ok and d['reliability'] >= -1e-14 and d['potential'] >= -1e-14 and d['uncertainty'] >= 0
        if m == 1:
            ok = ok and abs(d['crps'] - np.mean(np.abs(ens[:, 0] - obs))) <= tol(ref)
        # uncertainty == CRPS of the observed climatology (every forecast is the set of all observations)
        clim, _ = M.crps(obs, np.tile(obs[None, :], (n, 1)))
        ok = ok and abs(clim['crps'] - d['uncertainty']) <= tol(ref) and tab.shape == (m + 1, 7)
        if not ok:
            bad += 1; _fail(rec, 'crps', 'definition: crps / decomposition differ from the definition (crps %r vs %r, reli %r, pot %r, unc %r vs climatology %r)' % (d['crps'], ref, d['reliability'], d['potential'], d['uncertainty'], clim['crps']),
                            obs=obs.tolist(), ens=ens.tolist()); continue
        # invariances
        pm = nrng.permutation(m); pf = nrng.permutation(n); sh = rng.choice([-3.5, 10.0, 0.125]); sc = rng.choice([0.5, 2.0, 7.0, 1e-9, 2.0 ** -40, 1e6])
        d1, _ = M.crps(obs, np.ascontiguousarray(ens[:, pm])); d2, _ = M.crps(obs[pf], np.ascontiguousarray(ens[pf, :]))
        d3, _ = M.crps(obs + sh, ens + sh); d4, _ = M.crps(obs * sc, ens * sc)
        keys = ['crps', 'reliability', 'resolution', 'uncertainty', 'potential']
        okm = all(abs(d1[k] - d[k]) <= 1e-9 * max(1, abs(d[k])) for k in keys)
        okf = all(abs(d2[k] - d[k]) <= 1e-9 * max(1, abs(d[k])) for k in keys)
        oks = all(abs(d3[k] - d[k]) <= 1e-8 * max(1, abs(d[k])) for k in keys)
        okc = all(abs(d4[k] - sc * d[k]) <= 1e-9 * max(abs(sc * d['uncertainty']), abs(sc * d['crps']), abs(sc * d[k])) for k in keys) \
            and abs(d4['crps'] - (d4['reliability'] + d4['potential'])) <= 1e-9 * abs(sc) * max(abs(d['crps']), 1e-300)
        if not (okm and okf and oks and okc):
            bad += 1; _fail(rec, 'crps', 'invariance: member order %s, forecast order %s, shift %s, scaling %s' % (okm, okf, oks, okc), obs=obs.tolist(), ens=ens.tolist(), shift=sh, scale=sc,
                            member_perm=pm.tolist(), forecast_perm=pf.tolist())
        # forecasts whose observation is missing are ignored
        if n >= 2:
            k = rng.randrange(n); o2 = obs.copy(); o2[k] = np.nan
            keep = np.arange(n) != k
            d5, _ = M.crps(o2, ens); d6, _ = M.crps(obs[keep], np.ascontiguousarray(ens[keep]))
            if not all(abs(d5[kk] - d6[kk]) <= 1e-12 * max(1, abs(d6[kk])) for kk in keys):
                bad += 1; _fail(rec, 'crps', 'missing: a forecast with a missing observation is not ignored', obs=o2.tolist(), ens=ens.tolist())
    rec.bounded_clause('crps: == mean(E|X-y| - 0.5 E|X-X\'|), MAE for one member, decomposition identities, uncertainty == CRPS of the climatology, invariance to member / forecast order, shift, scaling; missing observations ignored',
                       '1..40 forecasts x 1..25 members: integer lattice (ties), continuous, constant ensembles, observations below / above every ensemble', ev, DD.n('crps'), False, bad)


def run(tier):
    r = Run('C03', tier, level='other')
    cm.run_kernels(r, cm.kernels('c_crps', 'c_crps#decomp'))
    monitors(r)
    r.assumptions += ['c_crps#decomp: use_weights == 0 (the only mode the Python wrapper uses), no NaN in observations / members, output vector zeroed on entry (the wrapper allocates it with numpy.zeros; the L3 monitor of C05 evaluates this requires at the boundary), statements under result == 0 (malloc succeeded)',
                      'doubles as reals: the identities hold exactly in real arithmetic; in float64 they hold to rounding (bounded monitor, relative 1e-10)',
                      'crps == mean(E|X-y| - 0.5 E|X-X\'|) (Hersbach eq. 26-28 vs the kernel form) is NOT proved: bounded monitor only']
    r.explanation = ('proved (Engine C): crps == reliability + potential, resolution == uncertainty - potential, reliability / potential / uncertainty >= 0 for all sizes; '
                     'bounded: equality with the definition, climatology, invariances, missing observations')
    return r.finish()
