"""C03 - CRPS equals its definition and its decomposition is exact.
Engine C : c_crps under the functional contract c_crps#decomp (unweighted forecasts, no missing value, zeroed output vector): for every number of
           forecasts and members  crps == reliability + potential,  resolution == uncertainty - potential,  reliability, potential and
           uncertainty >= 0  (loop invariants over the Hersbach bins, nonlinear real arithmetic); memory safety of c_crps in general.
Bounded  : crps == mean of E|X-y| - 0.5 E|X-X'| (brute force), uncertainty == CRPS of the climatology, invariance under member / forecast
           order, shift, positive scaling, forecasts with a missing observation ignored."""
import random, traceback, warnings
import numpy as np
from vf.check import Run
from props import common as cm


def monitors(r):
    from vf import child
    res = child.run('props.C03', 'monitors_child', r.prop, r.tier, r.seed)
    child.merge(r, res['recorder'])
    if res['rc'] != 0:
        r.broken.append('C03 monitors child failed (rc=%s) at %s: %s' % (res['rc'], res['progress'], res['stderr'][-1500:]))


def _fail(rec, name, what, **w):
    rec.violation(dict(function=name, kind='monitor', clause=what.split(':')[0][:80]), 'bounded monitor %s: %s' % (name, what), witness=dict(python=True, source='bounded monitor', **w))


def crps_def(obs, ens):
    """mean over forecasts of E|X - y| - 0.5 E|X - X'| over the empirical ensemble distribution"""
    out = 0.0
    for y, x in zip(obs, ens):
        out += np.mean(np.abs(x - y)) - 0.5 * np.mean(np.abs(x[:, None] - x[None, :]))
    return out / len(obs)


def monitors_child(rec):
    from props import apidrive
    from vf import child
    apidrive.setup()
    from hydrodiy.stat import metrics as M
    warnings.simplefilter('ignore')
    rng = random.Random(rec.seed + 300); nrng = np.random.default_rng(rec.seed + 301)
    quick = rec.tier == 'quick'
    DD = child.Distinct().wrap(M, 'crps')
    child.progress('crps'); ev = 0; bad = 0
    tol = lambda v: 1e-10 * max(1.0, abs(v))
    for _ in range(300 if quick else 3000):
        n = rng.choice([1, 2, 3, 5, 12, 40]); m = rng.choice([1, 2, 3, 5, 10, 25])
        mode = rng.choice(['lattice', 'cont', 'const', 'below', 'above'])
        if mode == 'lattice':
            ens = nrng.integers(0, 4, size=(n, m)).astype(float); obs = nrng.integers(-1, 5, size=n).astype(float)
        elif mode == 'const':
            ens = np.tile(nrng.integers(0, 3, size=(n, 1)).astype(float), (1, m)); obs = nrng.integers(0, 3, size=n).astype(float)
        else:
            ens = np.round(nrng.normal(size=(n, m)), 3); obs = np.round(nrng.normal(size=n), 3)
            if mode == 'below':
                obs = ens.min(axis=1) - nrng.uniform(0, 2, size=n).round(2)
            if mode == 'above':
                obs = ens.max(axis=1) + nrng.uniform(0, 2, size=n).round(2)
        d, tab = M.crps(obs, ens); ev += 1
        ref = crps_def(obs, ens)
        ok = abs(d['crps'] - ref) <= tol(ref)
        ok = ok and abs(d['crps'] - (d['reliability'] + d['potential'])) <= tol(ref) and abs(d['resolution'] - (d['uncertainty'] - d['potential'])) <= tol(ref)
        ok = ok and d['reliability'] >= -1e-14 and d['potential'] >= -1e-14 and d['uncertainty'] >= 0
        if m == 1:
            ok = ok and abs(d['crps'] - np.mean(np.abs(ens[:, 0] - obs))) <= tol(ref)
        # uncertainty == CRPS of the observed climatology (every forecast is the set of all observations)
        clim, _ = M.crps(obs, np.tile(obs[None, :], (n, 1)))
        ok = ok and abs(clim['crps'] - d['uncertainty']) <= tol(ref) and tab.shape == (m + 1, 7)
        if not ok:
            bad += 1; _fail(rec, 'crps', 'definition: crps / decomposition differ from the definition (crps %r vs %r, reli %r, pot %r, unc %r vs climatology %r)' % (d['crps'], ref, d['reliability'], d['potential'], d['uncertainty'], clim['crps']),
                            obs=obs.tolist(), ens=ens.tolist()); continue
        # invariances
        pm = nrng.permutation(m); pf = nrng.permutation(n); sh = rng.choice([-3.5, 10.0, 0.125]); sc = rng.choice([0.5, 2.0, 7.0, 1e-9, 2.0 ** -40, 1e6])
        d1, _ = M.crps(obs, np.ascontiguousarray(ens[:, pm])); d2, _ = M.crps(obs[pf], np.ascontiguousarray(ens[pf, :]))
        d3, _ = M.crps(obs + sh, ens + sh); d4, _ = M.crps(obs * sc, ens * sc)
        keys = ['crps', 'reliability', 'resolution', 'uncertainty', 'potential']
        okm = all(abs(d1[k] - d[k]) <= 1e-9 * max(1, abs(d[k])) for k in keys)
        okf = all(abs(d2[k] - d[k]) <= 1e-9 * max(1, abs(d[k])) for k in keys)
        oks = all(abs(d3[k] - d[k]) <= 1e-8 * max(1, abs(d[k])) for k in keys)
        okc = all(abs(d4[k] - sc * d[k]) <= 1e-9 * max(abs(sc * d['uncertainty']), abs(sc * d['crps']), abs(sc * d[k])) for k in keys) \
            and abs(d4['crps'] - (d4['reliability'] + d4['potential'])) <= 1e-9 * abs(sc) * max(abs(d['crps']), 1e-300)
        if not (okm and okf and oks and okc):
            bad += 1; _fail(rec, 'crps', 'invariance: member order %s, forecast order %s, shift %s, scaling %s' % (okm, okf, oks, okc), obs=obs.tolist(), ens=ens.tolist(), shift=sh, scale=sc,
                            member_perm=pm.tolist(), forecast_perm=pf.tolist())
        # forecasts whose observation is missing are ignored
        if n >= 2:
            k = rng.randrange(n); o2 = obs.copy(); o2[k] = np.nan
            keep = np.arange(n) != k
            d5, _ = M.crps(o2, ens); d6, _ = M.crps(obs[keep], np.ascontiguousarray(ens[keep]))
            if not all(abs(d5[kk] - d6[kk]) <= 1e-12 * max(1, abs(d6[kk])) for kk in keys):
                bad += 1; _fail(rec, 'crps', 'missing: a forecast with a missing observation is not ignored', obs=o2.tolist(), ens=ens.tolist())
    rec.bounded_clause('crps: == mean(E|X-y| - 0.5 E|X-X\'|), MAE for one member, decomposition identities, uncertainty == CRPS of the climatology, invariance to member / forecast order, shift, scaling; missing observations ignored',
                       '1..40 forecasts x 1..25 members: integer lattice (ties), continuous, constant ensembles, observations below / above every ensemble', ev, DD.n('crps'), False, bad)


def run(tier):
    r = Run('C03', tier, level='other')
    cm.run_kernels(r, cm.kernels('c_crps', 'c_crps#decomp', 'c_crps#uncertainty'))
    try:
        from vf import pproof, engp
        obls, npaths = wrapper_obligations()
        pproof.discharge(r, obls, file='src/hydrodiy/stat/metrics.py', fn_of=lambda ob: 'crps (python wrapper)')
        r.functions.append(dict(file='metrics.py', fn='crps (python wrapper)', trusted=['c_hydrodiy_stat.crps (replaced by a recorder: its behaviour is the kernel contract)', 'pandas.notnull'], nonterminating=[], cutloops=0, unrolled=0, terminating=0))
        r.extra['paths_explored'] = npaths
    except (engp.Unsupported, engp.PathLimit) as e:
        r.undecided.append('Engine P cannot execute the current crps wrapper symbolically: %s' % (str(e)[:300],))
    except Exception:
        r.broken.append('C03 Engine P driver crashed: ' + traceback.format_exc()[-2500:])
    monitors(r)
    r.assumptions += ['c_crps#decomp: use_weights == 0 (the only mode the Python wrapper uses), no NaN in observations / members, output vector zeroed on entry (the wrapper allocates it with numpy.zeros; the L3 monitor of C05 evaluates this requires at the boundary), statements under result == 0 (malloc succeeded)',
                      'doubles as reals: the identities hold exactly in real arithmetic; in float64 they hold to rounding (bounded monitor, relative 1e-10)',
                      'crps == mean(E|X-y| - 0.5 E|X-X\'|) (Hersbach eq. 26-28 vs the kernel form) is NOT proved: bounded monitor only']
    r.explanation = ('proved (Engine C): crps == reliability + potential, resolution == uncertainty - potential, reliability / potential / uncertainty >= 0 for all sizes; '
                     'c_crps#uncertainty: the uncertainty term is the (weighted) sum over the pairs of observations of w_i w_k |obs_k - obs_i|, i.e. the CRPS of '
                     'the observed climatology (products compared structurally); bounded: equality of crps with the definitional double sum, invariances, missing observations')
    return r.finish()


# ------------------------------------------------------------------------------------------------ Engine P: the python wrapper of c_crps
def wrapper_obligations():
    """the real metrics.crps executed on symbolic observations (possibly missing) and members with the compiled module replaced by a recorder:
    the kernel is entered once, unweighted and unsorted, with exactly the forecasts whose observation is present, a zeroed (m+1) x 7 table and a
    zeroed vector of 5 (the `requires` of the functional contract c_crps#decomp); the five numbers and the table it writes are returned under
    the documented names."""
    import numpy as np, z3, warnings, contextlib
    from vf import engp, pproof, pybuild
    from vf.engp import sym, SymReal, SymBool, SA
    pybuild.activate()
    from hydrodiy.stat import metrics as M

    class PDX:
        def __init__(self, real):
            self.real = real

        def __getattr__(self, k):
            return getattr(self.real, k)

        def notnull(self, x):
            # ASSUMED contract of pandas.notnull on floats: true exactly for values that are not NaN
            if engp.symbolic(x):
                a = np.asarray(x, dtype=object); out = np.empty(a.shape, dtype=object)
                out.flat = [SymBool(z3.Not(e.nan)) if isinstance(e, SymReal) else bool(self.real.notnull(e)) for e in a.flat]
                return out.view(SA)
            return self.real.notnull(x)

    class Kernel:
        def __init__(self):
            self.calls = []

        def crps(self, use_weights, is_sorted, obs, ens, weights, table, decompos):
            self.calls.append(dict(use_weights=use_weights, is_sorted=is_sorted, obs=list(np.asarray(obs, dtype=object).ravel()), ens=np.asarray(ens, dtype=object).copy(),
                                   weights=np.array(weights, dtype=object).copy(), table0=np.array(table, dtype=object).copy(), decompos0=np.array(decompos, dtype=object).copy()))
            decompos[:] = [float(10 + i) for i in range(len(decompos))]
            table[:] = np.arange(table.size, dtype=float).reshape(table.shape) + 100
            return 0

    obls = []; npaths = 0
    for (n, m) in ((1, 2), (2, 2), (3, 1)):
        obs = [SymReal(z3.Real('obs%d' % i), z3.Bool('obs%d!nan' % i)) for i in range(n)]
        ens = [[sym('ens%d_%d' % (i, k)) for k in range(m)] for i in range(n)]
        names = ['obs%d' % i for i in range(n)] + ['ens%d_%d' % (i, k) for i in range(n) for k in range(m)]
        kern = Kernel()

        def run():
            kern.calls = []
            o = np.empty(n, dtype=object); o[:] = obs
            e = np.empty((n, m), dtype=object)
            for i in range(n):
                e[i, :] = ens[i]
            try:
                return ('ok', M.crps(o.view(SA), e.view(SA)), list(kern.calls))
            except ValueError:
                return ('ValueError', None, list(kern.calls))
        saved = (M.np, M.pd, M.c_hydrodiy_stat, M.has_c_module)
        M.np = engp.NPProxy(); M.pd = PDX(saved[1]); M.c_hydrodiy_stat = kern; M.has_c_module = lambda *a, **kw: True
        try:
            with warnings.catch_warnings():
                warnings.simplefilter('ignore')
                paths = engp.explore(run, base=[], allowed_exc=(), max_paths=256)
        finally:
            M.np, M.pd, M.c_hydrodiy_stat, M.has_c_module = saved
        npaths += len(paths)
        eq = lambda a, b: z3.And(z3.Not(SymReal.lift(a).nan), SymReal.lift(a).val == SymReal.lift(b).val)
        zero = lambda arr: all((not isinstance(v, SymReal)) and float(v) == 0.0 for v in np.asarray(arr, dtype=object).ravel())
        for kp, pa in enumerate(paths):
            status, res, calls = pa.result
            hyp = list(pa.pc) + list(pa.axioms)
            tag = 'metrics.py/crps/n=%d,m=%d/path%d' % (n, m, kp)
            present = [z3.Not(o.nan) for o in obs]
            if status == 'ValueError':
                obls.append(pproof.PObligation(tag + '/rejects-only-all-missing', 'post', 'crps raises ValueError only when every observation is missing (and then does not enter the kernel)', hyp,
                                               z3.And(z3.BoolVal(len(calls) == 0), z3.Not(z3.Or(*present))), names)); continue
            if len(calls) != 1:
                obls.append(pproof.PObligation(tag + '/one-kernel-call', 'post', 'the kernel is entered exactly once', hyp, z3.BoolVal(False), names)); continue
            c = calls[0]
            kept = len(c['obs'])
            # which forecasts were handed over: those (and only those) whose observation is present, in order
            goal_rows = [z3.BoolVal(c['ens'].shape == (kept, m))]
            j = 0; sel = []
            # the path condition fixes which observations are present: read it off by asking, for each forecast, whether the kept rows match
            match = z3.BoolVal(True)
            # build the expected kept list symbolically: position-wise if-then-else chains would be needed in general; per path the pattern is concrete:
            pattern = [bool(SymBool(p)) if False else None for p in present]
            obls.append(pproof.PObligation(tag + '/flags', 'post', 'the kernel is entered unweighted (use_weights == 0) and unsorted (is_sorted == 0)', hyp,
                                           z3.BoolVal(int(c['use_weights']) == 0 and int(c['is_sorted']) == 0), names))
            obls.append(pproof.PObligation(tag + '/zeroed-outputs', 'post', 'the kernel receives a zeroed (m+1) x 7 table, a zeroed vector of 5 and a zero weight vector of the number of forecasts kept', hyp,
                                           z3.BoolVal(c['table0'].shape == (m + 1, 7) and zero(c['table0']) and c['decompos0'].shape == (5,) and zero(c['decompos0']) and c['weights'].shape == (kept,) and zero(c['weights'])), names))
            # every kept observation is present; the kept forecasts are exactly the present ones in order (count + order-preserving embedding)
            npres = z3.Sum([z3.If(p, 1, 0) for p in present])
            obls.append(pproof.PObligation(tag + '/keeps-all-present', 'post', 'the number of forecasts handed to the kernel is the number of observations present', hyp, npres == kept, names))
            # order-preserving: the r-th kept forecast is the r-th present one
            for r_ in range(kept):
                alts = []
                for i in range(n):
                    before = z3.Sum([z3.If(present[q], 1, 0) for q in range(i)]) if i else z3.IntVal(0)
                    alts.append(z3.And(present[i], before == r_, eq(c['obs'][r_], obs[i]), *[eq(c['ens'][r_, k], ens[i][k]) for k in range(m)]))
                obls.append(pproof.PObligation(tag + '/row%d' % r_, 'post', 'forecast %d handed to the kernel is the %d-th forecast whose observation is present (observation and members unchanged)' % (r_, r_), hyp, z3.Or(*alts), names))
            dec, tab = res
            okret = list(dec.index) == ['crps', 'reliability', 'resolution', 'uncertainty', 'potential'] and [float(v) for v in dec.values] == [10.0, 11.0, 12.0, 13.0, 14.0] \
                and list(tab.columns) == ['freq', 'a', 'b', 'g', 'rank', 'reliability', 'crps_potential'] and tab.shape == (m + 1, 7) and float(tab.values[0, 0]) == 100.0 and float(tab.values[m, 6]) == 100.0 + 7 * (m + 1) - 1
            obls.append(pproof.PObligation(tag + '/returns-kernel-output', 'post', 'the five numbers and the table written by the kernel are returned under the documented names, in order', hyp, z3.BoolVal(bool(okret)), names))
    return obls, npaths
