"""C04 - deterministic and categorical skill scores equal their definitions.
Engine P: metrics.binary on four symbolic positive counts; bias / nse / kge / corr (Pearson) on symbolic series of length 2 and 3.
Bounded: excludenull, Spearman, ensemble statistics, transforms, confusion_matrix."""
import traceback, math, itertools, warnings
import numpy as np
import z3
from vf.check import Run
from vf import engp, pproof
from vf.engp import sym, rv, SymReal, SymBool, SA, symvec
from props.C01 import modules, vec


class NPX(engp.NPProxy):
    """numpy functions used by the score functions, with their ASSUMED contracts (cross-checked against numpy on concrete values below)"""

    def mean(self, x, *a, **k):
        if not engp.symbolic(x):
            return np.mean(x, *a, **k)
        xs = list(np.asarray(x, dtype=object).ravel())
        return sum(xs[1:], xs[0]) / float(len(xs))

    def std(self, x, *a, **k):
        if not engp.symbolic(x):
            return np.std(x, *a, **k)
        xs = list(np.asarray(x, dtype=object).ravel()); m = self.mean(x)
        v = sum([(e - m) * (e - m) for e in xs][1:], (xs[0] - m) * (xs[0] - m)) / float(len(xs))
        return SymReal.lift(v).sqrt()

    def corrcoef(self, a, b=None, *r, **k):
        if not (engp.symbolic(a) or engp.symbolic(b)):
            return np.corrcoef(a, b, *r, **k)
        xs = list(np.asarray(a, dtype=object).ravel()); ys = list(np.asarray(b, dtype=object).ravel())
        mx = self.mean(a); my = self.mean(b)
        sxy = sum([(x - mx) * (y - my) for x, y in zip(xs, ys)][1:], (xs[0] - mx) * (ys[0] - my))
        sxx = sum([(x - mx) * (x - mx) for x in xs][1:], (xs[0] - mx) * (xs[0] - mx))
        syy = sum([(y - my) * (y - my) for y in ys][1:], (ys[0] - my) * (ys[0] - my))
        c = sxy / (SymReal.lift(sxx).sqrt() * SymReal.lift(syy).sqrt())
        out = np.empty((2, 2), dtype=object); out[0, 0] = out[1, 1] = SymReal.lift(1.0); out[0, 1] = out[1, 0] = c
        return out.view(SA)


def patched_metrics(M, T, C, dutils):
    import contextlib

    @contextlib.contextmanager
    def cm():
        with engp.patched(T, C, dutils):
            saved = (M.np, M.math)
            M.np = NPX(); M.math = engp.MathProxy()
            try:
                with warnings.catch_warnings():
                    warnings.simplefilter('ignore')
                    yield
            finally:
                M.np, M.math = saved
    return cm()


def binary_obligations(M, ctxf):
    TN, FP, FN, TP = [sym(n) for n in ('TN', 'FP', 'FN', 'TP')]
    base = [v.val >= 1 for v in (TN, FP, FN, TP)]

    def run():
        cmx = np.empty((2, 2), dtype=object); cmx[0, 0] = TN; cmx[0, 1] = FP; cmx[1, 0] = FN; cmx[1, 1] = TP
        return M.binary(cmx.view(SA))
    with ctxf():
        paths = engp.explore(run, base=base, allowed_exc=(Exception,))
    tn, fp, fn, tp = TN.val, FP.val, FN.val, TP.val
    N = tn + fp + fn + tp
    theta = (tp * tn) / (fp * fn)
    obls = []
    names = ['TN', 'FP', 'FN', 'TP']
    for k, p in enumerate(paths):
        hyps = base + p.pc            # the scores below are rational functions of the counts: no axiom about log / sqrt needed
        pid = 'metrics.py/binary/path%d' % k
        if p.exc is not None:
            obls.append(pproof.PObligation(pid + '/no-exception', 'exception', 'binary raises %s on a table of positive counts' % type(p.exc).__name__, hyps, z3.BoolVal(False), names)); continue
        sc, _ = p.result
        engp.CTX.terms = list(); engp.CTX.axioms = []
        # definitions from the contingency table (Stephenson 2000): not from the code
        defs = dict(hitrate=tp / (tp + fn), falsealarm=fp / (fp + tn), precision=tp / (tp + fp), accuracy=(tp + tn) / N, bias=(tp + fp) / (tp + fn),
                    F1=2 * tp / (2 * tp + fp + fn), ORSS=(theta - 1) / (theta + 1))
        for key, d in defs.items():
            v = SymReal.lift(sc[key])
            obls.append(pproof.PObligation(pid + '/' + key, 'post', 'binary: %s equals its contingency-table definition' % key, hyps, z3.And(z3.Not(v.nan), z3.Not(v.inf), v.val == d), names))
        # F1 is the harmonic mean of hit rate and precision
        h = tp / (tp + fn); pr = tp / (tp + fp); f1 = SymReal.lift(sc['F1'])
        obls.append(pproof.PObligation(pid + '/F1-harmonic', 'post', 'binary: F1 is the harmonic mean of hit rate and precision', hyps, f1.val * (h + pr) == 2 * h * pr, names))
        # MCC: (TP TN - FP FN) / sqrt(product of the margins):  MCC^2 * margins == numerator^2 and same sign
        mcc = SymReal.lift(sc['MCC']); marg = (tp + fp) * (tp + fn) * (tn + fp) * (tn + fn); num = tp * tn - fp * fn
        # MCC = num / t where t is the square root the code took: t is characterised by t >= 0 and t^2 == margins (sqrt axiom of that term)
        sq = [(x, t) for (nm, x, t) in p.terms if nm == 'sqrt']
        for (x, t) in sq[:1]:
            obls.append(pproof.PObligation(pid + '/MCC', 'post', 'binary: Matthews correlation equals (TP TN - FP FN)/sqrt(margins)', hyps,
                                           z3.And(x == marg, z3.Implies(z3.And(t > 0, t * t == x), z3.And(z3.Not(mcc.nan), mcc.val * t == num))), names))
        if not sq:
            obls.append(pproof.PObligation(pid + '/MCC', 'post', 'binary: Matthews correlation uses a square root', hyps, z3.BoolVal(False), names))
        # LOR = log(theta)
        lor = SymReal.lift(sc['LOR'])
        lt = engp.CTX.app('log', theta)
        obls.append(pproof.PObligation(pid + '/LOR', 'post', 'binary: log odds ratio equals log(TP TN / (FP FN))', hyps + [a for a in p.axioms if 'm_sqrt' not in a.sexpr()] + list(engp.CTX.axioms),
                                       z3.And(z3.Not(lor.nan), z3.Not(lor.inf), engp.CTX.app('exp', lor.val) == theta), names))
        # ORSS in Yule's Q form
        orss = SymReal.lift(sc['ORSS'])
        obls.append(pproof.PObligation(pid + '/ORSS-Q', 'post', "binary: odds-ratio skill score equals Yule's Q for every odds ratio", hyps, z3.And(z3.Not(orss.nan), orss.val * (tp * tn + fp * fn) == tp * tn - fp * fn), names))
        for key, val in (('truepos', tp), ('falsepos', fp), ('trueneg', tn), ('falseneg', fn)):
            v = SymReal.lift(sc[key])
            obls.append(pproof.PObligation(pid + '/' + key, 'post', 'binary: %s is the cell of the table' % key, hyps, v.val == val, names))
    return obls, len(paths)


def score_obligations(M, T, ctxf, n):
    """bias / nse / kge / corr on symbolic series of length n with the Identity transform: definitions and corollaries"""
    o = [sym('o%d' % i) for i in range(n)]; s = [sym('s%d' % i) for i in range(n)]
    names = ['o%d' % i for i in range(n)] + ['s%d' % i for i in range(n)]
    ov = [x.val for x in o]; sv = [x.val for x in s]
    mo = sum(ov) / n; ms = sum(sv) / n
    varo = sum([(x - mo) * (x - mo) for x in ov]) / n
    # non-degenerate observations (property quantifier): mean and spread of the observations away from zero
    base = [z3.Or(mo > rv(1e-6), mo < rv(-1e-6)), varo > rv(1e-12)]
    obls = []; npaths = 0

    def explore(fname, call, clauses, extra_base=()):
        nonlocal npaths
        b = base + list(extra_base)
        with ctxf():
            paths = engp.explore(call, base=b, allowed_exc=(Exception,))
        npaths += len(paths)
        for k, p in enumerate(paths):
            hyps = b + p.pc + p.axioms
            pid = 'metrics.py/%s(n=%d)/path%d' % (fname, n, k)
            if p.exc is not None:
                if isinstance(p.exc, (engp.Unsupported, engp.PathLimit)):
                    raise p.exc
                obls.append(pproof.PObligation(pid + '/no-exception', 'exception', '%s raises %s on non-degenerate series' % (fname, type(p.exc).__name__), hyps, z3.BoolVal(False), names)); continue
            for cname, goal in clauses(p.result):
                obls.append(pproof.PObligation(pid + '/' + cname, 'post', '%s, series of length %d: %s' % (fname, n, cname), hyps, goal, names))
    OBS = vec(o); SIM = vec(s)
    val = lambda r: SymReal.lift(r)
    fin = lambda r: z3.And(z3.Not(val(r).nan), z3.Not(val(r).inf))
    explore('bias[standard]', lambda: M.bias(OBS, SIM), lambda r: [('definition (ms-mo)/mo', z3.And(fin(r), val(r).val == (ms - mo) / mo))])
    explore('bias[normalised]', lambda: M.bias(OBS, SIM, type='normalised'), lambda r: [('definition (ms-mo)/(ms+mo)', z3.And(fin(r), val(r).val == (ms - mo) / (ms + mo)))], extra_base=[ms + mo != 0])
    explore('bias[perfect]', lambda: M.bias(OBS, OBS), lambda r: [('perfect simulation scores 0', z3.And(fin(r), val(r).val == 0))])
    sse = sum([(a - b) * (a - b) for a, b in zip(sv, ov)]); sso = sum([(b - mo) * (b - mo) for b in ov])
    explore('nse', lambda: M.nse(OBS, SIM), lambda r: [('definition 1 - SSE/SSO', z3.And(fin(r), val(r).val == 1 - sse / sso)), ('never exceeds 1', val(r).val <= 1)])
    explore('nse[perfect]', lambda: M.nse(OBS, OBS), lambda r: [('perfect simulation scores 1', z3.And(fin(r), val(r).val == 1))])
    explore('nse[mean]', lambda: M.nse(OBS, vec([SymReal(mo) for _ in range(n)])), lambda r: [('simulating the observed mean scores 0', z3.And(fin(r), val(r).val == 0))])
    a_ = sym('a'); b_ = sym('b')
    explore('nse[affine]', lambda: (M.nse(OBS, SIM), M.nse(vec([a_ * x + b_ for x in o]), vec([a_ * x + b_ for x in s]))),
            lambda r: [('invariant under a common affine map', z3.And(fin(r[1]), val(r[0]).val == val(r[1]).val))], extra_base=[z3.Or(a_.val > rv(1e-3), a_.val < rv(-1e-3)),
                                                                                                                        z3.Or(a_.val * mo + b_.val > rv(1e-6), a_.val * mo + b_.val < rv(-1e-6))])
    explore('bias[scaling]', lambda: (M.bias(OBS, SIM), M.bias(vec([a_ * x for x in o]), vec([a_ * x for x in s]))),
            lambda r: [('invariant under a common positive scaling', z3.And(fin(r[1]), val(r[0]).val == val(r[1]).val))], extra_base=[a_.val > rv(1e-3)])
    if n <= 3:
        explore('kge[perfect]', lambda: M.kge(OBS, OBS), lambda r: [('perfect simulation scores 1', z3.And(fin(r), val(r).val == 1))])
    return obls, npaths


def excludenull_obligations(M, T, ctxf, n):
    """excludenull: the score of series with NaN / inf scattered in either series equals the score of the series with the incomplete pairs
    removed.  Every element is a symbolic value that may be NaN or infinite; the real function runs with excludenull=True, then again on the
    pairs the path kept; both outcomes (value, NaN, or ValueError) must coincide."""
    mk = lambda nm: SymReal(z3.Real(nm), z3.Bool(nm + '!nan'), z3.Bool(nm + '!inf'))
    o = [mk('o%d' % i) for i in range(n)]; s = [mk('s%d' % i) for i in range(n)]
    names = ['o%d' % i for i in range(n)] + ['s%d' % i for i in range(n)]
    base = [z3.Not(z3.And(x.nan, x.inf)) for x in o + s]
    obls = []; npaths = 0
    finite = lambda x: SymBool(z3.And(z3.Not(x.nan), z3.Not(x.inf)))

    def same(a, b):
        a = SymReal.lift(a); b = SymReal.lift(b)
        bad_a = z3.Or(a.nan, a.inf); bad_b = z3.Or(b.nan, b.inf)
        return z3.Or(z3.And(bad_a, bad_b), z3.And(z3.Not(bad_a), z3.Not(bad_b), a.val == b.val))
    for fname in ('bias', 'nse', 'kge'):
        f = getattr(M, fname)

        def call(f=f):
            try:
                r1 = ('ok', f(vec(o), vec(s), excludenull=True))
            except ValueError:
                r1 = ('ValueError', None)
            keep = [i for i in range(n) if bool(finite(o[i]) & finite(s[i]))]
            if not keep:
                r2 = ('ValueError', None)
            else:
                try:
                    r2 = ('ok', f(vec([o[i] for i in keep]), vec([s[i] for i in keep])))
                except ValueError:
                    r2 = ('ValueError', None)
            return r1, r2, keep
        with ctxf():
            paths = engp.explore(call, base=base, allowed_exc=(Exception,), max_paths=2048)
        npaths += len(paths)
        for k, p in enumerate(paths):
            hyps = base + p.pc + p.axioms
            pid = 'metrics.py/%s[excludenull](n=%d)/path%d' % (fname, n, k)
            if p.exc is not None:
                if isinstance(p.exc, (engp.Unsupported, engp.PathLimit)):
                    raise p.exc
                obls.append(pproof.PObligation(pid + '/no-exception', 'exception', '%s(excludenull=True) raises %s' % (fname, type(p.exc).__name__), hyps, z3.BoolVal(False), names)); continue
            r1, r2, keep = p.result
            if r1[0] != r2[0]:
                goal = z3.BoolVal(False)
            elif r1[0] == 'ok':
                goal = same(r1[1], r2[1])
            else:
                goal = z3.BoolVal(True)
            obls.append(pproof.PObligation(pid + '/pairs-removed', 'post', '%s with excludenull on series of length %d equals the score of the %d complete pairs (same value, or both undefined)' % (fname, n, len(keep)), hyps, goal, names))
    return obls, npaths


def numpy_contracts(r):
    """the assumed contracts of numpy mean / std / corrcoef (NPX above) against real numpy on random concrete vectors"""
    rng = np.random.default_rng(r.seed); bad = 0; n = 0
    with warnings.catch_warnings():
        warnings.simplefilter('ignore')
        for _ in range(200):
            k = rng.integers(2, 6); a = rng.normal(size=k); b = rng.normal(size=k); n += 3
            m = sum(a) / k; sd = math.sqrt(sum((x - m) ** 2 for x in a) / k)
            mb = sum(b) / k
            c = sum((x - m) * (y - mb) for x, y in zip(a, b)) / math.sqrt(sum((x - m) ** 2 for x in a) * sum((y - mb) ** 2 for y in b))
            if not (abs(np.mean(a) - m) < 1e-12 and abs(np.std(a) - sd) < 1e-12 and abs(np.corrcoef(a, b)[0, 1] - c) < 1e-10):
                bad += 1
    r.bounded_clause('assumed contracts of numpy.mean / std / corrcoef used by the shim agree with real numpy', '200 random vectors of length 2..5', n, n, False, failures=bad)
    if bad:
        r.broken.append('the numpy shim of C04 disagrees with numpy')


def monitors(M, T, r):
    rng = r.rng; bad = []; n = 0
    # ---- confusion matrix: every pair counted once, table ncat x ncat, row / column order
    import pandas as pd
    lens = [1, 2, 3, 4] if r.tier == 'quick' else [1, 2, 3, 4, 5, 6]
    for ncat in (2, 3, 4, 6):
        seqs = []
        for L in lens:
            if ncat ** (2 * L) <= 3000:
                seqs += [(list(p[:L]), list(p[L:])) for p in itertools.product(range(ncat), repeat=2 * L)]
        for _ in range(150):
            L = rng.randint(1, 30); seqs.append(([rng.randrange(ncat) for _ in range(L)], [rng.randrange(ncat) for _ in range(L)]))
        for obs, sim in seqs:
            for given in (ncat, None):
                if given is None and (set(obs) | set(sim)) != set(range(len(set(obs) | set(sim)))):
                    continue        # a category absent from BOTH series cannot be inferred: outside the quantifier
                n += 1
                try:
                    cm = M.confusion_matrix(obs, sim, given)
                    k = given if given is not None else len(set(obs) | set(sim))
                    arr = np.asarray(cm)
                    ok = arr.shape == (k, k) and arr.sum() == len(obs)
                    if given is not None:
                        ok = ok and list(cm.index) == list(range(k)) and list(cm.columns) == list(range(k))
                        for i in range(k):
                            for j in range(k):
                                ok = ok and arr[i, j] == sum(1 for a, b in zip(obs, sim) if a == i and b == j)
                except Exception as e:
                    ok = False
                if not ok:
                    bad.append(dict(what='confusion_matrix', obs=obs, sim=sim, ncat=given)); break
    # ---- binary scores on concrete integer tables (the proof treats the counts as reals: integer-width effects are only visible here)
    nb = 0
    for tn, fp, fn_, tp in itertools.product((1, 2, 5, 9), repeat=4):
        nb += 1; n += 1
        sc, _ = M.binary([[tn, fp], [fn_, tp]])
        N = tn + fp + fn_ + tp; theta = tp * tn / (fp * fn_)
        exp = dict(hitrate=tp / (tp + fn_), falsealarm=fp / (fp + tn), precision=tp / (tp + fp), accuracy=(tp + tn) / N, bias=(tp + fp) / (tp + fn_), F1=2 * tp / (2 * tp + fp + fn_),
                   MCC=(tp * tn - fp * fn_) / math.sqrt((tp + fp) * (tp + fn_) * (tn + fp) * (tn + fn_)), LOR=math.log(theta), ORSS=(theta - 1) / (theta + 1))
        wrong = [k for k, v in exp.items() if k in sc and not (np.isfinite(sc[k]) and abs(float(sc[k]) - v) <= 1e-9 * max(1.0, abs(v)))]
        if wrong:
            bad.append(dict(what='binary scores %s of the table [[%d, %d], [%d, %d]]' % (wrong, tn, fp, fn_, tp), ncat=2, observed={k: float(sc[k]) for k in wrong}, expected={k: exp[k] for k in wrong})); break
    # ---- scores with transforms, excludenull, Spearman, ensemble statistic (floats, against textbook formulas)
    from scipy.stats import spearmanr
    with warnings.catch_warnings():
        warnings.simplefilter('ignore')
        for trial in range(150 if r.tier == 'quick' else 1500):
            L = rng.randint(2, 12)
            obs = np.array([rng.uniform(0.5, 5.0) for _ in range(L)]); sim = np.array([rng.uniform(0.5, 5.0) for _ in range(L)])
            if np.std(obs) < 1e-3:
                continue
            for tr in (T.Identity(), T.get_transform('Log', nu=0.1), T.get_transform('BoxCox2', nu=0.1, lam=0.3), T.get_transform('Reciprocal', nu=0.2), T.get_transform('Sinh', nu=0.1, scale=0.7)):
                to = tr.forward(obs); ts = tr.forward(sim); n += 1
                exp_nse = 1 - np.sum((ts - to) ** 2) / np.sum((to - to.mean()) ** 2)
                exp_bias = (ts.mean() - to.mean()) / to.mean()
                exp_kge = 1 - math.sqrt((1 - ts.mean() / to.mean()) ** 2 + (1 - ts.std() / to.std()) ** 2 + (1 - np.corrcoef(to, ts)[0, 1]) ** 2)
                got = (M.nse(obs, sim, tr), M.bias(obs, sim, tr), M.kge(obs, sim, tr))
                ok = abs(to.mean()) < 1e-6 or np.allclose(got, (exp_nse, exp_bias, exp_kge), rtol=1e-9, atol=1e-12)
                ok = ok and abs(M.nse(obs, obs, tr) - 1) < 1e-12 and abs(M.kge(obs, obs, tr) - 1) < 1e-9 and abs(M.bias(obs, obs, tr)) < 1e-12
                # excludenull: NaN / inf scattered in either series
                o2 = obs.copy(); s2 = sim.copy()
                for _ in range(rng.randint(0, 3)):
                    (o2 if rng.random() < 0.5 else s2)[rng.randrange(L)] = rng.choice([np.nan, np.inf, -np.inf])
                keep = np.isfinite(tr.forward(o2)) & np.isfinite(tr.forward(s2))
                if keep.sum() >= 2 and np.std(tr.forward(o2[keep])) > 1e-3 and abs(np.mean(tr.forward(o2[keep]))) > 1e-6:
                    ok = ok and np.isclose(M.nse(o2, s2, tr, excludenull=True), M.nse(o2[keep], s2[keep], tr), rtol=1e-9, equal_nan=True)
                    ok = ok and np.isclose(M.bias(o2, s2, tr, excludenull=True), M.bias(o2[keep], s2[keep], tr), rtol=1e-9, equal_nan=True)
                    ok = ok and np.isclose(M.kge(o2, s2, tr, excludenull=True), M.kge(o2[keep], s2[keep], tr), rtol=1e-9, equal_nan=True)
                if not ok:
                    bad.append(dict(what='score vs textbook formula', transform=tr.name, obs=obs.tolist(), sim=sim.tolist())); break
            ens = np.column_stack([sim, sim + np.array([rng.uniform(-0.3, 0.3) for _ in range(L)]), sim * rng.uniform(0.8, 1.2)]); n += 1
            for stat, f in (('mean', np.mean), ('median', np.median)):
                c1 = M.corr(obs, ens, stat=stat, type='Pearson'); c2 = M.corr(obs, ens, stat=stat, type='Spearman')
                e = f(ens, axis=1)
                if not (np.isclose(c1, np.corrcoef(obs, e)[0, 1], rtol=1e-9) and np.isclose(c2, spearmanr(obs, e).correlation, rtol=1e-9)):
                    bad.append(dict(what='corr', stat=stat, obs=obs.tolist(), ens=ens.tolist()))
            # Spearman with ties (intermittent / rounded series): textbook definition = Pearson correlation of the mid-ranks (independent oracle)
            ot = np.array([rng.choice([0.0, 0.0, 1.0, 2.5, 2.5, 4.0]) for _ in range(L)]); st_ = np.array([rng.choice([0.0, 1.0, 1.0, 3.0, 5.0]) for _ in range(L)])
            if np.ptp(ot) > 0 and np.ptp(st_) > 0:
                n += 1
                def mid(v):
                    v = list(v); order = sorted(range(len(v)), key=lambda i: v[i]); rk = [0.0] * len(v); i = 0
                    while i < len(v):
                        j = i
                        while j + 1 < len(v) and v[order[j + 1]] == v[order[i]]:
                            j += 1
                        for t in range(i, j + 1):
                            rk[order[t]] = 1 + (i + j) / 2
                        i = j + 1
                    return np.array(rk)
                exp_sp = np.corrcoef(mid(ot), mid(st_))[0, 1]
                got_sp = M.corr(ot, st_[:, None], type='Spearman')
                if not np.isclose(got_sp, exp_sp, rtol=1e-9, atol=1e-12):
                    bad.append(dict(what='corr', stat='Spearman with ties: %r, mid-rank definition %r' % (float(got_sp), float(exp_sp)), obs=ot.tolist(), ens=st_.tolist()))
    r.bounded_clause('C04 confusion matrix (every pair counted once, requested size, row/column order); scores with transforms = textbook formula of the transformed series; excludenull; Pearson / Spearman with mean / median',
                     'confusion: all pairs of series up to length %d over 2 categories (shorter for 3, 4, 6) + 150 random each; scores: %d random series x 5 transforms' % (lens[-1], 150 if r.tier == 'quick' else 1500), n, n, False, failures=len(bad))
    for b in bad[:3]:
        r.violation(dict(monitor='C04 scores', what=b['what'], detail=str(b.get('transform', b.get('ncat')))), 'bounded monitor: %s differs from its definition' % b['what'], witness=dict(python=True, input=b))


def run(tier):
    r = Run('C04', tier, level='other')
    try:
        T, C, dutils = modules()
        from hydrodiy.stat import metrics as M
        ctxf = lambda: patched_metrics(M, T, C, dutils)
        obls, npaths = binary_obligations(M, ctxf)
        for n in ((2, 3) if tier == 'quick' else (2, 3, 4)):
            o2, p2 = score_obligations(M, T, ctxf, n); obls += o2; npaths += p2
        o3, p3 = excludenull_obligations(M, T, ctxf, 2); obls += o3; npaths += p3
        if tier != 'quick':
            o3, p3 = excludenull_obligations(M, T, ctxf, 3); obls += o3; npaths += p3

        def replay(ob, model):
            if '/binary/' not in ob.id:
                return None
            vals = [model.get(k) for k in ('TN', 'FP', 'FN', 'TP')]
            if any(v is None for v in vals):
                return None
            tn, fp, fn, tp = [max(1, int(round(v))) for v in vals]
            sc, _ = M.binary([[tn, fp], [fn, tp]])
            theta = tp * tn / (fp * fn)
            exp = dict(ORSS=(theta - 1) / (theta + 1), LOR=math.log(theta), hitrate=tp / (tp + fn), falsealarm=fp / (fp + tn), precision=tp / (tp + fp))
            badk = [k for k, v in exp.items() if not (np.isfinite(sc[k]) and abs(sc[k] - v) < 1e-9)]
            if not badk:
                return None
            return dict(source='solver counter-model (rounded to positive integers) replayed on the real metrics.binary', table=[[tn, fp], [fn, tp]], wrong=badk, observed={k: float(sc[k]) for k in badk}, expected={k: exp[k] for k in badk})
        numpy_contracts(r)
        monitors(M, T, r)
        pproof.discharge(r, obls, replay=replay, file='src/hydrodiy/stat/metrics.py', fn_of=lambda ob: ob.id.split('/')[1])
        r.functions = [dict(file='metrics.py', fn=f, trusted=[], nonterminating=[], cutloops=0, unrolled=0, terminating=0) for f in ('binary', 'bias', 'nse', 'kge', 'corr')]
        r.extra['paths_explored'] = npaths
    except (engp.Unsupported, engp.PathLimit) as e:
        # the code under analysis uses a construct the symbolic executor does not support (e.g. after a change of the code): undecided, not a crash
        r.undecided.append('Engine P cannot execute the current code symbolically: %s' % (str(e)[:300],))
    except Exception:
        r.broken.append('C04 driver crashed: ' + traceback.format_exc()[-2500:])
    r.assumptions += ['binary: the four counts are symbolic reals >= 1 (a superset of the positive integer tables of the property)',
                      'score formulas: series lengths 2 and 3 (4 in the thorough tier), Identity transform, values symbolic; numpy mean / std / corrcoef by assumed contracts cross-checked against numpy',
                      'floats as reals; exp / log / sqrt uninterpreted with axiom instances']
    r.explanation = ('proved (Engine P): every score of metrics.binary equals its contingency-table definition for all positive tables (ORSS for every odds ratio); bias / nse definitions and corollaries '
                     '(perfect simulation, observed mean, NSE <= 1, affine / scaling invariance) for series of length 2-3; bounded: confusion matrix, transforms, excludenull, Spearman')
    return r.finish()
