"""C05 - native kernels never touch memory outside their buffers.
L1: every obligation (bounds, frame, integer overflow, division by zero, narrowing, float-to-int casts, malloc/free) of every kernel
    reachable from the Python API is discharged under the kernel's `requires` (Engine C).
L3: the wrappers of the compiled modules are replaced by monitors that evaluate the kernel's `requires` on the actual arguments
    before the kernel is entered, and the public API is driven over boundary shapes / value classes / option extremes (bounded).
    A firing monitor is replayed on the real kernel under ASan+UBSan."""
import math, random, time, traceback
from vf.check import Run
from vf import judge, contract
from vf.harness import group_of
from props import common as cm


def combi_exhaustive(r):
    """c_combi: no signed overflow and the exact binomial for every (n, k) the function accepts (k <= 30 and n-k <= 30), -1 otherwise"""
    h = r.harness('data')
    cases = [(n, k) for n in range(-2, 64) for k in range(-2, 64)] + [(2 ** 31 - 1, 0), (-2 ** 31, 0), (0, 2 ** 31 - 1), (2 ** 31 - 1, 2 ** 31 - 1), (-2 ** 31, 2 ** 31 - 1)]
    res = h.run([('c_combi', [n, k]) for n, k in cases])
    bad = 0; acc = 0
    for (n, k), x in zip(cases, res):
        if x.get('san') or x.get('crashed'):
            bad += 1
            r.violation(dict(function='c_combi', kind='safety', n=n, k=k), 'c_combi(%d, %d): %s' % (n, k, x.get('san', '')[:300]),
                        witness=dict(function='c_combi', file=cm.DUTILS, args=[n, k], observed=dict(sanitizer=x.get('san', '')[:1500])))
            continue
        if k > 30 or n - k > 30:
            ok = x['ret'] == -1
        else:
            acc += 1
            ok = (0 <= k <= n and x['ret'] == math.comb(n, k)) or not (0 <= k <= n)
        if not ok:
            bad += 1
            r.violation(dict(function='c_combi', kind='post', n=n, k=k), 'c_combi(%d, %d) returned %r' % (n, k, x['ret']),
                        witness=dict(function='c_combi', file=cm.DUTILS, args=[n, k], observed=dict(ret=x['ret'])))
    r.bounded_clause('c_combi: no UB and the exact binomial on its whole accepted domain (k <= 30, n-k <= 30) + rejections', 'n, k in [-2, 63] exhaustive + INT extremes',
                     len(cases), len(cases), True, failures=bad)


def l3_child(rec):
    """the API drive itself (child process): returns what the monitors saw"""
    from props import apidrive
    from vf import child
    apidrive.setup()
    mons = cm.install_monitors()
    rng = random.Random(rec.seed)
    p = apidrive.Probe()
    p.progress = child.progress
    from props.monitors import quiet
    crashed = None
    try:
        if rec.tier == 'quick':
            apidrive.LENGTHS[:] = [0, 1, 2, 5]
            apidrive.QUICK[0] = True
        quiet(apidrive.drive_data, p, rng); quiet(apidrive.drive_stat, p, rng); quiet(apidrive.drive_gis, p, rng)
    except Exception:
        crashed = 'L3 driver crashed: ' + traceback.format_exc()[-1500:]
    checked = sum(m.checked for m in mons)
    return dict(kpv=p.kpv, labels=sorted(p.labels), calls=p.calls, pyexc=p.pyexc, ok=p.ok, checked=checked, crashed=crashed)


def l3(r):
    from vf import child
    t0 = time.time()
    res = child.run('props.C05', 'l3_child', r.prop, r.tier, r.seed)
    child.merge(r, res['recorder'])
    out = res['payload']
    if res['signal'] or (res['rc'] != 0 and out is None):
        if res['signal']:
            r.violation(dict(function='interpreter', kind='crash', where=res['progress'].split('|')[0][:120]),
                        'the python interpreter was brought down (%s) by the public API call %s (kernel preconditions held on entry: the kernel itself is unsafe); %s'
                        % (child.signame(res['signal']), res['progress'], res['stderr'][-300:].replace('\n', ' ')),
                        witness=dict(python=True, source='L3 API drive in a child process', api_call=res['progress'], signal=child.signame(res['signal']), stderr=res['stderr'][-1500:]))
        else:
            r.broken.append('L3 child process failed (rc=%s) at %s: %s' % (res['rc'], res['progress'], res['stderr'][-1500:]))
        return
    if out is None:
        r.broken.append('L3 child returned nothing: ' + res['stderr'][-1500:]); return
    if out['crashed']:
        r.broken.append(out['crashed'])
    # replay every firing monitor on the real kernel under ASan/UBSan
    # (a requires evaluated false at the boundary is only a violation of C05 when the kernel then really misbehaves: several firings of the same
    # clause are replayed - the first ones may be harmless - until one is confirmed by the sanitizers)
    confirmed = 0; seen = {}; done = set()
    for k in out['kpv']:
        key = (k['api'].split('|')[0], k['kernel'], k['clause'])
        if key in done or seen.get(key, 0) >= 25:
            continue
        seen[key] = seen.get(key, 0) + 1
        rel = cm.KERNEL_FILE[k['kernel']]
        h = r.harness(group_of(rel))
        res1 = h.run([(k['kernel'], k['args'])])[0]
        if res1.get('san') or res1.get('crashed') or res1.get('timeout'):
            confirmed += 1; done.add(key)
            r.violation(dict(api=key[0], kernel=k['kernel'], kind='safety', clause=k['clause'][:160]),
                        'public API call %s enters %s outside its requires (%s); replay on the real kernel under ASan/UBSan: %s'
                        % (k['api'], k['kernel'], k['clause'][:120], (res1.get('san') or 'timeout')[:200].replace('\n', ' ')),
                        witness=dict(function=k['kernel'], file=rel, args=k['args'], api=k['api'], observed=dict(sanitizer=res1.get('san', '')[:1500])))
        elif seen[key] == 1:
            r.notes.append('L3: %s enters %s outside the stated requires (%s) but the sanitizers report nothing on this input: requires stronger than needed here, not a violation by itself'
                           % (key[0], k['kernel'], k['clause'][:100]))
    r.bounded_clause('L3: public Python API driven over boundary shapes (lengths 0,1,2,3,..,17), value classes (finite, NaN, +-inf, negative, huge) and option extremes; '
                     'kernel requires evaluated on the actual arguments before every kernel entry',
                     '%d API functions, %d API calls, %d kernel entries checked' % (len(out['labels']), out['calls'], out['checked']),
                     out['calls'], out['checked'], False, failures=confirmed,
                     extra=dict(api_functions=out['labels'], python_exceptions=out['pyexc'], returned_normally=out['ok'], monitor_fired=len(out['kpv']), wall_s=round(time.time() - t0, 1)))


def run(tier):
    r = Run('C05', tier, level='proof')
    cm.run_kernels(r, cm.ALL_KERNELS, quick_cap=150)
    try:
        combi_exhaustive(r)
    except Exception:
        r.broken.append('c_combi check crashed: ' + traceback.format_exc()[-1500:])
    l3(r)
    r.notes.append('not under contract (unreachable from the Python API): c_olsleverage, celldist, clipd, clipi, ADinf.c, c_ad_probexactinf/probn/probapproxinf, errfix')
    r.explanation = ('L1 proved for every kernel reachable from the API (Engine C); L3 bounded: requires evaluated before every kernel entry while the public API is driven over '
                     'boundary shapes; static L2 (facts established by the .pyx wrappers) is subsumed by the L3 monitors, which evaluate the complete requires')
    return r.finish()
