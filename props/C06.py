"""C06 - catchment delineation is upstream reachability on the flow grid (relations, area == reachable set, river traces proved; listed once on acyclic grids proved; hole filling bounded)."""
from vf.check import Run
from props import common as cm


def run(tier):
    r = Run('C06', tier, level='other')
    cm.run_kernels(r, cm.kernels('c_neighbours', 'c_upstream', 'c_downstream', 'c_delineate_area', 'c_delineate_area#reach', 'c_delineate_area#once', 'c_delineate_river',
                                 'c_delineate_flowpathlengths_in_catchment'))
    cm.run_monitors(r, ['mon_area', 'mon_updown', 'mon_paths'])
    cm.lean_lemma(r, tier, 'Reach.lean', 'listed_iff_reach', 'c_delineate_area#reach',
                  'SOUND and CLOSED (the two post-conditions of c_delineate_area#reach) together say: a cell other than the outlet is listed exactly when its '
                  'downstream chain reaches the outlet through cells that are not inlets',
                  'the step from the two proved post-conditions of c_delineate_area#reach (SOUND, CLOSED) to "listed <=> reaches the outlet" is an induction '
                  'external to the SMT proof; its Lean proof (lean/Reach.lean, theorem listed_iff_reach) is re-checked by the thorough tier')
    r.assumptions += ['c_delineate_area#once: the grid is assumed to have no flow cycle (a height function strictly decreasing along the downstream relation exists); on cyclic grids "listed once" is covered by the bounded monitor only',
                      'c_delineate_area#reach / #once: the ESRI direction table and a result vector pre-filled with -1 are preconditions (grid.py provides both; checked at kernel entry by the bounded monitor mon_area)']
    r.explanation = ('proved (Engine C): upstream/downstream contracts and the lemma that they are inverse relations (updown_inverse, nbr_mirror); '
                     'c_delineate_area#reach: on success every listed cell is the outlet or a non-inlet cell whose downstream cell is the outlet or listed earlier, '
                     'every non-inlet cell draining into the outlet or a listed cell is listed, the outlet is listed when anything is, the rest of the vector keeps -1 '
                     '(=> listed <=> reaches the outlet, lean/Reach.lean); river trace follows the downstream chain with row/column offsets and cumulated '
                     'Euclidean distance, memory safety and termination of the area delineation; c_delineate_area#once: on a grid without flow cycles (height function) '
                     'a successful run lists every cell at most once; bounded: hole filling, python wrappers, cyclic grids '
                     '(monitor with a fix-point oracle)')
    return r.finish()
