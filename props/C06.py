"""C06 - catchment delineation is upstream reachability on the flow grid (relations, river traces, flow paths proved; area set equality bounded)."""
from vf.check import Run
from props import common as cm


def run(tier):
    r = Run('C06', tier, level='other')
    cm.run_kernels(r, cm.kernels('c_neighbours', 'c_upstream', 'c_downstream', 'c_delineate_area', 'c_delineate_river',
                                 'c_delineate_flowpathlengths_in_catchment'))
    cm.run_monitors(r, ['mon_area', 'mon_updown', 'mon_paths'])
    r.explanation = ('proved (Engine C): upstream/downstream contracts and the lemma that they are inverse relations (updown_inverse, nbr_mirror), '
                     'river trace follows the downstream chain with row/column offsets and cumulated Euclidean distance, memory safety and termination '
                     'of the area delineation; bounded: area == reachable set (python monitor with a fix-point oracle)')
    return r.finish()
