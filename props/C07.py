"""C07 - grid cell numbers, rows/columns and coordinates are mutually consistent."""
from vf.check import Run
from props import common as cm


def run(tier):
    r = Run('C07', tier, level='proof')
    cm.run_kernels(r, cm.kernels('getnxy', 'getcoord', 'c_coord2cell', 'c_cell2rowcol', 'c_cell2coord', 'c_neighbours'))
    r.explanation = ('Engine C: VCs generated from the clang AST of the real c_grid.c (numbering, centres, footprint -> cell, outside -> -1, '
                     'neighbour slots, lemmas nbr_mirror / footprint_forms over the specs), discharged by z3/cvc5; bounded clauses are '
                     'differential runs of the real kernels under ASan/UBSan and are not counted as proved')
    try:
        import traceback
        from vf import pproof, engp
        obls, npaths = wrapper_obligations()
        pproof.discharge(r, obls, file='src/hydrodiy/gis/grid.py', fn_of=lambda ob: ob.id.split('/')[1] + ' (python wrapper)')
        r.functions += [dict(file='grid.py', fn=f + ' (python wrapper)', trusted=['c_hydrodiy_gis (replaced by a recorder: its behaviour is the proved kernel contract)'], nonterminating=[], cutloops=0, unrolled=0, terminating=0) for f in ('Grid.coord2cell', 'Grid.cell2coord')]
        r.extra['paths_explored'] = npaths
    except (engp.Unsupported, engp.PathLimit) as e:
        r.undecided.append('Engine P cannot execute the current Grid wrappers symbolically: %s' % (str(e)[:300],))
    except Exception:
        r.broken.append('C07 Engine P driver crashed: ' + traceback.format_exc()[-2500:])
    cm.run_monitors(r, ['mon_grid_api'])
    return r.finish()


# ------------------------------------------------------------------------------------------------ Engine P: the python wrappers Grid.coord2cell / cell2coord
def wrapper_obligations():
    """the real Grid.coord2cell / Grid.cell2coord with the compiled module replaced by a recorder: the kernel is entered once with the grid's own
    geometry (rows, columns, corner, cell size), the caller's coordinates / cell numbers unchanged and an output buffer of the right shape;
    what the kernel wrote is returned.  Grid shapes are enumerated (incl. non-square), coordinates and the geometry's real numbers are symbolic."""
    import numpy as np, z3
    from vf import engp, pproof, pybuild
    from vf.engp import sym, SymReal, SA
    pybuild.activate()
    from hydrodiy.gis import grid as G

    class Kernel:
        def __init__(self):
            self.calls = []

        def coord2cell(self, nrows, ncols, xll, yll, csz, xycoords, idxcell):
            self.calls.append(dict(fn='coord2cell', nrows=int(nrows), ncols=int(ncols), geo=(xll, yll, csz), xy=np.asarray(xycoords, dtype=object).copy(), out0=[int(v) for v in idxcell], odtype=np.asarray(idxcell).dtype))
            idxcell[:] = [5, -1, 0][:len(idxcell)]
            return 0

        def cell2coord(self, nrows, ncols, xll, yll, csz, idxcells, xycoords):
            self.calls.append(dict(fn='cell2coord', nrows=int(nrows), ncols=int(ncols), geo=(xll, yll, csz), cells=[int(v) for v in idxcells], cdtype=np.asarray(idxcells).dtype, oshape=np.shape(xycoords)))
            self.written = np.arange(2 * len(idxcells), dtype=float).reshape(len(idxcells), 2) + 0.5
            xycoords[:] = self.written
            return 0

    obls = []; npaths = 0
    npt = 3
    P = [[sym('p%d_%d' % (i, k)) for k in range(2)] for i in range(npt)]
    gx, gy, gc = sym('xll'), sym('yll'), sym('csz')
    names = ['p%d_%d' % (i, k) for i in range(npt) for k in range(2)] + ['xll', 'yll', 'csz']
    eq = lambda a, b: z3.And(z3.Not(SymReal.lift(a).nan), SymReal.lift(a).val == SymReal.lift(b).val)
    for (nr, nc) in ((1, 1), (2, 5), (7, 3)):
        for fn in ('coord2cell', 'cell2coord'):
            kern = Kernel()

            def run():
                kern.calls = []
                g = G.Grid('g', ncols=nc, nrows=nr)
                g.xllcorner = gx; g.yllcorner = gy; g.cellsize = gc          # the grid's own geometry, as real numbers
                if fn == 'coord2cell':
                    a = np.empty((npt, 2), dtype=object)
                    for i in range(npt):
                        a[i, :] = P[i]
                    return g.coord2cell(a.view(SA)), list(kern.calls)
                return g.cell2coord([0, nr * nc - 1, 1 if nr * nc > 1 else 0]), list(kern.calls)
            saved = (G.np, G.c_hydrodiy_gis, G.has_c_module)
            G.np = engp.NPProxy(); G.c_hydrodiy_gis = kern; G.has_c_module = lambda *a, **kw: True
            try:
                paths = engp.explore(run, base=[gc.val > 0], allowed_exc=())
            finally:
                G.np, G.c_hydrodiy_gis, G.has_c_module = saved
            npaths += len(paths)
            for kp, pa in enumerate(paths):
                out, calls = pa.result
                hyp = [gc.val > 0] + list(pa.pc) + list(pa.axioms)
                tag = 'grid.py/Grid.%s/%dx%d/path%d' % (fn, nr, nc, kp)
                if len(calls) != 1:
                    obls.append(pproof.PObligation(tag + '/one-kernel-call', 'post', 'the kernel is entered exactly once', hyp, z3.BoolVal(False), names)); continue
                c = calls[0]
                obls.append(pproof.PObligation(tag + '/geometry', 'post', 'the kernel receives the number of rows and columns and the corner / cell size of the grid itself', hyp,
                                               z3.And(z3.BoolVal(c['nrows'] == nr and c['ncols'] == nc), eq(c['geo'][0], gx), eq(c['geo'][1], gy), eq(c['geo'][2], gc)), names))
                if fn == 'coord2cell':
                    obls.append(pproof.PObligation(tag + '/coordinates', 'post', 'the kernel receives the coordinates unchanged (x in the first column, y in the second) and a zeroed int64 buffer of one cell number per point', hyp,
                                                   z3.And(z3.BoolVal(c['xy'].shape == (npt, 2) and c['out0'] == [0] * npt and c['odtype'] == np.int64), *[eq(c['xy'][i, k], P[i][k]) for i in range(npt) for k in range(2)]), names))
                    obls.append(pproof.PObligation(tag + '/returns-kernel-output', 'post', 'the cell numbers written by the kernel are returned', hyp, z3.BoolVal([int(v) for v in out] == [5, -1, 0]), names))
                else:
                    want = [0, nr * nc - 1, 1 if nr * nc > 1 else 0]
                    obls.append(pproof.PObligation(tag + '/cells', 'post', 'the kernel receives the cell numbers unchanged (int64) and an n x 2 buffer', hyp,
                                                   z3.BoolVal(c['cells'] == want and c['cdtype'] == np.int64 and tuple(c['oshape']) == (3, 2)), names))
                    obls.append(pproof.PObligation(tag + '/returns-kernel-output', 'post', 'the coordinates written by the kernel are returned', hyp, z3.BoolVal(bool(np.array_equal(np.asarray(out, dtype=float), kern.written))), names))
    return obls, npaths
