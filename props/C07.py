"""C07 - grid cell numbers, rows/columns and coordinates are mutually consistent."""
from vf.check import Run
from props import common as cm
import contracts.c_grid


def run(tier):
    r = Run('C07', tier, level='proof')
    fns = ['getnxy', 'getcoord', 'c_coord2cell', 'c_cell2rowcol', 'c_cell2coord', 'c_neighbours']
    gens = {(cm.GRID, 'getnxy'): cm.gen_getnxy, (cm.GRID, 'getcoord'): cm.gen_getcoord, (cm.GRID, 'c_coord2cell'): cm.gen_coord2cell,
            (cm.GRID, 'c_cell2rowcol'): cm.gen_cell2rowcol, (cm.GRID, 'c_cell2coord'): cm.gen_cell2coord, (cm.GRID, 'c_neighbours'): cm.gen_neighbours}
    r.c_proofs([(cm.GRID, f) for f in fns], generators=gens)
    r.assumptions += ['doubles modelled as mathematical reals plus a NaN flag (no rounding, no infinities)',
                      'SANE: 1 <= nrows, ncols <= 2**30, nval <= 2**60 (magnitude restriction on scalars coming from Python)']
    r.explanation = ('Engine C: VCs generated from the clang AST of the real c_grid.c, discharged by z3/cvc5; '
                     'bounded clauses are differential runs of the real kernels under ASan/UBSan, not counted as proved')
    return r.finish()
