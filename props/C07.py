"""C07 - grid cell numbers, rows/columns and coordinates are mutually consistent."""
from vf.check import Run
from props import common as cm


def run(tier):
    r = Run('C07', tier, level='proof')
    cm.run_kernels(r, cm.kernels('getnxy', 'getcoord', 'c_coord2cell', 'c_cell2rowcol', 'c_cell2coord', 'c_neighbours'))
    r.explanation = ('Engine C: VCs generated from the clang AST of the real c_grid.c (numbering, centres, footprint -> cell, outside -> -1, '
                     'neighbour slots, lemmas nbr_mirror / footprint_forms over the specs), discharged by z3/cvc5; bounded clauses are '
                     'differential runs of the real kernels under ASan/UBSan and are not counted as proved')
    cm.run_monitors(r, ['mon_grid_api'])
    return r.finish()
