"""C08 - temporal aggregation and disaggregation reduce by group and conserve totals."""
from vf.check import Run
from props import common as cm


def run(tier):
    r = Run('C08', tier, level='other')
    cm.run_kernels(r, cm.kernels('c_aggregate', 'c_flathomogen'), quick_cap=1500)
    try:
        import traceback
        from vf import pproof, engp
        obls, npaths = wrapper_obligations()
        pproof.discharge(r, obls, file='src/hydrodiy/data/dutils.py', fn_of=lambda ob: ob.id.split('/')[1] + ' (python wrapper)')
        r.functions += [dict(file='dutils.py', fn=f + ' (python wrapper)', trusted=['c_hydrodiy_data (replaced by a recorder: its behaviour is the proved kernel contract)'], nonterminating=[], cutloops=0, unrolled=0, terminating=0) for f in ('aggregate', 'flathomogen')]
        r.extra['paths_explored'] = npaths
    except (engp.Unsupported, engp.PathLimit) as e:
        r.undecided.append('Engine P cannot execute the current dutils wrappers symbolically: %s' % (str(e)[:300],))
    except Exception:
        r.broken.append('C08 Engine P driver crashed: ' + traceback.format_exc()[-2500:])
    from vf import child
    res = child.run('props.C08', 'monitors_child', r.prop, r.tier, r.seed)
    child.merge(r, res['recorder'])
    if res['rc'] != 0:
        r.broken.append('C08 monitors child failed (rc=%s) at %s: %s' % (res['rc'], res['progress'], res['stderr'][-1500:]))
    r.explanation = ('proved (Engine C): c_aggregate returns, per run of equal index, the sum / mean / maximum / last of the non-missing inputs or NaN beyond maxnan, '
                     'one value per run in order, error on a decreasing index; c_flathomogen keeps missing values and writes the group mean elsewhere; '
                     'bounded: monthly2daily and conservation of totals (python monitors)')
    return r.finish()


# ------------------------------------------------------------------------------------------------ python-level bounded monitor
def _fail(rec, name, what, **w):
    rec.violation(dict(function=name, kind='monitor', clause=what.split(':')[0][:80]), 'bounded monitor %s: %s' % (name, what), witness=dict(python=True, source='bounded monitor', **w))


def monitors_child(rec):
    import random, warnings, math
    import numpy as np
    from props import apidrive
    from vf import child
    apidrive.setup()
    import pandas as pd
    from hydrodiy.data import dutils as D
    warnings.simplefilter('ignore')
    rng = random.Random(rec.seed + 8); nrng = np.random.default_rng(rec.seed + 80)
    quick = rec.tier == 'quick'
    DD = child.Distinct().wrap(D, 'aggregate').wrap(D, 'flathomogen').wrap(D, 'monthly2daily')
    # ---- aggregate / flathomogen through the API
    ev = 0; bad = 0
    for it in range(300 if quick else 3000):
        child.progress('aggregate %d' % it)
        n = rng.choice([1, 2, 3, 5, 12, 40])
        kind = rng.choice(['const', 'incr', 'runs', 'big', 'neg'])
        if kind == 'const':
            idx = np.full(n, rng.choice([0, 7, -3]))
        elif kind == 'incr':
            idx = np.arange(n) * rng.choice([1, 3]) + rng.choice([0, -10, 200001])
        else:
            steps = [rng.choice([0, 0, 0, 1, 2]) for _ in range(n)]
            base = {'runs': 0, 'big': 2 ** 31 - 1 - 2 * n - 5, 'neg': -2 ** 31 + 1}[kind]
            idx = base + np.cumsum(steps)
        vals = np.array([rng.choice([0.0, 1.0, -2.5, 7.0, 0.125, float('nan'), float('nan'), 1e6]) for _ in range(n)])
        pat = rng.choice(['any', 'leadnan', 'trailnan', 'nonan'])
        if pat == 'leadnan':
            vals[0] = np.nan
        elif pat == 'trailnan':
            vals[-1] = np.nan
        elif pat == 'nonan':
            vals = np.where(np.isnan(vals), 2.0, vals)
        groups = []
        for k in range(n):
            if k == 0 or idx[k] != idx[k - 1]:
                groups.append([])
            groups[-1].append(k)
        for maxnan in (0, 1, 3, n + 1):
            for op in (0, 1, 2, 3):
                ev += 1
                out = D.aggregate(idx, vals, op, maxnan)
                ok = len(out) == len(groups)
                for g, o in zip(groups, out if ok else []):
                    v = vals[g]; nn = v[~np.isnan(v)]; nnan = int(np.isnan(v).sum())
                    if nnan > maxnan:
                        ok = ok and np.isnan(o)
                    elif len(nn) == 0:
                        ok = ok and (op != 0 or o == 0.0 or np.isnan(o))        # only the sum operator is constrained for empty groups (0 or missing)
                    else:
                        exp = [nn.sum(), nn.mean(), nn.max(), nn[-1]][op]
                        ok = ok and not np.isnan(o) and abs(o - exp) <= 1e-9 * max(1.0, abs(exp))
                if ok and op == 0 and maxnan >= n:
                    tot = np.nansum(vals)
                    ok = abs(np.nansum(out) - tot) <= 1e-9 * max(1.0, abs(tot))
                if not ok:
                    bad += 1; _fail(rec, 'aggregate', 'groups: operator %d maxnan %d: result %r for groups of %r' % (op, maxnan, [float(o) for o in out], [vals[g].tolist() for g in groups][:8]), aggindex=idx.tolist(), inputs=[repr(v) for v in vals]); break
            ev += 1
            fh = D.flathomogen(idx, vals, maxnan)
            ok = len(fh) == n
            for g in groups:
                v = vals[g]; nn = v[~np.isnan(v)]; nnan = int(np.isnan(v).sum())
                o = fh[g]
                if nnan > maxnan or len(nn) == 0:
                    ok = ok and bool(np.all(np.isnan(o)))
                else:
                    m = nn.mean()
                    ok = ok and bool(np.all(np.isnan(o[np.isnan(v)]))) and bool(np.all(np.abs(o[~np.isnan(v)] - m) <= 1e-9 * max(1.0, abs(m)))) \
                        and abs(np.nansum(o) - nn.sum()) <= 1e-9 * max(1.0, abs(nn.sum()))
            if not ok:
                bad += 1; _fail(rec, 'flathomogen', 'groups: maxnan %d: result %r' % (maxnan, [repr(float(o)) for o in fh][:20]), aggindex=idx.tolist(), inputs=[repr(v) for v in vals])
        # a decreasing index is rejected
        if n >= 2:
            ev += 1
            bi = idx.copy(); k = rng.randrange(1, n); bi[k:] = bi[k:] - (int(bi[k] - bi[k - 1]) + 1)
            for fn, args in ((D.aggregate, (bi, vals)), (D.flathomogen, (bi, vals))):
                try:
                    fn(*args); bad += 1; _fail(rec, fn.__name__ if hasattr(fn, '__name__') else 'aggregate', 'decreasing: an index that decreases is accepted', aggindex=bi.tolist()); break
                except ValueError:
                    pass
    rec.bounded_clause('aggregate / flathomogen through the API: one value per run in order == sum / mean / max / last of the non-missing inputs or NaN beyond maxnan; flathomogen keeps missing entries and group totals; totals conserved; decreasing index rejected',
                       '%d index / input vectors (constant, increasing, runs, near +-2**31; NaN leading / trailing / whole groups) x 4 operators x 4 maxnan' % (300 if quick else 3000), ev, DD.n('aggregate', 'flathomogen'), False, bad)
    # ---- monthly2daily
    ev = 0; bad = 0
    for it in range(60 if quick else 600):
        child.progress('monthly2daily %d' % it)
        nm = rng.choice([2, 3, 12, 13, 25, 60, 240]) if not quick else rng.choice([2, 3, 12, 13, 25, 60])
        y0 = rng.choice([1899, 1900, 1999, 2000, 2003, 2004, 2023, 2024, 2100]); m0 = rng.randint(1, 12)
        idx = pd.date_range('%d-%02d-01' % (y0, m0), periods=nm, freq='MS')
        vals = np.round(np.abs(nrng.normal(size=nm)) * rng.choice([1.0, 100.0, 0.01]), 6)
        if rng.random() < 0.2:
            vals[rng.randrange(nm)] = 0.0
        sem = pd.Series(vals, index=idx)
        for interp in ('flat', 'cubic'):
            ev += 1
            try:
                sed = D.monthly2daily(sem, interp)
                days = pd.date_range(idx[0], idx[-1] + pd.offsets.MonthEnd(0), freq='D')
                ok = len(sed) == len(days) and bool((sed.index == days).all())
                why = 'one value per calendar day (%d values for %d days)' % (len(sed), len(days))
                if ok:
                    ms = sed.groupby([sed.index.year, sed.index.month]).sum().values
                    ok = len(ms) == nm and bool(np.all(np.abs(ms - vals) <= 1e-8 * np.maximum(1.0, np.abs(vals))))
                    why = 'monthly sums differ from the monthly input (max error %r)' % (float(np.max(np.abs(ms - vals))) if len(ms) == nm else None)
                if not ok:
                    bad += 1; _fail(rec, 'monthly2daily', 'totals: %s (%s)' % (why, interp), start=str(idx[0].date()), months=nm, values=vals.tolist()[:40], interpolation=interp)
            except Exception as e:
                bad += 1; _fail(rec, 'monthly2daily', 'raises: %s %s (%s)' % (type(e).__name__, str(e)[:150], interp), start=str(idx[0].date()), months=nm, values=vals.tolist()[:40])
    rec.bounded_clause('monthly2daily (flat / cubic): one value per calendar day, sum over each month == the monthly input', '%d month-start series of 2..240 months starting in any month of 9 years (leap years, 1900, 2100) with non-negative values' % (60 if quick else 600),
                       ev, DD.n('monthly2daily'), False, bad)


# ------------------------------------------------------------------------------------------------ Engine P: the python wrappers of c_aggregate / c_flathomogen
def wrapper_obligations():
    """the real dutils.aggregate / flathomogen executed on a symbolic input series with the compiled module replaced by a recorder: the kernel is
    entered once with the operator, maxnan, the index and the series unchanged and buffers of the right size; aggregate returns the first
    `iend` values the kernel wrote, flathomogen the whole buffer; series of different length than the index are rejected."""
    import numpy as np, z3
    from vf import engp, pproof, pybuild
    from vf.engp import sym, SymReal, SA
    pybuild.activate()
    from hydrodiy.data import dutils as D

    class Kernel:
        def __init__(self):
            self.calls = []

        def aggregate(self, operator, maxnan, aggindex, inputs, outputs, iend):
            self.calls.append(dict(fn='aggregate', operator=operator, maxnan=maxnan, aggindex=np.array(aggindex), inputs=list(np.asarray(inputs, dtype=object).ravel()), nout=len(outputs), iend0=int(iend[0]),
                                   dtypes=(np.asarray(aggindex).dtype, type(operator), type(maxnan), np.asarray(iend).dtype)))
            outputs[:] = [sym('out%d' % i) for i in range(len(outputs))]; iend[0] = self.k
            self.written = list(outputs); return 0

        def flathomogen(self, maxnan, aggindex, inputs, outputs):
            self.calls.append(dict(fn='flathomogen', maxnan=maxnan, aggindex=np.array(aggindex), inputs=list(np.asarray(inputs, dtype=object).ravel()), nout=len(outputs),
                                   dtypes=(np.asarray(aggindex).dtype, type(maxnan))))
            outputs[:] = [sym('out%d' % i) for i in range(len(outputs))]
            self.written = list(outputs); return 0

    obls = []; npaths = 0
    n = 4
    x = [SymReal(z3.Real('x%d' % i), z3.Bool('x%d!nan' % i)) for i in range(n)]
    names = ['x%d' % i for i in range(n)]
    eq = lambda a, b: z3.Or(z3.And(SymReal.lift(a).nan, SymReal.lift(b).nan), z3.And(z3.Not(SymReal.lift(a).nan), z3.Not(SymReal.lift(b).nan), SymReal.lift(a).val == SymReal.lift(b).val))
    idx = np.array([200001, 200001, 200002, 200005])
    for fn in ('aggregate', 'flathomogen'):
        for (op, maxnan, kout) in ((0, 0, 3), (2, 1, 1), (3, 5, 0)):
            kern = Kernel(); kern.k = kout

            def run():
                kern.calls = []
                v = np.empty(n, dtype=object); v[:] = x
                if fn == 'aggregate':
                    return D.aggregate(idx, v.view(SA), op, maxnan), list(kern.calls)
                return D.flathomogen(idx, v.view(SA), maxnan), list(kern.calls)
            saved = (D.np, D.c_hydrodiy_data, D.has_c_module)
            D.np = engp.NPProxy(); D.c_hydrodiy_data = kern; D.has_c_module = lambda *a, **kw: True
            try:
                paths = engp.explore(run, base=[], allowed_exc=())
            finally:
                D.np, D.c_hydrodiy_data, D.has_c_module = saved
            npaths += len(paths)
            for kp, pa in enumerate(paths):
                out, calls = pa.result
                hyp = list(pa.pc) + list(pa.axioms)
                tag = 'dutils.py/%s/op=%d,maxnan=%d/path%d' % (fn, op, maxnan, kp)
                if len(calls) != 1:
                    obls.append(pproof.PObligation(tag + '/one-kernel-call', 'post', 'the kernel is entered exactly once', hyp, z3.BoolVal(False), names)); continue
                c = calls[0]
                okscal = int(c['maxnan']) == maxnan and (fn != 'aggregate' or (int(c['operator']) == op and c['iend0'] == 0)) and c['aggindex'].tolist() == idx.tolist() and c['dtypes'][0] == np.int32 and c['nout'] == n
                obls.append(pproof.PObligation(tag + '/scalars-index-buffers', 'post', '%s passes operator / maxnan / the index (as int32) unchanged and an output buffer of the length of the series' % fn, hyp, z3.BoolVal(bool(okscal)), names))
                obls.append(pproof.PObligation(tag + '/series', 'post', '%s passes the series unchanged (missing values stay missing)' % fn, hyp, z3.And(z3.BoolVal(len(c['inputs']) == n), *[eq(c['inputs'][i], x[i]) for i in range(min(n, len(c['inputs'])))]), names))
                o = list(np.asarray(out, dtype=object).ravel())
                want = kern.written[:kout] if fn == 'aggregate' else kern.written
                obls.append(pproof.PObligation(tag + '/returns-kernel-output', 'post', '%s returns %s' % (fn, 'the first iend values the kernel wrote' if fn == 'aggregate' else 'the buffer the kernel wrote'), hyp,
                                               z3.And(z3.BoolVal(len(o) == len(want)), *[eq(o[i], want[i]) for i in range(min(len(o), len(want)))]), names))
    # length mismatch is rejected before the kernel is entered
    for fn in ('aggregate', 'flathomogen'):
        kern = Kernel(); kern.k = 0
        saved = (D.np, D.c_hydrodiy_data, D.has_c_module)
        D.np = engp.NPProxy(); D.c_hydrodiy_data = kern; D.has_c_module = lambda *a, **kw: True
        try:
            v = np.empty(n - 1, dtype=object); v[:] = x[:n - 1]
            try:
                getattr(D, fn)(idx, v.view(SA)); rejected = False
            except ValueError:
                rejected = True
        finally:
            D.np, D.c_hydrodiy_data, D.has_c_module = saved
        obls.append(pproof.PObligation('dutils.py/%s/length-mismatch' % fn, 'post', '%s rejects a series whose length differs from the index without entering the kernel' % fn, [], z3.BoolVal(rejected and not kern.calls), names))
    return obls, npaths
