"""C08 - temporal aggregation and disaggregation reduce by group and conserve totals."""
from vf.check import Run
from props import common as cm


def run(tier):
    r = Run('C08', tier, level='other')
    cm.run_kernels(r, cm.kernels('c_aggregate', 'c_flathomogen'), quick_cap=1500)
    r.explanation = ('proved (Engine C): c_aggregate returns, per run of equal index, the sum / mean / maximum / last of the non-missing inputs or NaN beyond maxnan, '
                     'one value per run in order, error on a decreasing index; c_flathomogen keeps missing values and writes the group mean elsewhere; '
                     'bounded: monthly2daily and conservation of totals (python monitors)')
    return r.finish()
