"""C09 - CSV files with comment headers round-trip through write_csv / read_csv.
No deductive part: the functions are file I/O, regular expressions, zipfile and pandas' CSV writer / parser, none of which has a contract
within reach of the verifiers available here (see DESIGN.md).  The property is stated as a sidecar contract on the real pair
(write_csv, read_csv) - precondition = the property's quantifier, postcondition = the property's statement - and that contract is
evaluated at run time over a bounded family of frames, comments, storage modes and float formats.  Everything here is labelled bounded."""
import os, random, shutil, tempfile, traceback, warnings, zipfile, string
import numpy as np
from vf.check import Run

VERIF = os.path.dirname(os.path.dirname(os.path.abspath(__file__)))


# ------------------------------------------------------------------------------------------------ the contract
def pre(df, comment, mode, float_format):
    """quantifier of C09"""
    import pandas as pd
    ok_name = lambda c: isinstance(c, str) and len(c) >= 1 and all(ch.isalnum() or ch in ' -_' for ch in c) and c == c.strip()
    return (len(df) >= 1 and len(set(df.columns)) == len(df.columns) and all(ok_name(c) for c in df.columns)
            and all(k == k.lower() and 1 <= len(k) <= 25 and all(ch.isalnum() or ch == '_' for ch in k) and '\n' not in str(v) and str(v) == str(v).strip() and str(v) != '' for k, v in comment.items()))


def post(df, comment, float_format, back, cback):
    """statement of C09; returns the list of violated clauses"""
    import pandas as pd
    bad = []
    if list(back.columns) != list(df.columns):
        bad.append('column names %r != %r' % (list(back.columns), list(df.columns)))
        return bad
    if len(back) != len(df):
        bad.append('%d rows != %d' % (len(back), len(df)))
        return bad
    for c in df.columns:
        a = df[c]; b = back[c]
        if a.dtype.kind in 'iu':
            if not np.array_equal(a.values, np.asarray(b.values, dtype=float).astype(a.dtype)):
                bad.append('integer column %r differs' % c)
        elif a.dtype.kind == 'f':
            want = np.array([float(float_format % v) if np.isfinite(v) else v for v in a.values])
            got = np.asarray(b.values, dtype=float)
            # pandas' default float parser may be off by an ulp from the printed decimal: far below the precision of any float format
            fin = np.isfinite(want)
            if not (np.array_equal(np.isnan(want), np.isnan(got)) and np.array_equal(want[~fin & ~np.isnan(want)], got[~fin & ~np.isnan(want)]) and np.all(np.abs(want[fin] - got[fin]) <= 4e-16 * np.abs(want[fin]))):
                bad.append('float column %r differs beyond the precision of %s' % (c, float_format))
        else:
            for x, y in zip(a.values, b.values):
                if x != '' and x != y:
                    bad.append('text value %r came back as %r in column %r' % (x, y, c)); break
    for k, v in comment.items():
        if cback.get(k) != str(v):
            bad.append('comment %r: %r came back as %r' % (k, v, cback.get(k)))
    if cback.get('nrow') != str(len(df)) or cback.get('ncol') != str(df.shape[1]):
        bad.append('recorded counts nrow=%r ncol=%r for a %dx%d frame' % (cback.get('nrow'), cback.get('ncol'), len(df), df.shape[1]))
    return bad


# ------------------------------------------------------------------------------------------------ bounded evaluation
def frames(rng, nrng, quick):
    import pandas as pd
    names_pool = ['a', 'B2', 'col 1', 'x-y', 'under_score', 'Rain mm', 'Q', '0', 'long name with spaces', 'a-b_c 9']
    # text per the quantifier of C09 (commas, quotes, colons, hashes); strings that read as numbers / booleans / missing values are left out: a CSV
    # file carries no types, a column made only of such strings cannot come back as text from any CSV reader (not a property of hydrodiy)
    texts = ['plain', 'with, comma', 'say "hi"', 'a:b', '#hash', "it's", 'x;y', 'tab here', ' lead', 'trail ', 'a,"b",c', 'gauge #12', 'time: 09:00', 'id-0012x']
    out = []
    for _ in range(40 if quick else 400):
        ncol = rng.randint(1, 5); nrow = rng.choice([1, 2, 3, 10, 57])
        cols = rng.sample(names_pool, ncol)
        d = {}
        for c in cols:
            kind = rng.choice(['float', 'int', 'text', 'floatnan', 'big'])
            if kind == 'float':
                d[c] = nrng.normal(size=nrow)
            elif kind == 'floatnan':
                v = nrng.normal(size=nrow) * 1000; v[nrng.random(size=nrow) < 0.3] = np.nan; d[c] = v
            elif kind == 'big':
                d[c] = nrng.normal(size=nrow) * rng.choice([1e-7, 1e9, 123456.789])
            elif kind == 'int':
                d[c] = nrng.integers(-10 ** 6, 10 ** 6, size=nrow)
            else:
                d[c] = [rng.choice(texts) for _ in range(nrow)]
        out.append(pd.DataFrame(d, columns=cols))
    return out


def comments(rng):
    keys = ['source', 'site_id', 'unit', 'k2', 'a' * 25, 'note_1', 'x']
    vals = ['gauge 410730', 'time 12:30:00 UTC', 'm3/s', 'a : b : c', 'http://example.org/x?y=1', 'value with # hash', '42', 'ends with colon:', 'comma, separated', '3.14']
    n = rng.randint(0, 4)
    return {k: rng.choice(vals) for k in rng.sample(keys, n)}


def monitors_child(rec):
    from props import apidrive
    from vf import child
    apidrive.setup()
    import pandas as pd
    from hydrodiy.io import csv as C
    warnings.simplefilter('ignore')
    rng = random.Random(rec.seed + 9); nrng = np.random.default_rng(rec.seed + 90)
    quick = rec.tier == 'quick'
    tmp = tempfile.mkdtemp(prefix='c09_', dir=os.path.join(VERIF, '.cache'))
    src = os.path.join(tmp, 'script.py'); open(src, 'w').close()
    ev = 0; bad = 0; byclause = {}; seen = set()
    modes = ['plain', 'zip-csv', 'zip-zip', 'zip-noext', 'archive']
    try:
        for k, df in enumerate(frames(rng, nrng, quick)):
            com = comments(rng)
            ff = rng.choice(['%0.5f', '%0.2f', '%0.10e', '%0.8f'])
            for mode in modes:
                child.progress('write/read %s frame %d' % (mode, k))
                if not pre(df, com, mode, ff):
                    continue
                ev += 1
                seen.add((mode, ff, tuple(df.columns), df.shape, repr(df.iloc[0].tolist()), tuple(sorted(com.items()))))
                if len(rec.samples) < 4:
                    rec.samples.append(dict(kind='round-trip case', mode=mode, float_format=ff, comment=com, first_rows={c: [repr(v) for v in df[c].tolist()[:3]] for c in df.columns}, nrow=len(df)))
                base = os.path.join(tmp, 'f%d_%s' % (k, mode.replace('-', '_')))
                try:
                    if mode == 'plain':
                        fn = base + '.csv'
                        C.write_csv(df, fn, com, src, compress=False, float_format=ff, write_sys_info=rng.random() < 0.3)
                        back, cb = C.read_csv(fn)
                    elif mode.startswith('zip'):
                        fn = base + {'zip-csv': '.csv', 'zip-zip': '.zip', 'zip-noext': ''}[mode]
                        C.write_csv(df, fn, com, src, compress=True, float_format=ff, write_sys_info=False)
                        back, cb = C.read_csv(fn)
                    else:
                        zf = base + '_arch.zip'; member = 'sub/folder/data_%d.csv' % k
                        with zipfile.ZipFile(zf, 'w') as ar:
                            C.write_csv(df, member, com, src, archive=ar, float_format=ff, write_sys_info=False)
                        with zipfile.ZipFile(zf, 'r') as ar:
                            back, cb = C.read_csv(member, archive=ar)
                    viol = post(df, com, ff, back, cb)
                except Exception as e:
                    viol = ['%s raised %s: %s' % (mode, type(e).__name__, str(e)[:150])]
                if viol:
                    bad += 1
                    cl = '%s: %s' % (mode, viol[0].split(' ')[0])
                    if byclause.setdefault(cl, 0) < 2:
                        byclause[cl] += 1
                        rec.violation(dict(function='write_csv/read_csv', kind='roundtrip', clause=mode + ' ' + viol[0][:60]), 'bounded contract check write_csv -> read_csv (%s): %s' % (mode, '; '.join(viol)[:400]),
                                      witness=dict(python=True, source='bounded contract evaluation', mode=mode, float_format=ff, comment=com, frame={c: [repr(v) for v in df[c].tolist()[:12]] for c in df.columns}))
    finally:
        shutil.rmtree(tmp, ignore_errors=True)
    rec.bounded_clause('write_csv -> read_csv: same column names and row count, equal non-empty text, integers equal, floats equal to the precision of the float format, caller comments + nrow / ncol returned unchanged',
                       '%d frames (1-5 columns of float / NaN / large / integer / text with commas, quotes, colons, hashes; 1-57 rows) x 5 storage modes (plain, zip with .csv / .zip / no extension, member of a caller archive in a sub-folder) x 4 float formats' % (40 if quick else 400),
                       ev, len(seen), False, bad)


def run(tier):
    r = Run('C09', tier, level='exploration')
    from vf import child
    res = child.run('props.C09', 'monitors_child', r.prop, r.tier, r.seed)
    child.merge(r, res['recorder'])
    if res['rc'] != 0:
        r.broken.append('C09 child failed (rc=%s) at %s: %s' % (res['rc'], res['progress'], res['stderr'][-1500:]))
    r.assumptions += ['NOTHING is proved for C09: pandas to_csv / read_csv, zipfile, re and the file system have no contract within reach; the sidecar contract (props/C09.py: pre = quantifier, post = statement) is evaluated on the real functions over a bounded family only']
    r.explanation = 'bounded only: run-time evaluation of the round-trip contract of the real write_csv / read_csv over frames x comments x storage modes x float formats'
    return r.finish()
