"""C10 - rank- and PIT-based forecast diagnostics depend only on ranks, stay in range.
Engine C : ADtest (the statistic equals the textbook Anderson-Darling formula on a sorted sample inside (0,1); data outside [0,1] or NaN
           rejected), c_ad_test (rejection / acceptance whatever the order, through the assumed libc qsort contract), c_ensrank (safety).
Engine P : the real metrics.pit(random=True) for enumerated small sizes and symbolic values: range, formula in the number of members below
           the observation (ties jittered either way), strict monotonicity, pseudo-PIT flag.
Bounded  : ensrank against the Weigel-Mason mid-rank oracle, dscore range / end points / invariances, pit(random=False), Cramer-von Mises and
           Anderson-Darling against their textbook formulas in any order, p-values, alpha."""
import itertools, math, random, traceback, contextlib, warnings
import numpy as np
import z3
from vf.check import Run
from vf import engp, pproof
from vf.engp import sym, rv, SymReal, SymBool, SA
from props import common as cm

FILE = 'src/hydrodiy/stat/metrics.py'
EPS = 1e-10


class Rand:
    """numpy.random.uniform(low, high, size): ASSUMED contract: values in [low, high)"""

    def __init__(self):
        self.count = 0

    def uniform(self, low, high, size=None):
        shape = (int(size),) if not isinstance(size, tuple) else tuple(int(v) for v in size)
        out = np.empty(shape, dtype=object)
        for idx in np.ndindex(*shape):
            self.count += 1
            e = sym('jit%d' % self.count)
            engp.CTX.axioms += [e.val >= SymReal.lift(low).val, e.val < SymReal.lift(high).val]
            out[idx] = e
        return out.view(SA)


class NPX(engp.NPProxy):
    def __init__(self, rand):
        engp.NPProxy.__init__(self); self.random = rand

    def zeros(self, shape, *a, **k):
        out = np.empty(shape, dtype=object); out.fill(0.0)
        return out.view(SA)

    def sum(self, x, axis=None, **k):
        if engp.symbolic(x) or (isinstance(x, np.ndarray) and x.dtype == object):
            a = np.asarray(x, dtype=object)
            if a.size and any(isinstance(e, SymBool) for e in a.flat):
                b = np.empty(a.shape, dtype=object)
                b.flat = [SymReal(z3.If(e.e, rv(1), rv(0))) if isinstance(e, SymBool) else SymReal.lift(float(bool(e))) for e in a.flat]
                x = b.view(SA)
        return engp.NPProxy.sum(self, x, axis=axis, **k)


class PDX:
    """pandas.notnull on symbolic arrays: the symbolic inputs are numbers (not NaN) by construction"""

    def __init__(self, real):
        self.real = real

    def __getattr__(self, k):
        return getattr(self.real, k)

    def notnull(self, x):
        if engp.symbolic(x):
            return np.ones(np.shape(x), dtype=bool)
        return self.real.notnull(x)


@contextlib.contextmanager
def patched_metrics(M, rand):
    saved = (M.np, M.pd)
    M.np = NPX(rand); M.pd = PDX(saved[1])
    try:
        with warnings.catch_warnings():
            warnings.simplefilter('ignore')
            yield
    finally:
        M.np, M.pd = saved


def pit_obligations(M, sizes):
    obls = []; npaths = 0
    for (nf, ne) in sizes:
        obs = [sym('obs%d' % i) for i in range(nf)]
        ens = [[sym('ens%d_%d' % (i, k)) for k in range(ne)] for i in range(nf)]
        cst = sym('cst'); cen = sym('censor')
        base = [cst.val >= 0, cst.val <= 1]
        # quantifier of the property: a member is exactly tied with the observation or separated from it by more than the jitter
        for i in range(nf):
            for k in range(ne):
                d = ens[i][k].val - obs[i].val
                base.append(z3.Or(d == 0, d > rv(2 * EPS), d < rv(-2 * EPS)))
        rand = Rand()

        def run():
            rand.count = 0
            o = np.empty(nf, dtype=object); o[:] = obs
            e = np.empty((nf, ne), dtype=object)
            for i in range(nf):
                e[i, :] = ens[i]
            return M.pit(o.view(SA), e.view(SA), True, cst, 'rank', cen)
        with patched_metrics(M, rand):
            paths = engp.explore(run, base=base, allowed_exc=(), max_paths=256)
        npaths += len(paths)
        names = ['cst', 'censor'] + ['obs%d' % i for i in range(nf)] + ['ens%d_%d' % (i, k) for i in range(nf) for k in range(ne)]
        c = z3.If(cst.val < rv(0.5), cst.val, rv(0.5))
        below = [z3.Sum([z3.If(ens[i][k].val < obs[i].val, 1, 0) for k in range(ne)]) for i in range(nf)]
        ties = [z3.Sum([z3.If(ens[i][k].val == obs[i].val, 1, 0) for k in range(ne)]) for i in range(nf)]
        for kp, p in enumerate(paths):
            pits, sudo = p.result
            hyp = base + list(p.pc) + list(p.axioms)
            tag = 'metrics.py/pit/n=%d,m=%d/path%d' % (nf, ne, kp)
            ps = [SymReal.lift(v) for v in list(pits)]
            den = 1 - c + ne
            for i in range(nf):
                obls.append(pproof.PObligation(tag + '/range%d' % i, 'post', 'PIT value %d is a number in [0, 1]' % i, hyp, z3.And(z3.Not(ps[i].nan), z3.Not(ps[i].inf), ps[i].val >= 0, ps[i].val <= 1), names))
                obls.append(pproof.PObligation(tag + '/count%d' % i, 'post', 'PIT value %d is (b + 0.5 - c)/(m + 1 - c) with b between the number of members below the observation and that number plus the ties' % i, hyp,
                                               z3.And(ps[i].val * den >= z3.ToReal(below[i]) + 0.5 - c, ps[i].val * den <= z3.ToReal(below[i] + ties[i]) + 0.5 - c), names))
                s = sudo[i]
                sexpr = s.e if isinstance(s, SymBool) else z3.BoolVal(bool(s))
                want = z3.And(obs[i].val < cen.val + rv(EPS), z3.Or(*[ens[i][k].val < cen.val + rv(EPS) for k in range(ne)]))
                obls.append(pproof.PObligation(tag + '/sudo%d' % i, 'post', 'the pseudo-PIT flag %d is raised exactly when the observation and at least one member are at or below the censoring threshold' % i, hyp, sexpr == want, names))
                for j in range(nf):
                    if i != j:
                        obls.append(pproof.PObligation(tag + '/increasing-%d-%d' % (i, j), 'post', 'without ties, more members below the observation give a strictly larger PIT (forecasts %d, %d)' % (i, j),
                                                       hyp + [ties[i] == 0, ties[j] == 0], z3.Implies(below[i] < below[j], ps[i].val < ps[j].val), names))
    return obls, npaths


# ------------------------------------------------------------------------------------------------ bounded monitors (child process)
def monitors(r):
    from vf import child
    res = child.run('props.C10', 'monitors_child', r.prop, r.tier, r.seed)
    child.merge(r, res['recorder'])
    if res['rc'] != 0:
        r.broken.append('C10 monitors child failed (rc=%s) at %s: %s' % (res['rc'], res['progress'], res['stderr'][-1500:]))


def _fail(rec, name, what, **w):
    rec.violation(dict(function=name, kind='monitor', clause=what.split(':')[0][:80]), 'bounded monitor %s: %s' % (name, what), witness=dict(python=True, source='bounded monitor', **w))


def midranks(v):
    """mid-ranks (1-based) of exact values"""
    v = list(v); order = sorted(range(len(v)), key=lambda i: v[i]); rk = [0.0] * len(v); i = 0
    while i < len(v):
        j = i
        while j + 1 < len(v) and v[order[j + 1]] == v[order[i]]:
            j += 1
        for t in range(i, j + 1):
            rk[order[t]] = 1 + (i + j) / 2
        i = j + 1
    return rk


def wm_oracle(sim):
    """Weigel and Mason (2011): F(i, j) from the mid-ranks of the members of ensemble i within the pooled pair, u = 0 / 0.5 / 1, ranks = 1 + sum u"""
    n, m = sim.shape
    F = np.zeros((n, n)); ranks = np.ones(n)
    for i in range(n):
        for j in range(i + 1, n):
            rk = midranks(list(sim[i]) + list(sim[j]))
            f = (sum(rk[:m]) - m * (m + 1) / 2) / m / m
            F[i, j] = f
            u = 0.0 if f < 0.5 - 1e-8 else 1.0 if f > 0.5 + 1e-8 else 0.5
            ranks[i] += u; ranks[j] += 1 - u
    return F, ranks


def monitors_child(rec):
    from props import apidrive
    from vf import child
    apidrive.setup()
    import c_hydrodiy_stat as cs
    from hydrodiy.stat import metrics as M
    warnings.simplefilter('ignore')
    rng = random.Random(rec.seed + 100); nrng = np.random.default_rng(rec.seed + 101)
    quick = rec.tier == 'quick'

    def ensembles(n, m, mode):
        if mode == 'ties':
            return nrng.integers(0, 3, size=(n, m)).astype(float)
        if mode == 'grid':
            return nrng.integers(0, 8, size=(n, m)).astype(float) * 0.25
        if mode == 'same':
            return np.tile(nrng.integers(0, 4, size=(1, m)).astype(float), (n, 1))
        return np.round(nrng.normal(size=(n, m)), 3)
    EPS_FOR = dict(ties=[1e-8, 1e-6, 1e-3, 0.25], same=[1e-8, 1e-6, 1e-3, 0.25], grid=[1e-8, 1e-6, 1e-3, 0.1], cont=[1e-8, 1e-6, 1e-4])
    DD = child.Distinct()
    for fn in ('dscore', 'pit', 'cramer_von_mises_test', 'anderson_darling_test', 'alpha'):
        DD.wrap(M, fn)
    DD.wrap(cs, 'ensrank')
    # ---- ensrank against the oracle
    child.progress('ensrank'); ev = 0; bad = 0
    for _ in range(250 if quick else 2500):
        n = rng.choice([2, 3, 4, 6, 10]); m = rng.choice([1, 2, 3, 5, 8]); mode = rng.choice(['ties', 'grid', 'same', 'cont'])
        sim = ensembles(n, m, mode)
        fmat = np.zeros((n, n)); ranks = np.zeros(n)
        # tie tolerance: any value below the spacing of the data (values are exactly tied or separated by more than the tolerance)
        eps = rng.choice(EPS_FOR[mode])
        ierr = cs.ensrank(eps, sim, fmat, ranks); ev += 1
        F, R = wm_oracle(sim)
        iu = np.triu_indices(n, 1)
        if ierr != 0 or not np.allclose(fmat[iu], F[iu], atol=1e-12) or not np.allclose(ranks, R, atol=1e-12):
            bad += 1; _fail(rec, 'ensrank', 'ranks: fmat / ranks differ from the pairwise mid-rank comparison of Weigel and Mason', sim=sim.tolist(), eps=eps, observed=dict(fmat=fmat.tolist(), ranks=ranks.tolist()), expected=dict(fmat=F.tolist(), ranks=R.tolist()))
    rec.bounded_clause('ensrank: fmat and ranks equal the pairwise mid-rank comparison of Weigel and Mason (2011)', '2..10 forecasts x 1..8 members, heavy ties / lattice / identical ensembles / continuous', ev, DD.n('ensrank'), False, bad)
    # ---- dscore
    child.progress('dscore'); ev = 0; bad = 0
    maps = [('exp', np.exp), ('arctan', np.arctan), ('cubic', lambda x: x ** 3 + x), ('affine', lambda x: 2.5 * x - 7.0)]
    for _ in range(250 if quick else 2500):
        n = rng.choice([2, 3, 5, 8, 20]); m = rng.choice([1, 2, 3, 6]); mode = rng.choice(['ties', 'grid', 'same', 'cont'])
        sim = ensembles(n, m, mode)
        obs = nrng.permutation(n).astype(float) if rng.random() < 0.7 else nrng.integers(0, 3, size=n).astype(float)
        d = M.dscore(obs, sim); ev += 1
        # the score does not depend on the tie tolerance as long as it stays below the spacing of the data; it equals the rank correlation form of the oracle ranks
        eps = rng.choice(EPS_FOR[mode])
        de = M.dscore(obs, sim, eps)
        if m > 1 and np.ptp(wm_oracle(sim)[1]) > 0:
            ref = (np.corrcoef(np.argsort(np.argsort(obs)), wm_oracle(sim)[1])[0, 1] + 1) / 2
        else:
            ref = de
        if abs(de - d) > 1e-12 or abs(de - ref) > 1e-12:
            bad += 1; _fail(rec, 'dscore', 'tolerance: the score changes with the tie tolerance (%r at 1e-6, %r at %r) or differs from the Weigel-Mason ranks (%r)' % (d, de, eps, ref), obs=obs.tolist(), sim=sim.tolist(), eps=eps); continue
        if not (0 <= d <= 1):
            bad += 1; _fail(rec, 'dscore', 'range: the score is not in [0, 1]', obs=obs.tolist(), sim=sim.tolist(), observed=repr(d)); continue
        for nm, f in maps:
            d1 = M.dscore(f(obs), sim); d2 = M.dscore(obs, f(sim))
            if abs(d1 - d) > 1e-12 or abs(d2 - d) > 1e-12:
                bad += 1; _fail(rec, 'dscore', 'invariance: changed by the strictly increasing map %s (obs: %r, forecasts: %r, original %r)' % (nm, d1, d2, d), obs=obs.tolist(), sim=sim.tolist()); break
        perm = nrng.permutation(m)
        d3 = M.dscore(obs, np.ascontiguousarray(sim[:, perm]))
        if abs(d3 - d) > 1e-12:
            bad += 1; _fail(rec, 'dscore', 'members: changed by permuting the ensemble members (%r -> %r)' % (d, d3), obs=obs.tolist(), sim=sim.tolist(), perm=perm.tolist())
        # perfect and inverse ordering (distinct observations)
        ob = nrng.permutation(n).astype(float)
        spread = np.sort(nrng.uniform(0, 0.4, size=m))[None, :]
        ev += 1
        dp = M.dscore(ob, ob[:, None] + spread); di = M.dscore(ob, -ob[:, None] + spread)
        if abs(dp - 1) > 1e-12 or abs(di) > 1e-12:
            bad += 1; _fail(rec, 'dscore', 'endpoints: perfectly / inversely ordered forecasts score %r / %r instead of 1 / 0' % (dp, di), obs=ob.tolist(), members=m)
    rec.bounded_clause('dscore: in [0, 1], 1 / 0 for perfectly / inversely ordered forecasts, unchanged by exp / arctan / cubic / affine maps of observations or forecasts and by member permutations',
                       '2..20 forecasts x 1..6 members, ties / lattice / identical ensembles / continuous, tied observations', ev, DD.n('dscore'), False, bad)
    # ---- pit
    child.progress('pit'); ev = 0; bad = 0
    for _ in range(200 if quick else 2000):
        n = rng.choice([2, 3, 6, 15]); m = rng.choice([1, 2, 5, 10])
        ens = nrng.integers(0, 6, size=(n, m)).astype(float); obs = nrng.integers(-1, 7, size=n).astype(float) + rng.choice([0.0, 0.5])
        cen = rng.choice([0.0, 1.0, -5.0, 2.0]); cst = rng.choice([0.0, 0.3, 0.5])
        for rnd_ in (False, True):
            np.random.seed(rng.randrange(10 ** 6))
            p, s = M.pit(obs, ens, random=rnd_, cst=cst, censor=cen); ev += 1
            below = (ens < obs[:, None]).sum(axis=1); ties = (ens == obs[:, None]).sum(axis=1)
            ok = len(p) == n and np.all(p >= 0) and np.all(p <= 1)
            want = (obs <= cen) & ((ens <= cen).sum(axis=1) > 0)
            ok = ok and s.tolist() == want.tolist()
            idx = np.where(ties == 0)[0]
            for a in idx:
                for b in idx:
                    if below[a] < below[b] and not p[a] < p[b]:
                        ok = False
            if rnd_:
                lo = (below + 0.5 - cst) / (m + 1 - cst); hi = (below + ties + 0.5 - cst) / (m + 1 - cst)
                ok = ok and np.all(p >= lo - 1e-12) and np.all(p <= hi + 1e-12)
            if not ok:
                bad += 1; _fail(rec, 'pit', 'pit: range / monotonicity in the number of members below / pseudo flag (random=%s)' % rnd_, obs=obs.tolist(), ens=ens.tolist(), cst=cst, censor=cen, observed=dict(pit=p.tolist(), sudo=s.tolist()))
    rec.bounded_clause('pit (random False / True): values in [0, 1], strictly increasing with the number of members below the observation, pseudo flag exact', '2..15 forecasts x 1..10 members on an integer lattice, 4 thresholds, 3 constants', ev, DD.n('pit'), False, bad)
    # ---- uniformity statistics
    child.progress('cvm-ad'); ev = 0; bad = 0
    for _ in range(200 if quick else 2000):
        n = rng.choice([1, 2, 3, 5, 10, 50, 300])
        u = nrng.uniform(0.001, 0.999, size=n)
        if rng.random() < 0.3:
            u = np.round(u, 1).clip(0.05, 0.95)
        elif rng.random() < 0.3 and n >= 2:
            # values very close to the ends of the open interval (over-confident forecasts)
            u[0] = rng.choice([1e-12, 2e-7, 1e-300]); u[-1] = 1 - rng.choice([1e-12, 1e-7, 1e-15])
        us = np.sort(u); i = np.arange(1, n + 1)
        w2 = 1 / (12 * n) + np.sum((us - (2 * i - 1) / (2 * n)) ** 2)
        a2 = -n - np.sum((2 * i - 1) * (np.log(us) + np.log(1 - us[::-1]))) / n
        for order in ('given', 'sorted', 'reversed'):
            x = {'given': u, 'sorted': us, 'reversed': us[::-1]}[order].copy(); x0 = x.copy()
            cv, pcv = M.cramer_von_mises_test(x); ad, pad = M.anderson_darling_test(x); ev += 1
            ok = abs(cv - w2) <= 1e-10 * max(1, w2) and abs(ad - a2) <= 1e-9 * max(1, abs(a2)) and 0 <= pcv <= 1 and 0 <= pad <= 1 and np.array_equal(x, x0)
            if not ok:
                bad += 1; _fail(rec, 'uniformity tests', 'statistics: Cramer-von Mises / Anderson-Darling differ from the textbook formula or p-value outside [0, 1] (order %s)' % order,
                                data=x0.tolist()[:50], observed=dict(cvm=float(cv), pcvm=float(pcv), ad=float(ad), pad=float(pad)), expected=dict(cvm=float(w2), ad=float(a2)))
                break
    for badx in ([0.2, 1.2], [-0.1, 0.5], [0.5, np.nan], [np.nan], [1.0000001], [0.3, 0.2, -1e-9]):
        ev += 1
        try:
            M.anderson_darling_test(np.array(badx)); bad += 1; _fail(rec, 'anderson_darling_test', 'reject: data outside [0, 1] or NaN accepted', data=[repr(v) for v in badx])
        except ValueError:
            pass
    rec.bounded_clause('cramer_von_mises_test / anderson_darling_test: statistic == textbook formula in any order of the data, p-values in [0, 1], data outside [0, 1] / NaN rejected (AD)',
                       'samples of 1..300 values in (0, 1), rounded (tied) and continuous, three orders', ev, DD.n('cramer_von_mises_test', 'anderson_darling_test'), False, bad)
    # ---- alpha
    child.progress('alpha'); ev = 0; bad = 0
    for _ in range(40 if quick else 400):
        n = rng.choice([5, 20, 80]); m = rng.choice([1, 3, 20])
        ens = nrng.normal(size=(n, m)); obs = nrng.normal(size=n)
        for tp in ('CV', 'KS', 'AD'):
            np.random.seed(rng.randrange(10 ** 6))
            st, pv, sd = M.alpha(obs, ens, type=tp); ev += 1
            if not (0 <= pv <= 1 and np.isfinite(st) and len(sd) == n):
                bad += 1; _fail(rec, 'alpha', 'pvalue: p-value of alpha (%s) outside [0, 1]' % tp, obs=obs.tolist()[:30], observed=dict(stat=float(st), p=float(pv)))
    rec.bounded_clause('alpha: p-values in [0, 1] for the CV / KS / AD variants', '5..80 forecasts x 1..20 members, 40 draws', ev, DD.n('alpha'), False, bad)


def run(tier):
    r = Run('C10', tier, level='other')
    cm.run_kernels(r, cm.kernels('ADtest', 'c_ad_test', 'c_ensrank'))
    try:
        from vf import pybuild
        pybuild.activate()
        from hydrodiy.stat import metrics as M
        sizes = [(1, 1), (1, 2), (2, 1), (2, 2), (1, 3)] if tier == 'quick' else [(1, 1), (1, 2), (2, 1), (2, 2), (1, 3), (2, 3), (3, 2), (1, 4)]
        obls, npaths = pit_obligations(M, sizes)
        pproof.discharge(r, obls, file=FILE, fn_of=lambda ob: 'pit')
        r.functions.append(dict(file='metrics.py', fn='pit (random=True)', trusted=['numpy.random.uniform', 'pandas.notnull'], nonterminating=[], cutloops=0, unrolled=0, terminating=0))
        r.extra['paths_explored'] = npaths
    except (engp.Unsupported, engp.PathLimit) as e:
        # the code under analysis uses a construct the symbolic executor does not support (e.g. after a change of the code): undecided, not a crash
        r.undecided.append('Engine P cannot execute the current code symbolically: %s' % (str(e)[:300],))
    except Exception:
        r.broken.append('C10 Engine P driver crashed: ' + traceback.format_exc()[-2500:])
    monitors(r)
    r.assumptions += ['ADtest: log is an uninterpreted function (the textbook formula is stated with ln of the product u_(i) (1 - u_(n+1-i))); the p-value routines AD / adinf are proved memory-safe only',
                      'c_ad_test: libc qsort by its assumed contract (permutation of the input, non-decreasing); the equality of the statistic with the textbook formula on the sorted sample is proved for ADtest and checked in any order by the bounded monitor',
                      'pit: (forecasts, members) sizes enumerated, values / constant / threshold symbolic, members exactly tied with or separated by more than 2e-10 from the observation; numpy.random.uniform by its assumed contract; random=False (scipy percentileofscore) is bounded',
                      'c_ensrank: memory safety proved; the equality with the Weigel-Mason comparison depends on the order libc qsort gives to tied values (unspecified) and is a bounded monitor']
    r.explanation = ('proved: Anderson-Darling statistic formula and rejection (Engine C), PIT range / count formula / monotonicity / pseudo flag for small sizes (Engine P); '
                     'bounded: ensrank vs mid-rank oracle, dscore range / end points / invariances, CvM and AD in any order, p-values, alpha')
    return r.finish()
