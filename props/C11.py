"""C11 - flow accumulation equals the sum over everything upstream."""
from vf.check import Run
from props import common as cm


def run(tier):
    r = Run('C11', tier, level='proof')
    cm.run_kernels(r, cm.kernels('c_downstream', 'c_accumulate', 'c_accumulate#acyclic'))
    cm.run_monitors(r, ['mon_accumulate'])
    r.explanation = ('Engine C on the real c_accumulate: for acyclic grids (height-function precondition) every draining cell ends with its initial value plus '
                     'the field summed over all cells that reach it (ghost functions reaches / upsum, lemmas by induction on the height), terminal cells hold nodata, '
                     'input grids are not in the frame; cyclic grids: memory safety and termination only')
    return r.finish()
