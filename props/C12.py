"""C12 - bounded parameter vectors keep their invariants under any history.
Engine P on the real containers.py: for every structural configuration of the property's quantifier (0..4 names, finite / infinite
bounds, the two flags) an ARBITRARY state satisfying the representation invariant is built with symbolic bounds, defaults and values,
each public operation is executed on symbolic arguments, and per path: invariant preserved + frame + the operation's own clause.
The history statement follows by induction over the operation sequence."""
import itertools, traceback, math
import numpy as np
import z3
from vf.check import Run
from vf import engp, pproof
from vf.engp import sym, rv, SymReal, SymBool, SA
from props.C01 import modules, vec

EPS = 1e-10
KINDS = ['free', 'lo', 'hi', 'both']        # bound pattern of one element


def configs(tier):
    out = []
    for n in range(0, 5):
        pats = list(itertools.product(KINDS, repeat=n)) if n <= 2 else [tuple(KINDS[(i + s) % 4] for i in range(n)) for s in range(4)]
        for pat in pats:
            for hb in (False, True):
                for an in (False, True):
                    out.append((n, pat, hb, an))
    return out


class SymVector:
    """an arbitrary Vector state satisfying the representation invariant, for one structural configuration"""

    def __init__(self, Cmod, n, pat, hb, an, tag='v'):
        self.n = n; self.pat = pat; self.hb = hb; self.an = an; self.C = Cmod
        self.names = ['n%d' % i for i in range(n)]
        self.lo = []; self.hi = []; self.base = []
        for i, k in enumerate(pat):
            lo = sym('%s_lo%d' % (tag, i)) if k in ('lo', 'both') else -np.inf
            hi = sym('%s_hi%d' % (tag, i)) if k in ('hi', 'both') else np.inf
            if k == 'both':
                self.base.append(lo.val <= hi.val)
            self.lo.append(lo); self.hi.append(hi)
        self.dflt = [sym('%s_d%d' % (tag, i)) for i in range(n)]
        self.val = [sym('%s_v%d' % (tag, i), nan=an) for i in range(n)]
        for i in range(n):
            for x, allow_nan in ((self.dflt[i], False), (self.val[i], an)):
                c = []
                if isinstance(self.lo[i], SymReal):
                    c.append(x.val >= self.lo[i].val)
                if isinstance(self.hi[i], SymReal):
                    c.append(x.val <= self.hi[i].val)
                if c:
                    self.base.append(z3.Or(x.nan, z3.And(*c)) if allow_nan else z3.And(*c))
        self.hit0 = z3.Bool('%s_hit0' % tag)
        self.vnames = ['%s_%s%d' % (tag, a, i) for a in ('lo', 'hi', 'd', 'v') for i in range(n)]

    def build(self):
        """the real constructor on symbolic bounds / defaults, then the arbitrary current values"""
        V = self.C.Vector
        arr = lambda xs: vec(list(xs)) if any(isinstance(x, SymReal) for x in xs) else np.array(xs, dtype=float)
        v = V(self.names, arr(self.dflt) if self.n else None, arr(self.lo) if self.n else None, arr(self.hi) if self.n else None,
              check_hitbounds=self.hb, accept_nan=self.an)
        if self.n:
            v._values = vec(list(self.val))
        v._hitbounds = SymBool(self.hit0) if self.hb else False
        return v


def elem(x):
    return SymReal.lift(x)


def inbounds(sv, e, i, allow_nan):
    c = [z3.Not(e.inf)]
    if isinstance(sv.lo[i], SymReal):
        c.append(e.val >= sv.lo[i].val)
    if isinstance(sv.hi[i], SymReal):
        c.append(e.val <= sv.hi[i].val)
    ok = z3.And(z3.Not(e.nan), *c)
    return z3.Or(e.nan, ok) if allow_nan else ok


def same(a, b):
    a = elem(a); b = elem(b)
    return z3.Or(z3.And(a.nan, b.nan), z3.And(z3.Not(a.nan), z3.Not(b.nan), a.val == b.val))


def hitexpr(h):
    if isinstance(h, SymBool):
        return h.e
    return z3.BoolVal(bool(h))


def frame_clauses(sv, v, tag):
    """names, bounds and defaults are what they were at construction (element-wise)"""
    out = []
    ok_names = list(v.names) == sv.names
    out.append(('names unchanged', z3.BoolVal(ok_names)))
    # representation invariant, storage part: values, defaults and bounds live in pairwise separate arrays (otherwise an in-place
    # assignment of a value would change a default or a bound later on) - object identity is concrete under symbolic execution
    arrs = [v._values, v._defaults, v._mins, v._maxs]
    sep = all(not np.shares_memory(arrs[i], arrs[j]) for i in range(4) for j in range(i + 1, 4)) if sv.n else True
    out.append(('values / defaults / bounds stored in separate arrays', z3.BoolVal(bool(sep))))
    for i in range(sv.n):
        for nm, cur, ref in (('mins', v.mins[i], sv.lo[i]), ('maxs', v.maxs[i], sv.hi[i]), ('defaults', v.defaults[i], sv.dflt[i])):
            if isinstance(ref, SymReal):
                out.append(('%s[%d] unchanged' % (nm, i), same(cur, ref)))
            else:
                out.append(('%s[%d] unchanged' % (nm, i), z3.BoolVal((not isinstance(cur, SymReal)) and float(cur) == float(ref))))
    return out


def op_obligations(Cmod, mods, cfg):
    n, pat, hb, an = cfg
    tag = 'n=%d,%s,hit=%s,nan=%s' % (n, '/'.join(pat) or '-', hb, an)
    obls = []

    def explore(opname, runner, clauses):
        sv = SymVector(Cmod, n, pat, hb, an)
        with engp.patched(*mods):
            paths = engp.explore(lambda: runner(sv), base=sv.base, allowed_exc=(Exception,))
        for k, p in enumerate(paths):
            if p.exc is not None and isinstance(p.exc, (engp.Unsupported, engp.PathLimit)):
                raise p.exc
            hyps = sv.base + p.pc + p.axioms
            for (cname, goal) in clauses(sv, p):
                obls.append(pproof.PObligation('containers.py/Vector.%s/%s/path%d/%s' % (opname, tag, k, cname), 'post', 'Vector.%s [%s]: %s' % (opname, tag, cname), hyps, goal, sv.vnames + ['x%d' % i for i in range(max(n, 1))]))
        return len(paths)
    npaths = 0
    xs = [sym('x%d' % i, nan=True) for i in range(n)]

    # ---- whole-vector assignment
    def run_values(sv):
        v = sv.build(); v.values = vec(list(xs)) if n else []
        return v

    def cl_values(sv, p):
        out = []
        anynan = z3.Or(*[x.nan for x in xs]) if n else z3.BoolVal(False)
        if p.exc is not None:
            # rejected exactly when a NaN is not allowed
            out.append(('rejection only for NaN', z3.And(z3.BoolVal(isinstance(p.exc, ValueError)), anynan, z3.BoolVal(not an))))
            return out
        v = p.result
        out.append(('accepted', z3.Or(z3.BoolVal(an), z3.Not(anynan))))
        for i in range(n):
            e = elem(v.values[i])
            out.append(('value %d within bounds' % i, inbounds(sv, e, i, an)))
            out.append(('value %d stored unchanged when inside the bounds' % i, z3.Implies(inbounds(sv, xs[i], i, False), same(e, xs[i]))))
            out.append(('NaN %d stored only when allowed' % i, z3.Implies(e.nan, z3.And(z3.BoolVal(an), xs[i].nan))))
        # hit flag: exactly whether the assignment was clipped (beyond the 1e-10 tolerance of the code)
        clipped = z3.Or(*([z3.BoolVal(False)] + [z3.And(z3.Not(xs[i].nan), xs[i].val < sv.lo[i].val - rv(EPS)) for i in range(n) if isinstance(sv.lo[i], SymReal)]
                          + [z3.And(z3.Not(xs[i].nan), xs[i].val > sv.hi[i].val + rv(EPS)) for i in range(n) if isinstance(sv.hi[i], SymReal)]))
        out.append(('hit flag tells whether the assignment was clipped', hitexpr(v.hitbounds) == (z3.And(z3.BoolVal(hb), clipped))))
        out += frame_clauses(sv, v, 'values')
        return out
    npaths += explore('values=', run_values, cl_values)

    # ---- rejected assignment leaves the state untouched (checked on the exception paths of the previous runner, state re-read)
    def run_values_state(sv):
        v = sv.build()
        try:
            v.values = vec(list(xs)) if n else []
        except ValueError:
            return ('rejected', v)
        return ('accepted', v)

    def cl_state(sv, p):
        if p.exc is not None or p.result[0] != 'rejected':
            return []
        v = p.result[1]
        out = [('value %d untouched by a rejected assignment' % i, same(v.values[i], sv.val[i])) for i in range(n)]
        out.append(('hit flag untouched by a rejected assignment', hitexpr(v.hitbounds) == (sv.hit0 if hb else z3.BoolVal(False))))
        return out + frame_clauses(sv, v, 'rejected')
    npaths += explore('values= (rejected)', run_values_state, cl_state)

    # ---- assignment by attribute and by key (element 0 and the last one)
    for how in ('attr', 'key'):
        for idx in sorted({0, n - 1}) if n else []:
            x = sym('x0', nan=True)

            def run_set(sv, idx=idx, how=how, x=x):
                v = sv.build()
                try:
                    if how == 'attr':
                        setattr(v, sv.names[idx], x)
                    else:
                        v[sv.names[idx]] = x
                except ValueError:
                    return ('rejected', v)
                return ('accepted', v)

            def cl_set(sv, p, idx=idx, x=x):
                if p.exc is not None:
                    return [('no other exception', z3.BoolVal(False))]
                st, v = p.result
                out = []
                if st == 'rejected':
                    out.append(('rejection only for NaN', z3.And(x.nan, z3.BoolVal(not an))))
                    out += [('value %d untouched by a rejected assignment' % i, same(v.values[i], sv.val[i])) for i in range(n)]
                    out.append(('hit flag untouched by a rejected assignment', hitexpr(v.hitbounds) == (sv.hit0 if hb else z3.BoolVal(False))))
                else:
                    e = elem(v.values[idx])
                    out.append(('accepted', z3.Or(z3.BoolVal(an), z3.Not(x.nan))))
                    out.append(('value within bounds', inbounds(sv, e, idx, an)))
                    out.append(('value stored unchanged when inside the bounds', z3.Implies(inbounds(sv, x, idx, False), same(e, x))))
                    out.append(('NaN stored only when allowed', z3.Implies(e.nan, z3.And(z3.BoolVal(an), x.nan))))
                    out += [('other value %d unchanged' % i, same(v.values[i], sv.val[i])) for i in range(n) if i != idx]
                    clipped = z3.Or(*([z3.BoolVal(False)] + ([z3.And(z3.Not(x.nan), x.val < sv.lo[idx].val)] if isinstance(sv.lo[idx], SymReal) else [])
                                      + ([z3.And(z3.Not(x.nan), x.val > sv.hi[idx].val)] if isinstance(sv.hi[idx], SymReal) else [])))
                    out.append(('hit flag tells whether the assignment was clipped', hitexpr(v.hitbounds) == (z3.And(z3.BoolVal(hb), clipped) if hb else z3.BoolVal(False))))
                return out + frame_clauses(sv, v, 'set')
            npaths += explore('set by %s [%d]' % (how, idx), run_set, cl_set)

    # ---- reset
    def run_reset(sv):
        v = sv.build(); v.reset(); return v

    def cl_reset(sv, p):
        if p.exc is not None:
            return [('no exception', z3.BoolVal(False))]
        v = p.result
        return [('value %d == default' % i, same(v.values[i], sv.dflt[i])) for i in range(n)] + [('hit flag cleared', z3.Not(hitexpr(v.hitbounds)))] + frame_clauses(sv, v, 'reset')
    npaths += explore('reset', run_reset, cl_reset)

    # ---- clone and dictionary round trip: same observable state, independent storage
    for opname in ('clone', 'dict'):
        def run_copy(sv, opname=opname):
            v = sv.build()
            w = v.clone() if opname == 'clone' else sv.C.Vector.from_dict(v.to_dict())
            return (v, w)

        def cl_copy(sv, p, opname=opname):
            if p.exc is not None:
                return [('no exception (%s: %s)' % (type(p.exc).__name__, str(p.exc)[:60]), z3.BoolVal(False))]
            v, w = p.result
            out = [('same names', z3.BoolVal(list(w.names) == list(v.names))), ('same check_bounds', z3.BoolVal(w.check_bounds == v.check_bounds)),
                   ('same check_hitbounds', z3.BoolVal(w.check_hitbounds == v.check_hitbounds)), ('same accept_nan', z3.BoolVal(w.accept_nan == v.accept_nan)),
                   ('same hit flag', hitexpr(w.hitbounds) == hitexpr(v.hitbounds))]
            for i in range(n):
                out.append(('same value %d' % i, same(w.values[i], v.values[i])))
            out += [(c[0] + ' (copy)', c[1]) for c in frame_clauses(sv, w, 'copy')] + frame_clauses(sv, v, 'orig')
            indep = all(not np.shares_memory(a, b) for a, b in ((w._values, v._values), (w._mins, v._mins), (w._maxs, v._maxs), (w._defaults, v._defaults), (w._names, v._names))) if n else True
            out.append(('independent storage', z3.BoolVal(bool(indep))))
            return out
        npaths += explore(opname, run_copy, cl_copy)
    return obls, npaths


def concrete_failures(Cmod, r):
    """failing assignments that do not depend on values: wrong length, unknown key"""
    V = Cmod.Vector; bad = []; n = 0
    for nn in range(0, 5):
        v = V(['n%d' % i for i in range(nn)], [0.5] * nn if nn else None, [0.0] * nn if nn else None, [1.0] * nn if nn else None, check_hitbounds=True)
        before = (v.values.copy(), v.hitbounds, v.mins.copy(), v.maxs.copy(), v.defaults.copy(), list(v.names))
        for wrong in (nn + 1, nn + 2, max(nn - 1, 0) if nn else 1):
            if wrong == nn:
                continue
            n += 1
            try:
                v.values = [0.1] * wrong; bad.append(('length %d accepted for %d names' % (wrong, nn)))
            except ValueError:
                pass
        for key in ('zz', 'values2', ''):
            n += 1
            try:
                v[key] = 0.3; bad.append('unknown key %r accepted' % key)
            except ValueError:
                pass
            n += 1
            try:
                v[key]; bad.append('unknown key %r readable' % key)
            except ValueError:
                pass
        after = (v.values, v.hitbounds, v.mins, v.maxs, v.defaults, list(v.names))
        if not (np.array_equal(before[0], after[0]) and before[1] == after[1] and np.array_equal(before[2], after[2]) and np.array_equal(before[3], after[3]) and np.array_equal(before[4], after[4]) and before[5] == after[5]):
            bad.append('state changed by rejected assignments (n=%d)' % nn)
    r.bounded_clause('C12 rejected assignments (wrong length, unknown key) raise ValueError and leave the state untouched', '0..4 names, lengths n+-1,n+2, three unknown keys', n, n, True, failures=len(bad))
    for b in bad[:2]:
        r.violation(dict(monitor='C12 rejected assignments', what=b), b, witness=dict(python=True, input=b))


def transform_frame_obligations(T, mods):
    """read-only uses of a transform (forward, backward, jacobian on an input vector, sampling and scoring its parameters) leave its parameter values, constants and bounds
    unchanged: Engine P runs the real methods on symbolic parameters / constants / input; per path the vectors afterwards equal the ones before"""
    from contracts.py_transform import CLASSES
    from props.C01 import SymTransform
    obls = []; npaths = 0
    x = sym('x')
    for spec in CLASSES:
        kw = spec['variants'][0]
        st = SymTransform(T, spec['name'], kw)
        for op in ('forward', 'backward', 'jacobian', 'params_sample', 'params_logprior'):
            def run():
                tr = st.instance()
                before = (list(tr._params._values), list(tr._constants._values), tr._params._mins.copy(), tr._params._maxs.copy(), tr._params._defaults.copy(),
                          tr._constants._mins.copy(), tr._constants._maxs.copy(), tr._constants._defaults.copy(), list(tr._params._names), list(tr._constants._names))
                raised = None
                try:
                    if op == 'params_sample':
                        tr.params_sample(4)
                    elif op == 'params_logprior':
                        tr.params_logprior()
                    else:
                        getattr(tr, op)(vec([x]))
                except (engp.Unsupported, engp.PathLimit):
                    raise
                except Exception as e:          # a rejected input: the frame must hold all the same
                    raised = type(e).__name__
                after = (list(tr._params._values), list(tr._constants._values), tr._params._mins, tr._params._maxs, tr._params._defaults,
                         tr._constants._mins, tr._constants._maxs, tr._constants._defaults, list(tr._params._names), list(tr._constants._names))
                return before, after, raised
            with engp.patched(*mods):
                paths = engp.explore(run, base=st.base, allowed_exc=(), max_paths=256)
            npaths += len(paths)
            for k, p in enumerate(paths):
                before, after, raised = p.result
                hyp = st.base + p.pc + p.axioms
                tag = 'transform.py/%s.%s/path%d' % (spec['name'], op, k)
                goals = [z3.BoolVal(len(before[0]) == len(after[0]) and len(before[1]) == len(after[1]))]
                for a, b in list(zip(before[0], after[0])) + list(zip(before[1], after[1])):
                    goals.append(same(a, b))
                conc = all(np.array_equal(np.asarray(a, dtype=float), np.asarray(b, dtype=float), equal_nan=True) for a, b in zip(before[2:8], after[2:8])) and before[8] == after[8] and before[9] == after[9]
                goals.append(z3.BoolVal(bool(conc)))
                obls.append(pproof.PObligation(tag + '/frame', 'post', '%s.%s leaves the parameter values, constants, bounds, defaults and names of the transform unchanged%s' % (spec['name'], op, ' (input rejected with %s)' % raised if raised else ''),
                                               hyp, z3.And(*goals), st.names + ['x']))
    return obls, npaths


def transform_readonly(T, r):
    """read-only uses of a transform leave its parameter values, constants and bounds unchanged (concrete heap check per class)"""
    bad = []; n = 0
    for nm in T.__all__:
        tr = T.get_transform(nm)
        for c in tr.constants.names:
            tr.constants[c] = 2.0
        snap = lambda: (tr.params.values.copy(), tr.params.mins.copy(), tr.params.maxs.copy(), tr.params.defaults.copy(), tr.constants.values.copy(), tr.constants.mins.copy(), tr.constants.maxs.copy())
        x = np.array([[0.1, 0.2, 0.3]]) if nm == 'Softmax' else np.array([0.3, 0.5, 0.7])
        for opname, op in (('forward', lambda: tr.forward(x)), ('backward', lambda: tr.backward(np.array([[-1.0, -0.5, 0.2]]) if nm == 'Softmax' else np.array([-1.5, -2.0, -1.1]))), ('jacobian', lambda: tr.jacobian(x)),
                           ('params_sample', lambda: tr.params_sample(5)), ('params_logprior', lambda: tr.params_logprior()), ('str', lambda: str(tr)),
                           ('backward_censored', lambda: tr.backward_censored(np.array([[-1.0, -0.5, 0.2]]) if nm == 'Softmax' else np.array([-1.5, -2.0, -1.1]), 0.1))):
            for rep in range(2):
                before = snap(); n += 1
                try:
                    np.random.seed(3); op()
                except Exception:
                    pass
                after = snap()
                if not all(np.array_equal(a, b, equal_nan=True) for a, b in zip(before, after)):
                    bad.append(dict(transform=nm, operation=opname, before=[a.tolist() for a in before], after=[a.tolist() for a in after])); break
    r.bounded_clause('C12 read-only uses of every transform class (forward, backward, jacobian, params_sample, params_logprior, str, backward_censored) leave parameters, constants and bounds unchanged',
                     '13 classes x 7 operations x 2 consecutive calls (concrete heap comparison)', n, n, True, failures=len(bad))
    for b in bad[:3]:
        r.violation(dict(monitor='C12 transform read-only', transform=b['transform'], operation=b['operation']), '%s.%s changes the parameter / bound vectors of the transform' % (b['transform'], b['operation']),
                    witness=dict(python=True, input=b))


def histories(Cmod, r):
    """bounded cross-check that the per-operation contracts compose: random operation sequences against a reference model"""
    V = Cmod.Vector; rng = r.rng; bad = []; n = 0
    for trial in range(300 if r.tier == 'quick' else 3000):
        nn = rng.randint(0, 4)
        lo = [rng.choice([-np.inf, 0.0, -1.0]) for _ in range(nn)]; hi = [rng.choice([np.inf, 1.0, 2.0]) for _ in range(nn)]
        hb = rng.random() < 0.5; an = rng.random() < 0.5
        d = [min(max(0.5, l), h) for l, h in zip(lo, hi)]
        v = V(['n%d' % i for i in range(nn)], d if nn else None, lo if nn else None, hi if nn else None, check_hitbounds=hb, accept_nan=an)
        ref = list(d); refhit = False
        for step in range(6):
            op = rng.choice(['attr', 'key', 'all', 'reset', 'clone', 'dict', 'bad'])
            n += 1
            val = lambda: rng.choice([0.5, -5.0, 7.0, 0.0, 1.0, float('nan'), 1.0 + 1e-6, -1e-6, 2.0])
            try:
                if op in ('attr', 'key') and nn:
                    i = rng.randrange(nn); x = val()
                    try:
                        if op == 'attr':
                            setattr(v, 'n%d' % i, x)
                        else:
                            v['n%d' % i] = x
                        ok = True
                    except ValueError:
                        ok = False
                    if math.isnan(x) and not an:
                        assert not ok
                    else:
                        assert ok
                        ref[i] = x if math.isnan(x) else min(max(x, lo[i]), hi[i]); refhit = hb and (not math.isnan(x)) and (x < lo[i] or x > hi[i])
                elif op == 'all':
                    xs = [val() for _ in range(nn)]
                    try:
                        v.values = xs; ok = True
                    except ValueError:
                        ok = False
                    if any(math.isnan(x) for x in xs) and not an:
                        assert not ok
                    else:
                        assert ok
                        ref = [x if math.isnan(x) else min(max(x, l), h) for x, l, h in zip(xs, lo, hi)]
                        refhit = hb and any((not math.isnan(x)) and (x < l - 1e-10 or x > h + 1e-10) for x, l, h in zip(xs, lo, hi))
                elif op == 'reset':
                    v.reset(); ref = list(d); refhit = False
                elif op == 'clone':
                    w = v.clone(); assert not np.shares_memory(w._values, v._values) or nn == 0; v = w
                elif op == 'dict':
                    v = V.from_dict(v.to_dict())
                elif op == 'bad':
                    try:
                        v.values = [0.0] * (nn + 1); assert False
                    except ValueError:
                        pass
                got = list(v.values)
                assert len(got) == nn and all((math.isnan(a) and math.isnan(b)) or a == b for a, b in zip(got, ref)), (got, ref)
                assert bool(v.hitbounds) == bool(refhit), ('hit', v.hitbounds, refhit, op)
                assert v.check_hitbounds == hb and v.accept_nan == an and list(v.mins) == lo and list(v.maxs) == hi and list(v.defaults) == d
            except AssertionError as e:
                bad.append(dict(n=nn, mins=lo, maxs=hi, check_hitbounds=hb, accept_nan=an, step=step, op=op, detail=str(e)[:300])); break
            except Exception as e:
                bad.append(dict(n=nn, mins=lo, maxs=hi, check_hitbounds=hb, accept_nan=an, step=step, op=op, detail=repr(e)[:300])); break
    r.bounded_clause('C12 random operation sequences (depth 6) against a reference model of the vector', '%d sequences over {set by attribute, by key, whole vector, reset, clone-and-continue, dict round trip, failing assignment}' % (300 if r.tier == 'quick' else 3000),
                     n, n, False, failures=len(bad))
    for b in bad[:2]:
        r.violation(dict(monitor='C12 histories', op=b['op'], detail=b['detail'][:80]), 'operation sequence breaks the vector contract at step %d (%s): %s' % (b['step'], b['op'], b['detail']), witness=dict(python=True, input=b))


def run(tier):
    r = Run('C12', tier, level='proof')
    try:
        T, C, dutils = modules(); mods = (C,)
        allobl = []; npaths = 0; cfgs = configs(tier)
        if tier == 'quick':
            cfgs = [c for c in cfgs if c[0] <= 2] + [c for c in cfgs if c[0] > 2][::2]
        for cfg in cfgs:
            obls, n = op_obligations(C, mods, cfg); allobl += obls; npaths += n
        concrete_failures(C, r); transform_readonly(T, r); histories(C, r)
        o2, n2 = transform_frame_obligations(T, (T, C, dutils)); allobl += o2; npaths += n2
        pproof.discharge(r, allobl, file='src/hydrodiy/data/containers.py', fn_of=lambda ob: ob.id.split('/')[1])
        r.functions = [dict(file='containers.py', fn='Vector.' + f, trusted=[], nonterminating=[], cutloops=0, unrolled=0, terminating=0)
                       for f in ('__init__', '__checkvalues__', 'values.setter', '__setattr__', '__setitem__', 'reset', 'clone', 'to_dict', 'from_dict')]
        r.extra['paths_explored'] = npaths; r.extra['configurations'] = len(cfgs)
    except (engp.Unsupported, engp.PathLimit) as e:
        # the code under analysis uses a construct the symbolic executor does not support (e.g. after a change of the code): undecided, not a crash
        r.undecided.append('Engine P cannot execute the current code symbolically: %s' % (str(e)[:300],))
    except Exception:
        r.broken.append('C12 driver crashed: ' + traceback.format_exc()[-2500:])
    r.assumptions += ['structural sizes are enumerated (0..4 names as quantified by the property; for 3 and 4 names the four bound patterns are rotated over the elements instead of all 4^n combinations); values, bounds and defaults are symbolic',
                      'the history statement follows from invariant preservation by every operation (induction over the sequence; meta-argument) and is cross-checked by bounded random sequences',
                      'CPython executes the real object model (properties, __getattribute__/__setattr__ overrides, aliasing): not modelled, not trusted beyond CPython itself; numpy shim as in C01']
    r.explanation = 'Engine P on the real containers.py: per operation and configuration, invariant + frame + operation clause on every path; bounded: rejected assignments, transform read-only uses, random histories'
    return r.finish()
