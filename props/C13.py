"""C13 - grids and catchments survive save/load, dictionary export, cloning and clipping.
No deductive part for the Python file / dictionary code (file I/O, numpy.fromfile / tofile, regular-expression header parsing, deepcopy): the
property is stated as sidecar contracts on the real Grid / Catchment methods and evaluated at run time over a bounded family (labelled
bounded).  The kernels the clip relies on (c_coord2cell, c_cell2rowcol, c_cell2coord) are under proved contracts (C07) and are re-proved here."""
import os, random, shutil, tempfile, traceback, warnings, json, zipfile
import numpy as np
from vf.check import Run
from props import common as cm

VERIF = os.path.dirname(os.path.dirname(os.path.abspath(__file__)))
INTS = ['int8', 'int16', 'int32', 'int64', 'uint8', 'uint16', 'uint32', 'uint64']
FLOATS = ['float16', 'float32', 'float64']


def _fail(rec, name, what, **w):
    rec.violation(dict(function=name, kind='roundtrip', clause=what.split(':')[0][:80]), 'bounded contract check %s: %s' % (name, what), witness=dict(python=True, source='bounded contract evaluation', **w))


def same_geo(a, b):
    """identical shape, georeferencing, data type and no-data value"""
    out = []
    for attr in ('nrows', 'ncols'):
        if int(getattr(a, attr)) != int(getattr(b, attr)):
            out.append('%s %r != %r' % (attr, getattr(b, attr), getattr(a, attr)))
    for attr in ('cellsize', 'xllcorner', 'yllcorner'):
        if float(getattr(a, attr)) != float(getattr(b, attr)):
            out.append('%s %r != %r' % (attr, getattr(b, attr), getattr(a, attr)))
    if np.dtype(a.dtype) != np.dtype(b.dtype) or a.data.dtype != b.data.dtype:
        out.append('dtype %s / %s != %s / %s' % (np.dtype(b.dtype), b.data.dtype, np.dtype(a.dtype), a.data.dtype))
    na, nb = a.nodata, b.nodata
    if not ((na == nb) or (isinstance(na, np.floating) and np.isnan(na) and np.isnan(nb))):
        out.append('nodata %r != %r' % (nb, na))
    return out


def same_bits(x, y):
    return x.shape == y.shape and x.dtype == y.dtype and x.tobytes() == y.tobytes()


def rand_data(nrng, dt, nr, nc):
    d = np.dtype(dt)
    if d.kind in 'iu':
        info = np.iinfo(d)
        x = nrng.integers(info.min, info.max, size=(nr, nc), dtype=d, endpoint=True)
        x.flat[0] = info.min; x.flat[-1] = info.max
        return x
    x = (nrng.normal(size=(nr, nc)) * 10.0 ** nrng.integers(-3, 4)).astype(d)
    if x.size > 1:
        x.flat[0] = np.nan
    if x.size > 2:
        x.flat[1] = np.inf; x.flat[2] = -np.inf
    if x.size > 3:
        x.flat[3] = np.finfo(d).max
    return x


def monitors_child(rec):
    from props import apidrive
    from vf import child
    apidrive.setup()
    from hydrodiy.gis.grid import Grid, Catchment
    warnings.simplefilter('ignore')
    rng = random.Random(rec.seed + 13); nrng = np.random.default_rng(rec.seed + 130)
    quick = rec.tier == 'quick'
    tmp = tempfile.mkdtemp(prefix='c13_', dir=os.path.join(VERIF, '.cache'))
    ev = 0; bad = 0; seen = set()
    try:
        for it in range(60 if quick else 600):
            dt = (INTS + FLOATS)[it % 11]
            nr = rng.choice([1, 1, 2, 3, 7]); nc = rng.choice([1, 2, 4, 9])
            csz = rng.choice([1.0, 0.05, 0.1, 1e-3, 250.0, float(np.float64(1) / 3), 2.0 ** -10 * 3])
            xll = rng.choice([0.0, 147.35, -1e6 + 0.1, 1e-9, 123456.789012345]); yll = rng.choice([0.0, -35.7, 7e5 + 1.0 / 3, -1e-7])
            d = np.dtype(dt)
            if d.kind in 'iu':
                info = np.iinfo(d); nod = rng.choice([0, info.min, info.max, min(info.max, 99), -1 if info.min < 0 else 1])
            else:
                nod = rng.choice([-9999.0, 0.0, float('nan'), 1e30 if dt != 'float16' else 6e4, -1.5])
            g = Grid('g%d' % it, ncols=nc, nrows=nr, cellsize=csz, xllcorner=xll, yllcorner=yll, dtype=d.type, nodata=nod, comment='test grid %d' % it)
            src = rand_data(nrng, dt, nr, nc)
            g.data = src
            desc = dict(dtype=dt, nrows=nr, ncols=nc, cellsize=repr(csz), xllcorner=repr(xll), yllcorner=repr(yll), nodata=repr(nod))
            child.progress('grid %d %s' % (it, dt))
            seen.add(tuple(sorted(desc.items())) + (src.tobytes()[:64],))
            if len(rec.samples) < 4:
                rec.samples.append(dict(kind='grid round-trip case', first_values=[repr(v) for v in src.ravel()[:4]], **desc))
            # ---- the setter keeps the values of the type
            ev += 1
            if not same_bits(g.data, src):
                bad += 1; _fail(rec, 'Grid.data', 'setter: values of the grid type are altered when stored', values=[repr(v) for v in src.ravel()[:6]], stored=[repr(v) for v in g.data.ravel()[:6]], **desc); continue
            # ---- save / load
            fb = os.path.join(tmp, 'g%d.bil' % it)
            ev += 1
            try:
                g.save(fb)
                h = Grid.from_header(fb)
                v = same_geo(g, h)
                if not same_bits(g.data, h.data):
                    v.append('cell values not bit-identical (first %r vs %r)' % ([repr(x) for x in h.data.ravel()[:4]], [repr(x) for x in g.data.ravel()[:4]]))
                if v:
                    bad += 1; _fail(rec, 'Grid.save/from_header', 'save-load: ' + '; '.join(v)[:300], **desc)
            except Exception as e:
                bad += 1; _fail(rec, 'Grid.save/from_header', 'save-load: raised %s %s' % (type(e).__name__, str(e)[:200]), **desc)
            # ---- a raster of the other byte order (header BYTEORDER M / I) is read with its values
            ev += 1
            try:
                for bo, sym_ in (('M', '>'), ('I', '<')):
                    fo = os.path.join(tmp, 'o%d_%s.bil' % (it, bo))
                    src.astype(d.newbyteorder(sym_)).tofile(fo)
                    hdr = open(fb[:-3] + 'hdr').read().split('\n')
                    hdr = [l for l in hdr if not l.upper().startswith('BYTEORDER')] + ['BYTEORDER      ' + bo]
                    open(fo[:-3] + 'hdr', 'w').write('\n'.join(l for l in hdr if l.strip()) + '\n')
                    h = Grid.from_header(fo)
                    ok_bo = h.data.shape == src.shape and np.array_equal(h.data, src, equal_nan=(d.kind == 'f'))
                    # the grid holds the values in its own (native) type; saved again and reloaded they are still the same
                    if ok_bo and not (h.data.dtype == d and np.dtype(h.dtype) == d and same_bits(h.data, src)):
                        bad += 1; _fail(rec, 'Grid.from_header', 'byteorder: a raster with BYTEORDER %s is held as %s (grid dtype %s) instead of the native type' % (bo, h.data.dtype.str, np.dtype(h.dtype).str), **desc)
                        break
                    if ok_bo:
                        f2 = os.path.join(tmp, 'r%d_%s.bil' % (it, bo))
                        h.save(f2); h2 = Grid.from_header(f2)
                        if not same_bits(h2.data, src):
                            bad += 1; _fail(rec, 'Grid.save/from_header', 'byteorder: a raster read with BYTEORDER %s, saved and loaded again has other values (first %r vs %r)' % (bo, [repr(x) for x in h2.data.ravel()[:3]], [repr(x) for x in src.ravel()[:3]]), **desc)
                            break
                    if not ok_bo:
                        bad += 1; _fail(rec, 'Grid.from_header', 'byteorder: a raster with BYTEORDER %s is read with wrong values (first %r vs %r)' % (bo, [repr(x) for x in h.data.ravel()[:3]], [repr(x) for x in src.ravel()[:3]]), **desc)
                        break
            except Exception as e:
                bad += 1; _fail(rec, 'Grid.from_header', 'byteorder: raised %s %s' % (type(e).__name__, str(e)[:200]), **desc)
            # ---- zip
            if it % 5 == 0:
                ev += 1
                try:
                    zf = os.path.join(tmp, 'z%d.zip' % it)
                    with zipfile.ZipFile(zf, 'w') as ar:
                        ar.write(fb, 'sub/g.bil'); ar.write(fb[:-3] + 'hdr', 'sub/g.hdr')
                    h = Grid.from_zip(zf, 'sub/g.hdr')
                    v = same_geo(g, h)
                    if not same_bits(g.data, h.data):
                        v.append('cell values not bit-identical')
                    if v:
                        bad += 1; _fail(rec, 'Grid.from_zip', 'zip: ' + '; '.join(v)[:300], **desc)
                except Exception as e:
                    bad += 1; _fail(rec, 'Grid.from_zip', 'zip: raised %s %s' % (type(e).__name__, str(e)[:200]), **desc)
            # ---- dictionary (through JSON as well)
            ev += 1
            try:
                dd = g.to_dict()
                for via in ('dict', 'json'):
                    d2 = json.loads(json.dumps({k: (v.item() if hasattr(v, 'item') else v) for k, v in dd.items()})) if via == 'json' else dd
                    h = Grid.from_dict(d2)
                    v = same_geo(g, h)
                    if h.name != g.name or h.comment != g.comment:
                        v.append('name / comment differ')
                    if v:
                        bad += 1; _fail(rec, 'Grid.to_dict/from_dict', 'dict (%s): ' % via + '; '.join(v)[:300], **desc); break
            except Exception as e:
                bad += 1; _fail(rec, 'Grid.to_dict/from_dict', 'dict: raised %s %s' % (type(e).__name__, str(e)[:200]), **desc)
            # ---- clone: identical and independent
            ev += 1
            c = g.clone()
            v = same_geo(g, c)
            if not same_bits(g.data, c.data):
                v.append('cell values not bit-identical')
            before = g.data.copy()
            c.data.flat[0] = c.data.flat[-1]; c.name = 'other'; c.xllcorner = c.xllcorner + 1
            if not same_bits(g.data, before) or g.name == 'other' or np.shares_memory(c.data, g.data):
                v.append('clone shares state with the original')
            if v:
                bad += 1; _fail(rec, 'Grid.clone', 'clone: ' + '; '.join(v)[:300], **desc)
            # clone with an explicit type (its own and another one): converted values, always independent of the original
            for dt2 in (d.type, np.float64 if d.type is not np.float64 else np.float32):
                ev += 1
                try:
                    c2 = g.clone(dt2)
                    v = []
                    if np.dtype(c2.dtype) != np.dtype(dt2) or c2.data.dtype != np.dtype(dt2):
                        v.append('dtype %s, asked %s' % (c2.data.dtype, np.dtype(dt2)))
                    if not np.array_equal(c2.data, g.data.astype(dt2), equal_nan=True):
                        v.append('values differ from the converted values of the original')
                    before = g.data.copy()
                    c2.data.flat[0] = c2.data.flat[-1]; c2.fill(1)
                    if not same_bits(g.data, before) or np.shares_memory(c2.data, g.data):
                        v.append('clone(%s) shares its cell values with the original' % np.dtype(dt2))
                    if v:
                        bad += 1; _fail(rec, 'Grid.clone', 'clone-dtype: ' + '; '.join(v)[:300], asked=str(np.dtype(dt2)), **desc); break
                except Exception as e:
                    bad += 1; _fail(rec, 'Grid.clone', 'clone-dtype: raised %s %s' % (type(e).__name__, str(e)[:200]), asked=str(np.dtype(dt2)), **desc); break
            # ---- clip: values at coinciding cell centres
            if nr * nc >= 2:
                ev += 1
                try:
                    r0, r1 = sorted([rng.randrange(nr), rng.randrange(nr)]); c0, c1 = sorted([rng.randrange(nc), rng.randrange(nc)])
                    # corners strictly inside the cells (r1, c0) [lower left] and (r0, c1) [upper right]
                    fx = rng.choice([0.25, 0.5, 0.75]); fy = rng.choice([0.25, 0.5, 0.75])
                    x0 = g.xllcorner + (c0 + fx) * csz; x1 = g.xllcorner + (c1 + fx) * csz
                    y0 = g.yllcorner + (nr - 1 - r1 + fy) * csz; y1 = g.yllcorner + (nr - 1 - r0 + fy) * csz
                    k = g.clip(x0, y0, x1, y1)
                    v = []
                    if np.dtype(k.dtype) != d or k.data.dtype != d:
                        v.append('dtype %s' % k.data.dtype)
                    cells = np.arange(k.nrows * k.ncols)
                    xy = k.cell2coord(cells)
                    pc = g.coord2cell(xy)
                    if np.any(pc < 0) or not np.array_equal(g.data.flat[pc], k.data.ravel(), equal_nan=(d.kind == 'f')):
                        v.append('values differ from the parent at coinciding centres')
                    pxy = g.cell2coord(pc)
                    if not np.allclose(pxy, xy, rtol=0, atol=1e-9 * max(1.0, abs(xll), abs(yll), csz)):
                        v.append('cell centres do not coincide with parent centres')
                    if (k.nrows, k.ncols) != (r1 - r0 + 1, c1 - c0 + 1):
                        v.append('shape %dx%d, expected %dx%d' % (k.nrows, k.ncols, r1 - r0 + 1, c1 - c0 + 1))
                    if v:
                        bad += 1; _fail(rec, 'Grid.clip', 'clip: ' + '; '.join(v)[:300], box=[repr(x0), repr(y0), repr(x1), repr(y1)], **desc)
                except Exception as e:
                    bad += 1; _fail(rec, 'Grid.clip', 'clip: raised %s %s' % (type(e).__name__, str(e)[:200]), **desc)
        # ---- catchments
        from props.common import acyclic_grids
        from props.monitors import make_flowdir, quiet
        for (nr, nc, fd) in acyclic_grids(rng, rec.tier, n=30 if quick else 300):
            n = nr * nc
            g = make_flowdir(nr, nc, fd)
            ca = Catchment('cat', g)
            # the outlet with the largest catchment among a few candidates (random outlets mostly give one-cell catchments)
            best = None
            for cand in rng.sample(range(n), min(n, 6)):
                try:
                    ct = Catchment('cat', g); quiet(ct.delineate_area, cand, None, n + 2)
                    if best is None or len(ct.idxcells_area) > best[1]:
                        best = (cand, len(ct.idxcells_area))
                except ValueError:
                    pass
            if best is None:
                continue
            outlet = best[0]
            inlets = None
            try:
                quiet(ca.delineate_area, outlet, None, n + 2)
                ups = [int(c) for c in ca.idxcells_area if int(c) != outlet]
                if ups and rng.random() < 0.6:
                    # an inlet inside the catchment: the area upstream of it is cut off
                    inlets = [rng.choice(ups)]
                    ca = Catchment('cat', g)
                    quiet(ca.delineate_area, outlet, inlets, n + 2)
            except ValueError:
                continue
            if ca._idxcells_area is None or len(ca.idxcells_area) == 0:
                continue
            ev += 1
            try:
                dd = ca.to_dict()
                cb = Catchment.from_dict(json.loads(json.dumps(dd, default=lambda o: o.item() if hasattr(o, 'item') else str(o))))
                v = []
                if cb.idxcell_outlet != ca.idxcell_outlet:
                    v.append('outlet %r != %r' % (cb.idxcell_outlet, ca.idxcell_outlet))
                ia = None if ca.idxinlets is None else [int(x) for x in ca.idxinlets]
                ib = None if cb.idxinlets is None else [int(x) for x in cb.idxinlets]
                if ia != ib:
                    v.append('inlets %r != %r' % (ib, ia))
                if list(cb.idxcells_area) != list(ca.idxcells_area) or list(cb.idxcells_area_filled) != list(ca.idxcells_area_filled):
                    v.append('areas differ')
                v += same_geo(ca.flowdir, cb.flowdir)
                if v:
                    bad += 1; _fail(rec, 'Catchment.to_dict/from_dict', 'catchment: ' + '; '.join(v)[:300], nrows=nr, ncols=nc, flowdir=fd, outlet=outlet, inlets=inlets)
            except Exception as e:
                bad += 1; _fail(rec, 'Catchment.to_dict/from_dict', 'catchment: raised %s %s' % (type(e).__name__, str(e)[:200]), nrows=nr, ncols=nc, flowdir=fd, outlet=outlet, inlets=inlets)
    finally:
        shutil.rmtree(tmp, ignore_errors=True)
    rec.bounded_clause('Grid save/load (BIL + header, zip), rasters of either byte order, to_dict/from_dict (+JSON), clone (identical, independent), clip (parent values at coinciding centres); Catchment to_dict/from_dict (outlet, inlets, areas)',
                       '%d grids over 11 dtypes (full value range, NaN / inf), shapes 1x1..7x9, 7 cell sizes, 5x4 origins, 5 no-data values per type; %d delineated catchments with / without inlets' % (60 if quick else 600, 30 if quick else 300),
                       ev, len(seen), False, bad)


def run(tier):
    r = Run('C13', tier, level='exploration')
    cm.run_kernels(r, cm.kernels('c_coord2cell', 'c_cell2rowcol', 'c_cell2coord'))
    from vf import child
    res = child.run('props.C13', 'monitors_child', r.prop, r.tier, r.seed)
    child.merge(r, res['recorder'])
    if res['rc'] != 0:
        r.broken.append('C13 child failed (rc=%s) at %s: %s' % (res['rc'], res['progress'], res['stderr'][-1500:]))
    r.assumptions += ['only the three coordinate kernels the clip relies on are proved (contracts of C07); save / load / to_dict / from_dict / clone / clip themselves (numpy.tofile / fromfile, header text, deepcopy) are covered by the bounded contract evaluation only']
    r.explanation = 'proved: coordinate kernels used by clip (Engine C); bounded: the round-trip contracts of the real Grid / Catchment methods over dtypes x shapes x georeferencing x byte orders'
    return r.finish()
