"""C14 - variable-to-fixed time-step conversion is the exact period average."""
from vf.check import Run
from props import common as cm


def run(tier):
    r = Run('C14', tier, level='other')
    cm.run_kernels(r, cm.kernels('c_var2h', 'c_var2h#average'))
    from vf import child
    res = child.run('props.C14', 'monitors_child', r.prop, r.tier, r.seed)
    child.merge(r, res['recorder'])
    if res['rc'] != 0:
        r.broken.append('C14 monitors child failed (rc=%s) at %s: %s' % (res['rc'], res['progress'], res['stderr'][-1500:]))
    r.assumptions += ['c_var2h#average: products and quotients of non-constant reals are uninterpreted functions (rmul commutative): the code is compared with the ghost integral structurally; sound, and the integral itself is defined with the same operations',
                      'c_var2h#average: time stamps non-decreasing, origin inside the data, maxgapsec >= 0 are preconditions; the statement is over the reals (no rounding)',
                      'that the ghost trap(k, i) - the trapezoid on the clipped interval - is the integral of the linear interpolant there is the (exact) trapezoid rule for a linear function: stated, not mechanised']
    r.explanation = ('proved (Engine C): memory safety, no integer overflow and termination of c_var2h for every series; under the contract '
                     'c_var2h#average (sorted stamps, hstart inside the data) every value but the last is missing or the exact period '
                     'average / rainfall total of the interpolant (doubles read as reals, products compared structurally), and a missing '
                     'period inside the data has an invalid interval touching it; bounded: the same clauses evaluated with exact rationals '
                     'on enumerated series, the pandas wrapper (units, time zones)')
    return r.finish()


# ------------------------------------------------------------------------------------------------ python-level bounded monitor
def _fail(rec, name, what, **w):
    rec.violation(dict(function=name, kind='monitor', clause=what.split(':')[0][:80]), 'bounded monitor %s: %s' % (name, what), witness=dict(python=True, source='bounded monitor', **w))


def oracle(secs, vals, hstart, P, nper, rainfall, maxgap):
    """exact period averages of the piecewise-linear interpolant (rainfall: totals of the increments spread uniformly), None = missing,
    'free' = not constrained by the property (final period, periods reaching beyond the data)"""
    from fractions import Fraction as Fr
    out = []
    for i in range(nper):
        a = hstart + i * P; b = a + P
        if i == nper - 1 or b > secs[-1] or a < secs[0]:
            out.append('free'); continue
        tot = Fr(0); miss = False; free = False
        for k in range(len(secs) - 1):
            t1, t2 = secs[k], secs[k + 1]
            lo, hi = max(t1, a), min(t2, b)
            if hi <= lo:
                # an invalid interval that merely touches the period (or has no length) leaves it unconstrained (quantifier of C14)
                v1, v2 = vals[k], vals[k + 1]
                if hi == lo and (v1 is None or v2 is None or v1 < 0 or v2 < 0 or t2 - t1 > maxgap):
                    free = True
                continue
            v1, v2 = vals[k], vals[k + 1]
            if v1 is None or v2 is None or v1 < 0 or v2 < 0 or t2 - t1 > maxgap:
                miss = True; break
            if rainfall:
                tot += v2 * Fr(hi - lo, t2 - t1)
            else:
                s = (v2 - v1) / Fr(t2 - t1)
                tot += (2 * v1 + s * (lo - t1) + s * (hi - t1)) * Fr(hi - lo) / 2
        out.append('free' if (free and not miss) else None if miss else (tot if rainfall else tot / P))
    return out


def monitors_child(rec):
    from fractions import Fraction as Fr
    import random, warnings
    import numpy as np
    from props import apidrive
    from vf import child
    apidrive.setup()
    import pandas as pd
    from hydrodiy.data import dutils as D
    warnings.simplefilter('ignore')
    rng = random.Random(rec.seed + 14)
    quick = rec.tier == 'quick'
    DD = child.Distinct().wrap(D, 'var2h')
    ev = 0; bad = 0
    tzs = [None, 'UTC']
    for cand in ('Australia/Sydney', 'Etc/GMT-10'):
        try:
            pd.Timestamp('2001-01-01', tz=cand); tzs.append(cand)
        except Exception:
            pass
    t0 = pd.Timestamp('2001-03-04 05:00:00')
    for it in range(120 if quick else 1500):
        child.progress('var2h series %d' % it)
        n = rng.choice([2, 3, 5, 9, 20])
        P = rng.choice([3600, 1800]); rain = rng.random() < 0.4; maxgap = rng.choice([3600, 7200, 5 * 86400])
        steps = [rng.choice([1, 60, 600, 1800, 3600, 3601, 5000, 0, 7200, 9000]) for _ in range(n - 1)]
        off = rng.choice([0, 1, 59, 1800, 3599])
        rel = [off]
        for s in steps:
            rel.append(rel[-1] + s)
        if rel[-1] - rel[0] < 2 * P:
            rel[-1] = rel[0] + 2 * P + rng.choice([0, 7, 1800])
        vals = [rng.choice([Fr(0), Fr(1), Fr(5, 2), Fr(7), Fr(1, 8), Fr(-1), None, Fr(3)]) for _ in range(n)]
        fv = [float('nan') if v is None else float(v) for v in vals]
        base = pd.DatetimeIndex([t0 + pd.Timedelta(seconds=r) for r in rel])
        ref = None; refdesc = None
        for unit in ('ns', 'us', 'ms', 's'):
            for tz in tzs:
                idx = base.as_unit(unit)
                if tz is not None:
                    idx = idx.tz_localize(tz)
                se = pd.Series(fv, index=idx)
                try:
                    out = D.var2h(se, P, maxgap, rain); ev += 1
                except Exception as e:
                    bad += 1; _fail(rec, 'var2h', 'raises: %s %s for unit %s tz %s' % (type(e).__name__, str(e)[:100], unit, tz), seconds=rel, values=[repr(v) for v in fv], period=P, rainfall=rain, maxgapsec=maxgap); break
                res = out.values
                if ref is None:
                    ref = res; refdesc = (unit, tz)
                    # against the exact oracle (wall-clock seconds of the naive index)
                    epoch = [int((t0 - pd.Timestamp('1970-01-01')).total_seconds()) + r for r in rel]
                    hstart = (epoch[0] // 3600 + 1) * 3600
                    exp = oracle(epoch, vals, hstart, P, len(res), rain, maxgap)
                    for i, (g, e) in enumerate(zip(res, exp)):
                        if e == 'free':
                            continue
                        if (e is None) != bool(np.isnan(g)) or (e is not None and abs(g - float(e)) > 1e-9 * max(1.0, abs(float(e)))):
                            bad += 1; _fail(rec, 'var2h', 'average: period %d is %r, expected %s' % (i, g, 'missing' if e is None else float(e)), seconds=rel, values=[repr(v) for v in fv], period=P, rainfall=rain, maxgapsec=maxgap, unit=unit, tz=tz)
                            break
                elif not (len(res) == len(ref) and np.array_equal(res, ref, equal_nan=True)):
                    bad += 1; _fail(rec, 'var2h', 'index-independence: result with unit %s / tz %s differs from unit %s / tz %s (%d vs %d non-missing values)' % (unit, tz, refdesc[0], refdesc[1], int(np.sum(~np.isnan(res))), int(np.sum(~np.isnan(ref)))),
                                    seconds=rel, values=[repr(v) for v in fv], period=P, rainfall=rain, maxgapsec=maxgap)
                    break
            else:
                continue
            break
    rec.bounded_clause('var2h (python wrapper): every value missing or the exact period average / total (rational oracle), result independent of the storage unit (ns, us, ms, s) and of the time zone of the index',
                       '%d irregular series of 2..20 observations (steps 0 s .. 2.5 h, values incl. negative and NaN) x periods 1800 / 3600 x rainfall flag x 3 maxgapsec x 4 units x %d time zones' % (120 if quick else 1500, len(tzs)),
                       ev, DD.n('var2h'), False, bad)
