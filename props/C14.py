"""C14 - variable-to-fixed time-step conversion is the exact period average."""
from vf.check import Run
from props import common as cm


def run(tier):
    r = Run('C14', tier, level='other')
    cm.run_kernels(r, cm.kernels('c_var2h'))
    r.explanation = ('proved (Engine C): memory safety, no integer overflow and termination of c_var2h for every series; '
                     'bounded: each value is missing or the exact period average (exact rational oracle on enumerated series), pandas wrapper')
    return r.finish()
