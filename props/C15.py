"""C15 - point-in-polygon answers agree with the even-odd rule."""
from vf.check import Run
from props import common as cm


def run(tier):
    r = Run('C15', tier, level='proof')
    cm.run_kernels(r, cm.kernels('c_inside', 'c_inside#evenodd'))
    r.explanation = ('Engine C on the real c_inside: for points inside the bounding box the answer is the parity of the half-open crossing number '
                     '(per-edge step proved in nonlinear real arithmetic under the input class of the property), points outside the box keep the caller\'s value')
    try:
        import traceback
        from vf import pproof, engp
        obls, npaths = wrapper_obligations()
        pproof.discharge(r, obls, file='src/hydrodiy/gis/gutils.py', fn_of=lambda ob: 'points_inside_polygon (python wrapper)')
        r.functions.append(dict(file='gutils.py', fn='points_inside_polygon (python wrapper)', trusted=['c_hydrodiy_gis (replaced by a recorder: its behaviour is the proved kernel contract)'], nonterminating=[], cutloops=0, unrolled=0, terminating=0))
        r.extra['paths_explored'] = npaths
    except (engp.Unsupported, engp.PathLimit) as e:
        r.undecided.append('Engine P cannot execute the current points_inside_polygon wrapper symbolically: %s' % (str(e)[:300],))
    except Exception:
        r.broken.append('C15 Engine P driver crashed: ' + traceback.format_exc()[-2500:])
    cm.run_monitors(r, ['mon_polygon_api'])
    return r.finish()


# ------------------------------------------------------------------------------------------------ Engine P: the python wrapper of c_inside
def wrapper_obligations():
    """the real gutils.points_inside_polygon on symbolic points / polygon with the compiled module replaced by a recorder: the kernel is entered
    once with the tolerance, the points and the vertices unchanged and a result vector that is ZERO on entry - also when the caller supplies a
    vector holding values from an earlier call (the kernel leaves points outside the bounding box untouched: its contract says so) - and the
    vector the kernel wrote is what the caller gets"""
    import numpy as np, z3
    from vf import engp, pproof, pybuild
    from vf.engp import sym, SymReal, SA
    pybuild.activate()
    from hydrodiy.gis import gutils as U

    class Kernel:
        def __init__(self):
            self.calls = []

        def points_inside_polygon(self, atol, nprint, points, polygon, inside):
            self.calls.append(dict(atol=atol, nprint=int(nprint), points=np.asarray(points, dtype=object).copy(), polygon=np.asarray(polygon, dtype=object).copy(),
                                   inside0=[int(v) for v in inside], dtype=np.asarray(inside).dtype, same_buffer=inside))
            inside[:] = [1, 0, 1][:len(inside)]
            return 0

    obls = []; npaths = 0
    npt = 3
    eq = lambda a, b: z3.And(z3.Not(SymReal.lift(a).nan), SymReal.lift(a).val == SymReal.lift(b).val)
    # triangles, quadrilaterals and pentagons (vertex lists of different lengths may be treated differently by the glue)
    for nv, given in [(3, None), (3, 'zeros'), (3, 'stale'), (4, None), (4, 'stale'), (5, None)]:
        P = [[sym('p%d_%d' % (i, k)) for k in range(2)] for i in range(npt)]; V = [[sym('v%d_%d' % (i, k)) for k in range(2)] for i in range(nv)]
        names = ['p%d_%d' % (i, k) for i in range(npt) for k in range(2)] + ['v%d_%d' % (i, k) for i in range(nv) for k in range(2)]
        kern = Kernel()
        buf = None if given is None else (np.zeros(npt, dtype=np.int32) if given == 'zeros' else np.ones(npt, dtype=np.int32))

        def run():
            kern.calls = []
            a = np.empty((npt, 2), dtype=object); b = np.empty((nv, 2), dtype=object)
            for i in range(npt):
                a[i, :] = P[i]
            for i in range(nv):
                b[i, :] = V[i]
            if buf is not None and given == 'stale':
                buf[:] = 1
            out = U.points_inside_polygon(a.view(SA), b.view(SA)) if buf is None else U.points_inside_polygon(a.view(SA), b.view(SA), buf)
            return out, list(kern.calls)
        saved = (U.np, U.c_hydrodiy_gis, U.has_c_module)
        U.np = engp.NPProxy(); U.c_hydrodiy_gis = kern; U.has_c_module = lambda *a, **kw: True
        try:
            paths = engp.explore(run, base=[], allowed_exc=())
        finally:
            U.np, U.c_hydrodiy_gis, U.has_c_module = saved
        npaths += len(paths)
        for kp, pa in enumerate(paths):
            out, calls = pa.result
            hyp = list(pa.pc) + list(pa.axioms)
            tag = 'gutils.py/points_inside_polygon/vertices=%d/inside=%s/path%d' % (nv, given, kp)
            if len(calls) != 1:
                obls.append(pproof.PObligation(tag + '/one-kernel-call', 'post', 'the kernel is entered exactly once', hyp, z3.BoolVal(False), names)); continue
            c = calls[0]
            obls.append(pproof.PObligation(tag + '/zeroed-result-vector', 'post', 'the kernel receives an int32 result vector of one entry per point that is zero on entry (caller vector: %s)' % given, hyp,
                                           z3.BoolVal(c['inside0'] == [0] * npt and c['dtype'] == np.int32 and (buf is None or c['same_buffer'] is buf)), names))
            shapes_ok = c['points'].shape == (npt, 2) and c['polygon'].shape == (nv, 2)
            same = ([eq(c['points'][i, k], P[i][k]) for i in range(npt) for k in range(2)] + [eq(c['polygon'][i, k], V[i][k]) for i in range(nv) for k in range(2)]) if shapes_ok else []
            obls.append(pproof.PObligation(tag + '/data', 'post', 'the kernel receives the points and the vertices unchanged (all %d of them) and the default tolerance 1e-8' % nv, hyp,
                                           z3.And(z3.BoolVal(shapes_ok and float(c['atol']) == 1e-8), *same), names))
            obls.append(pproof.PObligation(tag + '/returns-kernel-flags', 'post', 'the flags written by the kernel are returned', hyp, z3.BoolVal([int(v) for v in out] == [1, 0, 1]), names))
    return obls, npaths
