"""C15 - point-in-polygon answers agree with the even-odd rule."""
from vf.check import Run
from props import common as cm


def run(tier):
    r = Run('C15', tier, level='proof')
    cm.run_kernels(r, cm.kernels('c_inside', 'c_inside#evenodd'))
    r.explanation = ('Engine C on the real c_inside: for points inside the bounding box the answer is the parity of the half-open crossing number '
                     '(per-edge step proved in nonlinear real arithmetic under the input class of the property), points outside the box keep the caller\'s value')
    cm.run_monitors(r, ['mon_polygon_api'])
    return r.finish()
