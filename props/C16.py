"""C16 - catchment-grid intersection and Voronoi weights conserve area."""
from vf.check import Run
from props import common as cm


def run(tier):
    r = Run('C16', tier, level='other')
    cm.run_kernels(r, cm.kernels('c_coord2cell', 'c_intersect', 'c_voronoi'))
    cm.run_monitors(r, ['mon_intersect_voronoi'])
    r.explanation = ('proved (Engine C): c_intersect lists each grid cell holding a catchment-cell centre exactly once with weight count x area ratio '
                     '(pigeonhole lemma external, Lean); c_voronoi memory safety, rejection of an empty point set, non-negative weights; '
                     'bounded: nearest-point fractions and sums (python monitors)')
    return r.finish()
