"""C16 - catchment-grid intersection and Voronoi weights conserve area."""
from vf.check import Run
from props import common as cm


def lean_lemma(r, tier):
    """the external lemma the contract of c_intersect assumes (`Pigeonhole`) is proved in lean/Pigeonhole.lean; the Lean kernel re-checks it in
    the thorough tier (cold start of Mathlib: about two minutes); the quick tier lists it as assumed"""
    import os, subprocess, time
    here = os.path.dirname(os.path.dirname(os.path.abspath(__file__)))
    src = os.path.join(here, 'lean', 'Pigeonhole.lean')
    note = 'Pigeonhole (assumed in the inner search loop of c_intersect): j pairwise distinct valid cells, all different from one more valid cell, satisfy j < nrows*ncols'
    if tier != 'thorough':
        r.assumptions.append('external lemma Pigeonhole assumed in this run; its Lean proof (lean/Pigeonhole.lean, theorems pigeonhole / pigeonhole_int) is re-checked by the thorough tier')
        return
    t0 = time.time()
    try:
        cp = subprocess.run(['lean', src], capture_output=True, text=True, timeout=1500, cwd=os.path.join(here, 'lean'))
        out = (cp.stdout + cp.stderr)
        ok = cp.returncode == 0 and 'error' not in out and 'sorry' not in out
    except Exception as e:
        ok = False; out = repr(e)
    rec = dict(id='lean/Pigeonhole.lean/pigeonhole_int', kind='lemma', fn='c_intersect', line=0, note=note, text=note, file='lean/Pigeonhole.lean',
               status='unsat' if ok else 'unknown', backend='lean 4 + Mathlib', time=time.time() - t0, reason='' if ok else out[-500:])
    r.vcs.append(rec)
    if ok:
        r.by_backend['lean 4 + Mathlib'] += 1
    else:
        r.undecided.append('lean/Pigeonhole.lean: the Lean proof of the external lemma did not check: %s' % out[-600:])


def run(tier):
    r = Run('C16', tier, level='other')
    cm.run_kernels(r, cm.kernels('c_coord2cell', 'c_intersect', 'c_voronoi', 'c_voronoi#nearest'))
    cm.run_monitors(r, ['mon_intersect_voronoi'])
    lean_lemma(r, tier)
    r.explanation = ('proved (Engine C): c_intersect lists each grid cell holding a catchment-cell centre exactly once with weight count x area ratio '
                     '(pigeonhole lemma external: proved in lean/Pigeonhole.lean, re-checked by the thorough tier); c_voronoi#nearest: weight j == (number of cells whose nearest point is j) / ncells and the counts add up to ncells (weights sum to 1); c_voronoi memory safety, rejection of an empty point set, non-negative weights; '
                     'bounded: nearest-point fractions and sums (python monitors)')
    return r.finish()
