"""C17 - AR simulation and residual computation are exact inverses."""
from vf.check import Run
from props import common as cm


def run(tier):
    r = Run('C17', tier, level='other')
    cm.run_kernels(r, cm.kernels('c_armodel_sim', 'c_armodel_residual'))
    from vf import child
    res = child.run('props.C17', 'monitors_child', r.prop, r.tier, r.seed)
    child.merge(r, res['recorder'])
    if res['rc'] != 0:
        r.broken.append('C17 monitors child failed (rc=%s) at %s: %s' % (res['rc'], res['progress'], res['stderr'][-1500:]))
    r.explanation = ('proved (Engine C, products phi*y compared structurally): armodel_sim satisfies y[t]-m = sum phi[k](y[t-k]-m) + e[t] from the initial value, '
                     'armodel_residual returns v[t] - sum phi[k] v[t-k] with missing inputs replaced by their prediction (zero residual), orders outside 1..10 and NaN '
                     'parameters rejected; bounded: residual(sim(e)) = e and sim(residual(y)) = y through the Python API')
    return r.finish()


# ------------------------------------------------------------------------------------------------ python-level bounded monitor
def _fail(rec, name, what, **w):
    rec.violation(dict(function=name, kind='monitor', clause=what.split(':')[0][:80]), 'bounded monitor %s: %s' % (name, what), witness=dict(python=True, source='bounded monitor', **w))


def monitors_child(rec):
    import random, warnings
    from fractions import Fraction as Fr
    import numpy as np
    from props import apidrive
    from vf import child
    apidrive.setup()
    from hydrodiy.stat import armodels as A
    warnings.simplefilter('ignore')
    rng = random.Random(rec.seed + 17)
    quick = rec.tier == 'quick'
    DD = child.Distinct().wrap(A, 'armodel_sim').wrap(A, 'armodel_residual')
    ev = 0; bad = 0
    lat = [Fr(k, 8) for k in range(-24, 25)]
    for it in range(250 if quick else 2500):
        child.progress('armodels %d' % it)
        order = rng.choice([1, 1, 2, 3, 5, 10]); n = rng.choice([1, 2, 3, 7, 25])
        phi = [rng.choice([Fr(0), Fr(1, 2), Fr(-1, 4), Fr(1, 8), Fr(3, 4), Fr(-1, 2)]) for _ in range(order)]
        mean = rng.choice([Fr(0), Fr(20), Fr(-7, 2), Fr(1, 4)])
        ini = rng.choice([None, Fr(0), Fr(10), mean, Fr(-7, 2), Fr(0)])
        e = [rng.choice(lat) for _ in range(n)]
        # exact oracle of the recursion started from the initial value
        y0 = mean if ini is None else ini
        prev = [y0 - mean] * order; ys = []
        for t in range(n):
            v = sum(p * q for p, q in zip(phi, prev)) + e[t]
            ys.append(v + mean); prev = [v] + prev[:-1]
        fphi = np.array([float(p) for p in phi]); fe = np.array([float(x) for x in e])
        kw = dict(sim_mean=float(mean)); kw2 = dict(sim_mean=float(mean))
        if ini is not None:
            kw['sim_ini'] = float(ini); kw2['sim_ini'] = float(ini)
        ev += 1
        try:
            y = A.armodel_sim(fphi, fe, **kw)
            r = A.armodel_residual(fphi, y, **kw2)
            y2 = A.armodel_sim(fphi, r, **kw)
            ok1 = np.allclose(y, [float(v) for v in ys], rtol=1e-12, atol=1e-12)
            # cancellation: the residual is a difference of terms of the size of the (possibly explosive) simulation
            scale = max(1.0, float(np.max(np.abs(y)))) * 1e-13 * (order + 1)
            ok2 = np.allclose(r, fe, rtol=0, atol=scale)
            ok3 = np.allclose(y2, y, rtol=1e-11, atol=scale * 10)
            # the default initial value is the mean
            ok4 = True
            if ini is None:
                ok4 = np.allclose(A.armodel_residual(fphi, y, sim_mean=float(mean), sim_ini=float(mean)), r, rtol=1e-12, atol=1e-12)
            if not (ok1 and ok2 and ok3 and ok4):
                bad += 1; _fail(rec, 'armodel_sim/armodel_residual', 'inverse: sim == recursion %s, residual(sim(e)) == e %s, sim(residual(y)) == y %s, default initial value %s' % (ok1, ok2, ok3, ok4),
                                params=[float(p) for p in phi], innov=fe.tolist(), sim_mean=float(mean), sim_ini=None if ini is None else float(ini), sim=np.asarray(y).tolist(), residual=np.asarray(r).tolist())
        except Exception as ex:
            bad += 1; _fail(rec, 'armodel_sim/armodel_residual', 'raises: %s %s' % (type(ex).__name__, str(ex)[:120]), params=[float(p) for p in phi], sim_mean=float(mean), sim_ini=None if ini is None else float(ini))
    rec.bounded_clause('armodel_sim follows the recursion from the initial value; residual(sim(e)) == e and sim(residual(y)) == y through the Python API, explicit and default initial values (incl. 0 with a non-zero mean)',
                       '%d cases: orders 1..10, 1..25 steps, coefficients / innovations on a dyadic lattice (exact rational oracle), 4 means x 5 initial values' % (250 if quick else 2500), ev, DD.n('armodel_sim'), False, bad)
