"""C17 - AR simulation and residual computation are exact inverses."""
from vf.check import Run
from props import common as cm


def run(tier):
    r = Run('C17', tier, level='other')
    cm.run_kernels(r, cm.kernels('c_armodel_sim', 'c_armodel_residual'))
    r.explanation = ('proved (Engine C, products phi*y compared structurally): armodel_sim satisfies y[t]-m = sum phi[k](y[t-k]-m) + e[t] from the initial value, '
                     'armodel_residual returns v[t] - sum phi[k] v[t-k] with missing inputs replaced by their prediction (zero residual), orders outside 1..10 and NaN '
                     'parameters rejected; bounded: residual(sim(e)) = e and sim(residual(y)) = y through the Python API')
    return r.finish()
