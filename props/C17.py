"""C17 - AR simulation and residual computation are exact inverses."""
from vf.check import Run
from props import common as cm


def run(tier):
    r = Run('C17', tier, level='other')
    cm.run_kernels(r, cm.kernels('c_armodel_sim', 'c_armodel_residual'))
    try:
        from vf import pproof, engp
        obls, npaths = wrapper_obligations()
        pproof.discharge(r, obls, file='src/hydrodiy/stat/armodels.py', fn_of=lambda ob: ob.id.split('/')[1])
        r.functions += [dict(file='armodels.py', fn=f, trusted=['c_hydrodiy_stat (replaced by a recorder: its behaviour is the proved kernel contract)'], nonterminating=[], cutloops=0, unrolled=0, terminating=0) for f in ('armodel_sim', 'armodel_residual')]
        r.extra['paths_explored'] = npaths
    except (engp.Unsupported, engp.PathLimit) as e:
        r.undecided.append('Engine P cannot execute the current armodels wrappers symbolically: %s' % (str(e)[:300],))
    except Exception:
        import traceback
        r.broken.append('C17 Engine P driver crashed: ' + traceback.format_exc()[-2500:])
    from vf import child
    res = child.run('props.C17', 'monitors_child', r.prop, r.tier, r.seed)
    child.merge(r, res['recorder'])
    if res['rc'] != 0:
        r.broken.append('C17 monitors child failed (rc=%s) at %s: %s' % (res['rc'], res['progress'], res['stderr'][-1500:]))
    r.explanation = ('proved (Engine C, products phi*y compared structurally): armodel_sim satisfies y[t]-m = sum phi[k](y[t-k]-m) + e[t] from the initial value, '
                     'armodel_residual returns v[t] - sum phi[k] v[t-k] with missing inputs replaced by their prediction (zero residual), orders outside 1..10 and NaN '
                     'parameters rejected; bounded: residual(sim(e)) = e and sim(residual(y)) = y through the Python API')
    return r.finish()


# ------------------------------------------------------------------------------------------------ python-level bounded monitor
def _fail(rec, name, what, **w):
    rec.violation(dict(function=name, kind='monitor', clause=what.split(':')[0][:80]), 'bounded monitor %s: %s' % (name, what), witness=dict(python=True, source='bounded monitor', **w))


def monitors_child(rec):
    import random, warnings
    from fractions import Fraction as Fr
    import numpy as np
    from props import apidrive
    from vf import child
    apidrive.setup()
    from hydrodiy.stat import armodels as A
    warnings.simplefilter('ignore')
    rng = random.Random(rec.seed + 17)
    quick = rec.tier == 'quick'
    DD = child.Distinct().wrap(A, 'armodel_sim').wrap(A, 'armodel_residual')
    ev = 0; bad = 0
    lat = [Fr(k, 8) for k in range(-24, 25)]
    for it in range(250 if quick else 2500):
        child.progress('armodels %d' % it)
        order = rng.choice([1, 1, 2, 3, 5, 10]); n = rng.choice([1, 2, 3, 7, 25])
        phi = [rng.choice([Fr(0), Fr(1, 2), Fr(-1, 4), Fr(1, 8), Fr(3, 4), Fr(-1, 2)]) for _ in range(order)]
        mean = rng.choice([Fr(0), Fr(20), Fr(-7, 2), Fr(1, 4)])
        ini = rng.choice([None, Fr(0), Fr(10), mean, Fr(-7, 2), Fr(0)])
        e = [rng.choice(lat) for _ in range(n)]
        # exact oracle of the recursion started from the initial value
        y0 = mean if ini is None else ini
        prev = [y0 - mean] * order; ys = []
        for t in range(n):
            v = sum(p * q for p, q in zip(phi, prev)) + e[t]
            ys.append(v + mean); prev = [v] + prev[:-1]
        fphi = np.array([float(p) for p in phi]); fe = np.array([float(x) for x in e])
        kw = dict(sim_mean=float(mean)); kw2 = dict(sim_mean=float(mean))
        if ini is not None:
            kw['sim_ini'] = float(ini); kw2['sim_ini'] = float(ini)
        ev += 1
        try:
            y = A.armodel_sim(fphi, fe, **kw)
            r = A.armodel_residual(fphi, y, **kw2)
            y2 = A.armodel_sim(fphi, r, **kw)
            ok1 = np.allclose(y, [float(v) for v in ys], rtol=1e-12, atol=1e-12)
            # cancellation: the residual is a difference of terms of the size of the (possibly explosive) simulation
            scale = max(1.0, float(np.max(np.abs(y)))) * 1e-13 * (order + 1)
            ok2 = np.allclose(r, fe, rtol=0, atol=scale)
            ok3 = np.allclose(y2, y, rtol=1e-11, atol=scale * 10)
            # the default initial value is the mean
            ok4 = True
            if ini is None:
                ok4 = np.allclose(A.armodel_residual(fphi, y, sim_mean=float(mean), sim_ini=float(mean)), r, rtol=1e-12, atol=1e-12)
            if not (ok1 and ok2 and ok3 and ok4):
                bad += 1; _fail(rec, 'armodel_sim/armodel_residual', 'inverse: sim == recursion %s, residual(sim(e)) == e %s, sim(residual(y)) == y %s, default initial value %s' % (ok1, ok2, ok3, ok4),
                                params=[float(p) for p in phi], innov=fe.tolist(), sim_mean=float(mean), sim_ini=None if ini is None else float(ini), sim=np.asarray(y).tolist(), residual=np.asarray(r).tolist())
        except Exception as ex:
            bad += 1; _fail(rec, 'armodel_sim/armodel_residual', 'raises: %s %s' % (type(ex).__name__, str(ex)[:120]), params=[float(p) for p in phi], sim_mean=float(mean), sim_ini=None if ini is None else float(ini))
    rec.bounded_clause('armodel_sim follows the recursion from the initial value; residual(sim(e)) == e and sim(residual(y)) == y through the Python API, explicit and default initial values (incl. 0 with a non-zero mean)',
                       '%d cases: orders 1..10, 1..25 steps, coefficients / innovations on a dyadic lattice (exact rational oracle), 4 means x 5 initial values' % (250 if quick else 2500), ev, DD.n('armodel_sim'), False, bad)


# ------------------------------------------------------------------------------------------------ Engine P: the python wrappers hand the kernel what the caller gave
def wrapper_obligations():
    """the real armodels.armodel_sim / armodel_residual executed on symbolic arguments with the compiled module replaced by a recorder:
    the kernel must be entered once with (sim_mean, the initial value - the mean when none is given -, the coefficients, the series) and the
    wrapper must return the kernel's output buffer reshaped.  What the kernels then compute is the proved part above."""
    import numpy as np, z3
    from vf import engp, pproof, pybuild
    from vf.engp import sym, SymReal, SA
    pybuild.activate()
    from hydrodiy.stat import armodels as A

    class NPX(engp.NPProxy):
        def nanmean(self, x, *a, **k):
            if not engp.symbolic(x):
                return np.nanmean(x, *a, **k)
            xs = list(np.asarray(x, dtype=object).ravel())          # the symbolic series holds numbers (no NaN): nanmean == mean
            return sum(xs[1:], xs[0]) / float(len(xs))

    class Kernel:
        def __init__(self):
            self.calls = []

        def armodel_sim(self, sim_mean, sim_ini, params, innov, outputs):
            self.calls.append(('sim', sim_mean, sim_ini, params, innov, outputs)); outputs[:] = [sym('out%d' % i) for i in range(len(outputs))]; return 0

        def armodel_residual(self, sim_mean, sim_ini, params, inputs, residuals):
            self.calls.append(('residual', sim_mean, sim_ini, params, inputs, residuals)); residuals[:] = [sym('out%d' % i) for i in range(len(residuals))]; return 0

    obls = []; npaths = 0
    n = 3; k = 2
    phi = [sym('phi%d' % i) for i in range(k)]; x = [sym('x%d' % i) for i in range(n)]
    mean = sym('mean'); ini = sym('ini')
    names = ['phi%d' % i for i in range(k)] + ['x%d' % i for i in range(n)] + ['mean', 'ini']
    same = lambda a, b: z3.And(z3.Not(SymReal.lift(a).nan), SymReal.lift(a).val == SymReal.lift(b).val)
    for fn in ('armodel_sim', 'armodel_residual'):
        for mean_given in (True, False):
            if fn == 'armodel_sim' and not mean_given:
                continue          # armodel_sim has a numeric default mean (0.): covered with the symbolic mean
            for ini_given in (True, False):
                kern = Kernel()

                def run():
                    kern.calls = []
                    p = np.empty(k, dtype=object); p[:] = phi; v = np.empty(n, dtype=object); v[:] = x
                    kw = {}
                    if mean_given:
                        kw['sim_mean'] = mean
                    if ini_given:
                        kw['sim_ini'] = ini
                    out = getattr(A, fn)(p.view(SA), v.view(SA), **kw)
                    return out, list(kern.calls)
                saved = (A.np, A.c_hydrodiy_stat, A.has_c_module)
                A.np = NPX(); A.c_hydrodiy_stat = kern; A.has_c_module = lambda *a, **kw: True
                try:
                    paths = engp.explore(run, base=[], allowed_exc=())
                finally:
                    A.np, A.c_hydrodiy_stat, A.has_c_module = saved
                npaths += len(paths)
                for kp, pa in enumerate(paths):
                    out, calls = pa.result
                    hyp = list(pa.pc) + list(pa.axioms)
                    tag = 'armodels.py/%s/mean_given=%s,ini_given=%s/path%d' % (fn, mean_given, ini_given, kp)
                    if len(calls) != 1:
                        obls.append(pproof.PObligation(tag + '/one-kernel-call', 'post', 'the kernel is entered exactly once', hyp, z3.BoolVal(False), names)); continue
                    _, a_mean, a_ini, a_par, a_x, a_out = calls[0]
                    exp_mean = mean if mean_given else sum(x[1:], x[0]) / float(n)
                    exp_ini = ini if ini_given else exp_mean
                    obls.append(pproof.PObligation(tag + '/mean', 'post', '%s passes the mean it was given (the mean of the series when none is given) to the kernel' % fn, hyp, same(a_mean, exp_mean), names))
                    obls.append(pproof.PObligation(tag + '/initial-value', 'post', '%s passes the initial value it was given - the mean when none is given - to the kernel' % fn, hyp, same(a_ini, exp_ini), names))
                    obls.append(pproof.PObligation(tag + '/coefficients', 'post', '%s passes the coefficients unchanged' % fn, hyp, z3.And(z3.BoolVal(len(a_par) == k), *[same(a_par[i], phi[i]) for i in range(min(k, len(a_par)))]), names))
                    obls.append(pproof.PObligation(tag + '/series', 'post', '%s passes the series unchanged' % fn, hyp, z3.And(z3.BoolVal(len(a_x) == n), *[same(a_x[i], x[i]) for i in range(min(n, len(a_x)))]), names))
                    o = list(np.asarray(out, dtype=object).ravel())
                    obls.append(pproof.PObligation(tag + '/returns-kernel-output', 'post', '%s returns what the kernel wrote, in the shape of the input' % fn, hyp,
                                                   z3.And(z3.BoolVal(np.shape(out) == (n,)), *[same(o[i], a_out[i]) for i in range(min(n, len(o)))]), names))
    return obls, npaths
