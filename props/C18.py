"""C18 - computations leave their arguments untouched and are repeatable.
Engine C : the frame (`assigns`) obligations of every kernel reachable from the Python API: a kernel writes nothing but the buffers named in
           its assigns clause.  Two kernels name an INPUT there (c_delineate_boundary sorts idxcells_area, c_ad_test sorts unifdata): their
           callers must hand over a copy - checked by the monitors.  Everything else a kernel receives is proved unchanged.
Bounded  : every API call of the boundary drive (props/apidrive.py) plus an explicit list (transforms, plots, pandas / integer / non-contiguous
           inputs) runs twice on caller-side copies: arguments compared bit for bit before / after, results of the two calls compared."""
import random, traceback, warnings, io, contextlib, copy
import numpy as np
from vf.check import Run
from props import common as cm

INPUT_IN_ASSIGNS = {('c_delineate_boundary', 'idxcells_area'), ('c_ad_test', 'unifdata'), ('c_delineate_area', 'idxcells_area')}
# labels of the drive that are excluded: raw wrappers of the compiled modules with explicit output arguments (not part of the property's list)
SKIP_PREFIX = ('c.',)
OUTPUT_ARGS = {'gutils.points_inside_polygon|inside': {2}}      # argument positions that ARE output buffers by documentation


def frame_summary(r):
    """which buffers each kernel may write, from the contracts; unexpected input-in-assigns pairs are reported"""
    from vf import contract
    import re
    cm.load_contracts()
    rows = []
    for rel, cf in contract.REGISTRY.items():
        for name, k in cf.kernels.items():
            regs = sorted(set(re.match(r'\s*(\w+)', a).group(1) for a in getattr(k, 'assigns_', []) or []))
            rows.append((name, regs))
    r.extra['kernel_frames'] = {n: regs for n, regs in rows}
    return rows


def snap(x):
    import pandas as pd
    from hydrodiy.gis.grid import Grid, Catchment
    if isinstance(x, np.ndarray):
        return ('nd', x.copy(), x.dtype, x.shape)
    if isinstance(x, (pd.Series, pd.DataFrame)):
        return ('pd', x.copy(deep=True), None, None)
    if isinstance(x, Catchment):
        return ('grid', x.flowdir.data.copy(), x.flowdir.data.dtype, x.flowdir.data.shape)
    if isinstance(x, Grid):
        return ('grid', x.data.copy(), x.data.dtype, x.data.shape)
    if isinstance(x, (list, tuple)):
        return ('seq', [snap(e) for e in x], type(x), len(x))
    return ('other', None, None, None)


def unchanged(x, s):
    import pandas as pd
    from hydrodiy.gis.grid import Grid, Catchment
    kind, val, dt, shp = s
    try:
        if kind == 'nd':
            return isinstance(x, np.ndarray) and x.dtype == dt and x.shape == shp and (np.array_equal(x, val, equal_nan=True) if x.dtype.kind in 'fc' else np.array_equal(x, val))
        if kind == 'pd':
            return type(x) == type(val) and x.equals(val) and list(x.index) == list(val.index) and (not isinstance(x, pd.DataFrame) or (list(x.columns) == list(val.columns) and list(x.dtypes) == list(val.dtypes)))
        if kind == 'grid':
            d = x.flowdir.data if isinstance(x, Catchment) else x.data
            return d.dtype == dt and d.shape == shp and np.array_equal(d, val, equal_nan=(d.dtype.kind == 'f'))
        if kind == 'seq':
            return type(x) == dt and len(x) == shp and all(unchanged(e, se) for e, se in zip(x, val))
    except Exception:
        return False
    return True


def same_result(a, b):
    import pandas as pd
    from hydrodiy.gis.grid import Grid
    try:
        if isinstance(a, np.ndarray) and isinstance(b, np.ndarray):
            if a.shape != b.shape or a.dtype != b.dtype:
                return False
            return np.array_equal(a, b, equal_nan=True) if a.dtype.kind in 'fc' else bool(np.all(a == b))
        if isinstance(a, (pd.Series, pd.DataFrame)):
            return type(a) == type(b) and a.equals(b)
        if isinstance(a, Grid) and isinstance(b, Grid):
            return same_result(a.data, b.data)
        if isinstance(a, (tuple, list)) and isinstance(b, (tuple, list)):
            return len(a) == len(b) and all(same_result(x, y) for x, y in zip(a, b))
        if isinstance(a, dict) and isinstance(b, dict):
            return a.keys() == b.keys() and all(same_result(a[k], b[k]) for k in a)
        if isinstance(a, (float, np.floating)) and isinstance(b, (float, np.floating)):
            return a == b or (np.isnan(a) and np.isnan(b))
        if isinstance(a, (int, str, bool, np.integer, type(None))):
            return a == b
    except Exception:
        return True
    return True            # objects without value semantics (figures, artists): not compared


def describe(x):
    import pandas as pd
    if isinstance(x, np.ndarray):
        return dict(ndarray=x.tolist() if x.size <= 60 else x.ravel()[:60].tolist(), dtype=str(x.dtype), shape=list(x.shape), c_contiguous=bool(x.flags['C_CONTIGUOUS']))
    if isinstance(x, pd.DataFrame):
        return dict(dataframe=x.head(20).to_dict('list'))
    if isinstance(x, pd.Series):
        return dict(series=x.head(30).tolist())
    return repr(x)[:200]


def make_probe(rec):
    from props import apidrive
    from vf.pyxl2 import KernelPreconditionViolated

    class AuditProbe(apidrive.Probe):
        def __init__(self):
            apidrive.Probe.__init__(self)
            self.audited = 0; self.repeat = 0; self.bad = 0

        def call(self, label, f, *a, **k):
            self.calls += 1; self.labels.add(label.split('|')[0])
            if label.startswith(SKIP_PREFIX):
                return None
            if getattr(self, 'progress', None):
                self.progress(label)
            outs = OUTPUT_ARGS.get(label, set())
            owner = getattr(f, '__self__', None)
            items = [(('arg %d' % i), v) for i, v in enumerate(a) if i not in outs] + [('kwarg ' + kk, v) for kk, v in k.items()] + ([('self', owner)] if owner is not None else [])
            snaps = [(nm, v, snap(v)) for nm, v in items]
            res = []
            for rep in range(2):
                try:
                    np.random.seed(424242)
                    with contextlib.redirect_stdout(io.StringIO()):
                        res.append(('ok', f(*a, **k)))
                except KernelPreconditionViolated:
                    res.append(('kpv', None))
                except Exception as e:
                    res.append(('exc', type(e).__name__))
                if rep == 0:
                    self.audited += 1
                    for nm, v, s in snaps:
                        if not unchanged(v, s):
                            self.bad += 1
                            rec.violation(dict(function=label.split('|')[0], kind='argument-changed', clause=nm),
                                          '%s changes its %s (values, dtype or shape differ from the caller-side copy taken before the call)' % (label, nm),
                                          witness=dict(python=True, source='bounded monitor (argument audit)', call=label, which=nm, before=describe(s[1]) if s[0] != 'seq' else 'sequence', after=describe(v)))
                            break
            if res[0][0] == 'ok' and res[1][0] == 'ok':
                self.repeat += 1
                if not same_result(res[0][1], res[1][1]):
                    self.bad += 1
                    rec.violation(dict(function=label.split('|')[0], kind='not-repeatable'), '%s returns different results when called twice with the same arguments and the same random seed' % label,
                                  witness=dict(python=True, source='bounded monitor (repeatability)', call=label, args=[describe(v) for v in a][:4]))
            elif res[0][0] != res[1][0] or (res[0][0] == 'exc' and res[0][1] != res[1][1]):
                self.bad += 1
                rec.violation(dict(function=label.split('|')[0], kind='not-repeatable'), '%s: first call %s, second call %s' % (label, res[0], res[1]), witness=dict(python=True, source='bounded monitor (repeatability)', call=label))
            return res[0][1] if res[0][0] == 'ok' else None
    return AuditProbe()


def extra_drive(p, rng):
    """inputs the boundary drive does not use: non-contiguous, integer and pandas inputs; transforms; plot helpers"""
    import pandas as pd
    import matplotlib
    matplotlib.use('Agg')
    import matplotlib.pyplot as plt
    from hydrodiy.stat import metrics as M, sutils as S, armodels as A, transform as T
    from hydrodiy.data import dutils as D, qualitycontrol as Q, signatures as G
    from hydrodiy.gis import gutils, grid as GR
    from hydrodiy.plot import putils as P, boxplot as B, violinplot as V
    nr = np.random.default_rng(18)
    n = 24
    base = np.abs(nr.normal(size=2 * n)) + 0.1
    variants = {'c': base[:n].copy(), 'strided': base[::2], 'int': (base[:n] * 10).astype(np.int64), 'series': pd.Series(base[:n].copy()), 'f32': base[:n].astype(np.float32)}
    ensb = np.abs(nr.normal(size=(n, 10))) + 0.1
    evar = {'c': ensb[:, :5].copy(), 'strided': ensb[:, ::2], 'fortran': np.asfortranarray(ensb[:, :5]), 'frame': pd.DataFrame(ensb[:, :5].copy()), 'int': (ensb[:, :5] * 10).astype(np.int64)}
    for vn, x in variants.items():
        y = x * 1.1 if not isinstance(x, pd.Series) else x * 1.1
        for fn in ('bias', 'nse', 'kge'):
            p.call('metrics.%s|%s' % (fn, vn), getattr(M, fn), x, y)
            p.call('metrics.%s|%s log' % (fn, vn), getattr(M, fn), x, y, T.Log(), True)
        p.call('metrics.absolute_peak_error|' + vn, M.absolute_peak_error, x, y)
        p.call('metrics.relative_percentile_error|' + vn, M.relative_percentile_error, x, y, [10, 90])
        p.call('metrics.cramer_von_mises_test|' + vn, M.cramer_von_mises_test, np.clip(np.asarray(x, dtype=float) / 40, 0.01, 0.99) if vn != 'series' else pd.Series(np.clip(x.values / 40, 0.01, 0.99)).values)
        p.call('metrics.anderson_darling_test|' + vn, M.anderson_darling_test, np.clip(np.asarray(x, dtype=float) / 40, 0.01, 0.99)[::-1])
        p.call('sutils.acf|' + vn, S.acf, x, 3)
        p.call('sutils.standard_normal|' + vn, S.standard_normal, x)
        p.call('dutils.lag|' + vn, D.lag, x, 2)
        p.call('dutils.lag|%s 0' % vn, D.lag, x, 0)
        p.call('dutils.sequence_true|' + vn, D.sequence_true, np.asarray(x) > 0.5)
        p.call('qualitycontrol.ismisscens|' + vn, Q.ismisscens, x)
        p.call('qualitycontrol.islinear|' + vn, Q.islinear, x, 2)
        p.call('signatures.eckhardt|' + vn, G.eckhardt, x)
        p.call('signatures.fdcslope|' + vn, G.fdcslope, x)
        p.call('signatures.goue|' + vn, G.goue, np.arange(len(x)) // 6, x)
        p.call('armodels.armodel_sim|' + vn, A.armodel_sim, np.array([0.5, 0.2]), x)
        p.call('armodels.armodel_residual|' + vn, A.armodel_residual, np.array([0.5, 0.2]), x)
        p.call('dutils.aggregate|' + vn, D.aggregate, np.arange(len(x)) // 5, x)
        p.call('dutils.flathomogen|' + vn, D.flathomogen, np.arange(len(x)) // 5, x)
        p.call('boxplot_stats|' + vn, B.boxplot_stats, np.asarray(x, dtype=float) if vn == 'series' else x, 50, 90)
        p.call('putils.kde|' + vn, P.kde, np.column_stack([np.asarray(x, dtype=float), np.asarray(x, dtype=float)[::-1] ** 2]))
        for ev, e in evar.items():
            if vn in ('c', 'series') or ev == 'c':
                p.call('metrics.crps|%s %s' % (vn, ev), M.crps, x, e)
                p.call('metrics.dscore|%s %s' % (vn, ev), M.dscore, x, e)
                p.call('metrics.pit|%s %s' % (vn, ev), M.pit, x, e)
                p.call('metrics.pit|%s %s random' % (vn, ev), M.pit, x, e, True)
                p.call('metrics.alpha|%s %s' % (vn, ev), M.alpha, x, e)
                p.call('metrics.iqr|%s %s' % (vn, ev), M.iqr, e, e * 1.3 if not isinstance(e, pd.DataFrame) else e * 1.3)
                p.call('metrics.corr|%s %s' % (vn, ev), M.corr, x, e)
    for ev, e in evar.items():
        p.call('sutils.pareto_front|' + ev, S.pareto_front, np.asarray(e) if ev == 'frame' else e)
        p.call('sutils.semicorr|' + ev, S.semicorr, (np.asarray(e, dtype=float)[:, :2] - 1.0))
        yv = np.asarray(e, dtype=float)[:, 0] * 2 + 1
        p.call('sutils.lstsq|' + ev, S.lstsq, e if ev != 'frame' else e, yv)
        p.call('sutils.lstsq|%s intercept' % ev, S.lstsq, e, yv, True)
        p.call('Boxplot|' + ev, B.Boxplot, pd.DataFrame(np.asarray(e, dtype=float)) if ev != 'frame' else e)
        p.call('Violin|' + ev, V.Violin, pd.DataFrame(np.asarray(e, dtype=float)) if ev != 'frame' else e)
    cats = nr.integers(0, 3, size=n); cats2 = nr.integers(0, 3, size=n)
    p.call('metrics.confusion_matrix', M.confusion_matrix, cats, cats2)
    p.call('metrics.confusion_matrix|series', M.confusion_matrix, pd.Series(cats), pd.Series(cats2), 4)
    p.call('metrics.binary', M.binary, np.array([[5, 3], [2, 7]]))
    p.call('sutils.lhs', S.lhs, 7, np.zeros(3), np.ones(3))
    p.call('sutils.lhs_norm', S.lhs_norm, 7, np.zeros(2), np.array([[1.0, 0.2], [0.2, 2.0]]))
    p.call('armodels.yule_walker', A.yule_walker, np.array([0.6, 0.3, 0.1]))
    # transforms
    for nm in T.__all__:
        tr = T.get_transform(nm)
        for c in tr.constants.names:
            tr.constants[c] = 3.0
        for vn in ('c', 'strided', 'int', 'series'):
            x = variants[vn]
            if nm == 'Softmax':
                x = evar['c'][:, :3] / 40 if vn == 'c' else evar['strided'][:, :3] / 40 if vn == 'strided' else None
                if x is None:
                    continue
            p.call('transform.%s.forward|%s' % (nm, vn), tr.forward, x)
            p.call('transform.%s.jacobian|%s' % (nm, vn), tr.jacobian, x)
            p.call('transform.%s.backward|%s' % (nm, vn), tr.backward, (np.asarray(x, dtype=float) - 1.5) if nm != 'Softmax' else np.asarray(x) - 0.5)
    # time series helpers
    idx = pd.date_range('2001-01-01', periods=36, freq='MS')
    sem = pd.Series(np.abs(nr.normal(size=36)), index=idx)
    p.call('dutils.monthly2daily', D.monthly2daily, sem)
    p.call('dutils.monthly2daily|cubic', D.monthly2daily, sem, 'cubic')
    tt = pd.DatetimeIndex([pd.Timestamp('2001-03-04 05:00:00') + pd.Timedelta(seconds=int(s)) for s in np.cumsum(nr.integers(60, 5000, size=40))])
    sev = pd.Series(np.abs(nr.normal(size=40)), index=tt)
    p.call('dutils.var2h', D.var2h, sev)
    p.call('dutils.var2h|rain', D.var2h, sev, 3600, 5 * 86400, True)
    days = pd.date_range('2000-02-25', periods=10)
    p.call('dutils.dayofyear', D.dayofyear, days)
    p.call('dutils.compute_aggindex', D.compute_aggindex, days, 'M')
    p.call('dutils.water_year_end', D.water_year_end, pd.Series(np.abs(nr.normal(size=730)), index=pd.date_range('2000-01-01', periods=730)))
    # plots
    fig, ax = plt.subplots()
    dfp = pd.DataFrame(nr.normal(size=(30, 3)), columns=['a', 'b', 'c'])
    p.call('putils.ecdfplot', P.ecdfplot, ax, dfp)
    p.call('putils.qqplot', P.qqplot, ax, dfp['a'].values)
    p.call('putils.qqplot|strided', P.qqplot, ax, nr.normal(size=60)[::2], True)
    p.call('putils.kde|frame', P.kde, dfp[['a', 'b']].values)
    by = pd.Series(nr.integers(0, 3, size=30), name='grp')
    p.call('Boxplot|by', B.Boxplot, dfp['a'], by)
    plt.close('all')
    # grids
    g = GR.Grid('g', ncols=5, nrows=4, cellsize=1.0, dtype=np.float64)
    g.data = nr.normal(size=(4, 5))
    xy = np.array([[0.5, 0.5], [2.5, 3.5], [4.9, 0.1], [9.0, 9.0]])
    for vn, pts in (('c', xy), ('strided', np.asfortranarray(xy)), ('int', xy.astype(np.int64))):
        p.call('Grid.coord2cell|' + vn, g.coord2cell, pts)
        p.call('Grid.slice|' + vn, g.slice, pts)
        p.call('gutils.points_inside_polygon|' + vn, gutils.points_inside_polygon, pts, np.array([[0., 0.], [5., 0.], [2.5, 4.]]))
    p.call('Grid.clip', g.clip, 1.0, 1.0, 4.0, 3.0)
    p.call('Grid.clone', g.clone)
    p.call('Grid.to_dict', g.to_dict)
    p.call('Grid.interpolate', g.interpolate, GR.Grid('h', ncols=10, nrows=8, cellsize=0.5))
    p.call('Grid.apply', g.apply, np.abs)
    p.call('Grid.same_geometry', g.same_geometry, GR.Grid('h', ncols=5, nrows=4, cellsize=1.0))
    # gsmooth: float64 / float32 / integer-valued grids with gaps (NaN), cells below minval, with and without an integer mask
    gd = nr.normal(size=(12, 14)) + 3.0
    gaps = gd.copy(); gaps[2, 3] = np.nan; gaps[7:9, 10] = np.nan; gaps[0, 0] = np.nan
    mk = GR.Grid('mask', ncols=14, nrows=12, cellsize=1.0, dtype=np.int32)
    md = np.ones((12, 14), dtype=np.int32); md[:, :2] = 0; md[5, 6] = 0
    mk.data = md
    for vn, dat, dt in (('f64', gd, np.float64), ('f64 gaps', gaps, np.float64), ('f32 gaps', gaps.astype(np.float32), np.float32)):
        gg = GR.Grid('s', ncols=14, nrows=12, cellsize=1.0, dtype=dt)
        gg.data = dat.astype(dt)
        p.call('grid.gsmooth|' + vn, GR.gsmooth, gg, None, 10, 1.0)
        p.call('grid.gsmooth|%s mask' % vn, GR.gsmooth, gg, mk, 10, 1.0)
        p.call('grid.gsmooth|%s minval' % vn, GR.gsmooth, gg, None, 10, 1.0, 2.5)
    # catchment accessors
    fdg = GR.Grid('fd', ncols=4, nrows=4, cellsize=1.0, dtype=np.int64)
    fdg.data = np.array([[2, 4, 8, 4], [1, 4, 8, 4], [1, 2, 4, 8], [1, 1, 0, 16]], dtype=np.int64)
    ca = GR.Catchment('ca', fdg)
    ca.delineate_area(14)
    p.call('Catchment.isin', ca.isin, 10)
    try:
        ca.delineate_boundary()
    except Exception:
        pass
    fig, ax = plt.subplots()
    p.call('Grid.plot', g.plot, ax)
    p.call('Grid.plot_values', g.plot_values, ax)
    p.call('Catchment.plot_area', ca.plot_area, ax)
    p.call('Catchment.plot_boundary', ca.plot_boundary, ax)
    # remaining array-taking helpers of the stat / data / plot packages
    for vn in ('c', 'strided', 'int', 'series'):
        x = variants[vn]; xf = np.asarray(x, dtype=float)
        p.call('dutils.cast|' + vn, D.cast, x, xf * 1.5)
        p.call('putils.scattercat|' + vn, P.scattercat, ax, x, xf[::-1].copy(), xf ** 2)
        p.call('putils.bivarnplot|' + vn, P.bivarnplot, ax, np.column_stack([xf, xf[::-1] ** 2]) if vn != 'strided' else np.column_stack([xf, xf[::-1] ** 2, xf])[:, ::2])
    p.call('putils.cov_ellipse', P.cov_ellipse, np.array([0.5, 1.0]), np.array([[1.0, 0.2], [0.2, 2.0]]))
    p.call('putils.cov_ellipse|int', P.cov_ellipse, np.array([1, 2]), np.array([[2, 0], [0, 3]]))
    p.call('putils.colors2cmap', P.colors2cmap, ['r', 'g', 'b'])
    p.call('putils.cmap2colors', P.cmap2colors, 5)
    p.call('sutils.ppos', S.ppos, 7, 0.3)
    p.call('boxplot.compute_percentiles', B.compute_percentiles, 80)
    bx = B.Boxplot(dfp); p.call('Boxplot.draw', bx.draw, ax)
    vl = V.Violin(dfp); p.call('Violin.draw', vl.draw, ax)
    plt.close('all')
    for nm in T.__all__:
        tr = T.get_transform(nm)
        for c in tr.constants.names:
            tr.constants[c] = 3.0
        p.call('transform.%s.params_logprior' % nm, tr.params_logprior)
        p.call('transform.%s.params_sample' % nm, tr.params_sample, 20)
        if nm != 'Softmax':
            for vn in ('c', 'strided', 'series'):
                p.call('transform.%s.backward_censored|%s' % (nm, vn), tr.backward_censored, np.asarray(variants[vn], dtype=float) - 1.5 if vn != 'series' else variants[vn] - 1.5, 0.1)
    vec = D.__dict__.get('Vector')
    from hydrodiy.data.containers import Vector
    vv = Vector(['a', 'b'], [0.5, 1.0], [0.0, 0.0], [2.0, 2.0])
    p.call('Vector.to_series', vv.to_series)
    p.call('Catchment.to_dict', ca.to_dict)
    p.call('Catchment.clone', ca.clone)
    p.call('Catchment.extent', ca.extent)


def monitors_child(rec):
    from props import apidrive
    from vf import child
    apidrive.setup()
    warnings.simplefilter('ignore')
    rng = random.Random(rec.seed + 18)
    p = make_probe(rec); p.progress = child.progress
    from props.monitors import quiet
    if rec.tier == 'quick':
        apidrive.LENGTHS[:] = [0, 1, 2, 5]; apidrive.QUICK[0] = True
    crashed = None
    for drv in (apidrive.drive_data, apidrive.drive_stat, apidrive.drive_gis, extra_drive):
        try:
            quiet(drv, p, rng)
        except Exception:
            crashed = 'drive %s crashed: %s' % (drv.__name__, traceback.format_exc()[-1500:])
            rec.broken.append(crashed)
    # inventory of the public API (functions and public methods defined in the library's modules): what the audit never called is listed
    # in the evidence (coverage gap stated, not hidden)
    import importlib, inspect
    inventory = set()
    for mn in ('hydrodiy.data.dutils', 'hydrodiy.data.qualitycontrol', 'hydrodiy.data.signatures', 'hydrodiy.data.containers', 'hydrodiy.stat.metrics',
               'hydrodiy.stat.sutils', 'hydrodiy.stat.armodels', 'hydrodiy.stat.transform', 'hydrodiy.gis.grid', 'hydrodiy.gis.gutils',
               'hydrodiy.io.csv', 'hydrodiy.io.hyruns', 'hydrodiy.io.iutils', 'hydrodiy.plot.putils', 'hydrodiy.plot.boxplot', 'hydrodiy.plot.violinplot'):
        try:
            mod = importlib.import_module(mn)
        except Exception:
            continue
        short = mn.split('.')[-1]
        for nm, ob in vars(mod).items():
            if nm.startswith('_') or getattr(ob, '__module__', None) != mn:
                continue
            if inspect.isfunction(ob):
                inventory.add('%s.%s' % (short, nm))
            elif inspect.isclass(ob):
                for mnm, mob in vars(ob).items():
                    if not mnm.startswith('_') and inspect.isfunction(mob):
                        inventory.add('%s.%s' % (nm, mnm))
    called = set(p.labels)
    called_tail = {c.split('.')[-1] for c in called}
    not_audited = sorted(f for f in inventory if f not in called and f.split('.')[-1] not in called_tail)
    rec.bounded_clause('every argument of every API call bit-for-bit unchanged (values, dtype, shape; cell values of grid arguments); two consecutive calls with the same seed return the same result',
                       '%d API functions, %d calls audited, %d repeated pairs compared (boundary drive + explicit list: strided / Fortran / integer / float32 / pandas inputs, transforms, plots)' % (len(p.labels), p.audited, p.repeat),
                       p.audited, p.repeat, False, failures=p.bad, extra=dict(api_functions=sorted(p.labels), public_api_never_called_by_the_audit=not_audited))


def run(tier):
    r = Run('C18', tier, level='other')
    cm.run_kernels(r, cm.ALL_KERNELS, quick_cap=60)
    try:
        frame_summary(r)
    except Exception:
        r.notes.append('frame summary not produced: ' + traceback.format_exc()[-500:])
    try:
        from vf import pproof, engp
        obls, npaths = wrapper_obligations()
        pproof.discharge(r, obls, file='src/hydrodiy/stat/metrics.py', fn_of=lambda ob: 'anderson_darling_test (python wrapper)')
        r.functions.append(dict(file='metrics.py', fn='anderson_darling_test (python wrapper)', trusted=['c_hydrodiy_stat.ad_test (replaced by a recorder that reorders its buffer)'], nonterminating=[], cutloops=0, unrolled=0, terminating=0))
        r.extra['paths_explored'] = npaths
    except (engp.Unsupported, engp.PathLimit) as e:
        r.undecided.append('Engine P cannot execute the current anderson_darling_test wrapper symbolically: %s' % (str(e)[:300],))
    except Exception:
        r.broken.append('C18 Engine P driver crashed: ' + traceback.format_exc()[-2500:])
    from vf import child
    res = child.run('props.C18', 'monitors_child', r.prop, r.tier, r.seed)
    child.merge(r, res['recorder'])
    if res['rc'] != 0:
        r.broken.append('C18 monitors child failed (rc=%s) at %s: %s' % (res['rc'], res['progress'], res['stderr'][-1500:]))
    r.assumptions += ['kernel level: the assigns (frame) obligations of every kernel are discharged together with the obligations they depend on; three kernels name an input in their frame (c_delineate_boundary / c_delineate_area: idxcells_area, c_ad_test: unifdata) - whether their callers pass a copy is decided by the bounded audit only',
                      'python level: no static proof that wrappers copy (astype / ascontiguousarray) before handing a buffer over: bounded audit over the API drive',
                      'results without value semantics (matplotlib artists) are not compared for repeatability']
    r.explanation = ('proved (Engine C): every kernel writes only inside its assigns clause (inputs outside it are unchanged for all inputs); '
                     'bounded: caller-side copies of every argument compared before / after each API call, repeated calls compared')
    return r.finish()


# ------------------------------------------------------------------------------------------------ Engine P: the wrapper of the kernel that sorts its input
def wrapper_obligations():
    """c_ad_test sorts `unifdata` in place (its assigns clause names that input): the python wrapper anderson_darling_test must hand it a COPY.
    The real wrapper runs on a symbolic float64 array with the compiled module replaced by a recorder that looks at the buffer it is given."""
    import numpy as np, z3
    from vf import engp, pproof, pybuild
    from vf.engp import sym, SymReal, SA
    pybuild.activate()
    from hydrodiy.stat import metrics as M
    n = 4
    x = [sym('u%d' % i) for i in range(n)]
    names = ['u%d' % i for i in range(n)]
    eq = lambda a, b: z3.And(z3.Not(SymReal.lift(a).nan), SymReal.lift(a).val == SymReal.lift(b).val)
    obls = []; npaths = 0
    for layout in ('contiguous', 'strided'):
        state = {}

        class Kernel:
            def ad_test(self, unifdata, outputs):
                state['shares'] = bool(np.shares_memory(unifdata, state['caller'])); state['vals'] = list(np.asarray(unifdata, dtype=object).ravel())
                state['out0'] = [float(v) for v in outputs]
                unifdata[:] = unifdata[::-1].copy()          # the kernel reorders its buffer
                outputs[0] = 0.25; outputs[1] = 0.75
                return 0

        def run():
            if layout == 'contiguous':
                a = np.empty(n, dtype=object); a[:] = x
            else:
                big = np.empty(2 * n, dtype=object); big[::2] = x; big[1::2] = [0.0] * n; a = big[::2]
            a = a.view(SA); state['caller'] = a
            before = list(a)
            res = M.anderson_darling_test(a)
            return res, before, list(a)
        saved = (M.np, M.c_hydrodiy_stat, M.has_c_module)
        M.np = engp.NPProxy(); M.c_hydrodiy_stat = Kernel(); M.has_c_module = lambda *a, **kw: True
        try:
            paths = engp.explore(run, base=[], allowed_exc=())
        finally:
            M.np, M.c_hydrodiy_stat, M.has_c_module = saved
        npaths += len(paths)
        for kp, pa in enumerate(paths):
            res, before, after = pa.result
            hyp = list(pa.pc) + list(pa.axioms)
            tag = 'metrics.py/anderson_darling_test/%s/path%d' % (layout, kp)
            obls.append(pproof.PObligation(tag + '/kernel-gets-a-copy', 'post', 'the buffer handed to the sorting kernel does not share memory with the caller\'s array and holds the same values; the outputs start at zero', hyp,
                                           z3.And(z3.BoolVal((not state['shares']) and len(state['vals']) == n and state['out0'] == [0.0, 0.0]), *[eq(state['vals'][i], x[i]) for i in range(min(n, len(state['vals'])))]), names))
            obls.append(pproof.PObligation(tag + '/argument-unchanged', 'post', 'the caller\'s array is element for element the same object after the call', hyp, z3.BoolVal(all(a is b for a, b in zip(before, after)) and len(before) == len(after)), names))
            obls.append(pproof.PObligation(tag + '/returns-kernel-output', 'post', 'the statistic and p-value written by the kernel are returned', hyp, z3.BoolVal(float(res[0]) == 0.25 and float(res[1]) == 0.75), names))
    return obls, npaths
