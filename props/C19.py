"""C19 - batches partition the work and option grids enumerate every combination once.
Engine P (integer flavour): the real hyruns.get_batch is executed by CPython on symbolic integers nelements, nbatch, ibatch; numpy.arange /
numpy.array_split are replaced by shims carrying their ASSUMED contract (cross-checked against numpy on every run).  Per path: the guards reject
exactly the inadmissible calls, the first batch starts at 0, batch i stops where batch i+1 starts, the last one stops at nelements, sizes differ
by at most one.  Exactly-once coverage follows by induction over the batch index (contiguity + end points).
Bounded: SiteBatch.search, OptionManager (itertools.product, regular expressions and JSON are library code without a contract within reach)."""
import itertools, json, random, traceback, contextlib
import numpy as np
import z3
from vf.check import Run
from vf import engp, pproof
from vf.engp import SymBool

FILE = 'src/hydrodiy/io/hyruns.py'


def iv(o):
    if isinstance(o, SymInt):
        return o.e
    if isinstance(o, (int, np.integer)) and not isinstance(o, bool):
        return z3.IntVal(int(o))
    raise engp.Unsupported('integer operand %r' % (o,))


class SymInt:
    """symbolic mathematical integer; comparisons give SymBool (bool() forks the path)"""
    __slots__ = ('e',)

    def __init__(self, e):
        self.e = e

    def __add__(self, o): return SymInt(self.e + iv(o))
    __radd__ = __add__
    def __sub__(self, o): return SymInt(self.e - iv(o))
    def __rsub__(self, o): return SymInt(iv(o) - self.e)
    def __mul__(self, o): return SymInt(self.e * iv(o))
    __rmul__ = __mul__
    def __neg__(self): return SymInt(-self.e)
    def __floordiv__(self, o): return _divmod(self.e, iv(o))[0]
    def __rfloordiv__(self, o): return _divmod(iv(o), self.e)[0]
    def __mod__(self, o): return _divmod(self.e, iv(o))[1]
    def __rmod__(self, o): return _divmod(iv(o), self.e)[1]
    def __divmod__(self, o): return _divmod(self.e, iv(o))
    def __lt__(self, o): return SymBool(self.e < iv(o))
    def __le__(self, o): return SymBool(self.e <= iv(o))
    def __gt__(self, o): return SymBool(self.e > iv(o))
    def __ge__(self, o): return SymBool(self.e >= iv(o))
    def __eq__(self, o): return SymBool(self.e == iv(o))
    def __ne__(self, o): return SymBool(self.e != iv(o))
    __hash__ = None
    def __index__(self): raise engp.Unsupported('concrete index wanted from a symbolic integer')
    def __repr__(self): return '<%s>' % z3.simplify(self.e)
    __str__ = __repr__
    def __format__(self, spec): return repr(self)


_DIVS = [0]


def _divmod(a, b):
    """python floor division of integers: a == q*b + r with r between 0 and b (sign of b); b == 0 raises (the path forks on it)"""
    if bool(SymBool(b == 0)):
        raise ZeroDivisionError('integer division or modulo by zero')
    _DIVS[0] += 1
    q = z3.Int('fq!%d' % _DIVS[0]); r = z3.Int('fr!%d' % _DIVS[0])
    engp.CTX.axioms += [a == q * b + r, z3.If(b > 0, z3.And(r >= 0, r < b), z3.And(r <= 0, r > b))]
    return SymInt(q), SymInt(r)


class SymRange:
    """the array arange(start, stop): the contiguous integers start .. stop-1"""

    def __init__(self, start, stop):
        self.start = start; self.stop = stop

    def __len__(self):
        raise engp.Unsupported('len of a symbolic range')


class Sections:
    """ASSUMED contract of numpy.array_split(ary, N) for a 1-d ary of length n and an integer N >= 1 (numpy documentation: 'for an array
    of length l that should be split into n sections, it returns l % n sub-arrays of size l//n + 1 and the rest of size l//n', in order):
    section k is ary[start(k):start(k+1)] with start(k) = k*(n div N) + min(k, n mod N)."""
    count = 0

    def __init__(self, rng, N):
        self.rng = rng; self.N = N
        Sections.count += 1
        k = Sections.count
        self.q = z3.Int('q!%d' % k); self.r = z3.Int('r!%d' % k)
        n = iv(rng.stop) - iv(rng.start)
        Nn = iv(N)
        engp.CTX.domain.append(('array_split: number of sections >= 1', Nn >= 1))
        # Euclidean division (defines q, r uniquely when N >= 1)
        engp.CTX.axioms += [n == self.q * Nn + self.r, self.r >= 0, self.r < Nn]

    def start_of(self, k):
        return k * self.q + z3.If(k < self.r, k, self.r)

    def __getitem__(self, k):
        kk = iv(k)
        engp.CTX.domain.append(('array_split(...)[ibatch]: index within -N .. N-1', z3.And(kk >= -iv(self.N), kk < iv(self.N))))
        # negative indices count from the end (python list semantics)
        kk = z3.If(kk < 0, kk + iv(self.N), kk)
        base = iv(self.rng.start)
        return SymRange(SymInt(base + self.start_of(kk)), SymInt(base + self.start_of(kk + 1)))


class NPI:
    """numpy as seen by hyruns.get_batch during the analysis"""

    def __getattr__(self, k):
        return getattr(np, k)

    def arange(self, n, *a):
        if len(a) == 1 and (isinstance(n, SymInt) or isinstance(a[0], SymInt)):
            # arange(start, stop): start .. stop-1, empty when stop <= start
            st = iv(n); en = iv(a[0])
            return SymRange(SymInt(st), SymInt(z3.If(en >= st, en, st)))
        if a or not isinstance(n, SymInt):
            return np.arange(n, *a)
        engp.CTX.domain.append(('arange(n): n >= 0', n.e >= 0))
        return SymRange(SymInt(z3.IntVal(0)), n)

    def array_split(self, ary, N, *a, **k):
        if not isinstance(ary, SymRange):
            return np.array_split(ary, N, *a, **k)
        return Sections(ary, N)


@contextlib.contextmanager
def patched(H):
    saved = H.np
    H.np = NPI()
    try:
        yield
    finally:
        H.np = saved


def numpy_contract_crosscheck(r, tier):
    """the assumed contract of arange / array_split evaluated against numpy (bounded)"""
    top = 120 if tier == 'quick' else 400
    ev = 0; bad = 0
    for n in range(0, top):
        a = np.arange(n)
        if a.tolist() != list(range(n)):
            bad += 1
        for N in range(1, max(n, 1) + 3):
            secs = np.array_split(a, N)
            q, rr = divmod(n, N)
            ok = len(secs) == N
            for k, s in enumerate(secs):
                st = k * q + min(k, rr); en = (k + 1) * q + min(k + 1, rr)
                ok = ok and s.tolist() == list(range(st, en))
                ev += 1
            if not ok:
                bad += 1
                r.violation(dict(function='numpy.array_split', kind='assumed-contract'), 'assumed contract of numpy.array_split does not hold for n=%d N=%d' % (n, N),
                            witness=dict(python=True, source='numpy contract cross-check', n=n, N=N, observed=[s.tolist() for s in secs]))
    r.bounded_clause('assumed contract of numpy.arange / numpy.array_split (section k = [k*q+min(k,r), (k+1)*q+min(k+1,r)) ) against the installed numpy',
                     'n < %d, 1 <= N <= n+2' % top, ev, ev, True, bad)


def batch_obligations(H):
    n = SymInt(z3.Int('nelements')); nb = SymInt(z3.Int('nbatch')); ib = SymInt(z3.Int('ibatch')); jb = SymInt(z3.Int('jbatch'))
    names = [z3.Int('nelements'), z3.Int('nbatch'), z3.Int('ibatch'), z3.Int('jbatch')]
    obls = []; npaths = 0

    def admissible(i):
        return z3.And(n.e >= 1, nb.e <= n.e, i.e >= 0, i.e < nb.e)

    # ---- one call: guards, end points, shape
    def run1():
        try:
            return ('ok', H.get_batch(n, nb, ib))
        except ValueError as e:
            return ('ValueError', None)
    with patched(H):
        paths = engp.explore(run1, base=[], allowed_exc=())
    npaths += len(paths)
    for k, p in enumerate(paths):
        hyp = list(p.pc) + list(p.axioms)
        kind, res = p.result
        tag = 'C19/get_batch/path%d' % k
        for dname, dcond in p.domain:
            obls.append(pproof.PObligation('%s/domain#%s' % (tag, dname[:30]), 'call-pre', 'precondition of the numpy call holds: ' + dname, hyp, dcond, names))
        if kind == 'ValueError':
            obls.append(pproof.PObligation(tag + '/rejects-only-inadmissible', 'post', 'a ValueError is raised only for nelements < 1, nbatch > nelements or ibatch outside [0, nbatch)', hyp, z3.Not(admissible(ib)), names))
            continue
        obls.append(pproof.PObligation(tag + '/accepts-only-admissible', 'post', 'a batch is returned only for 1 <= nbatch <= nelements and 0 <= ibatch < nbatch', hyp, admissible(ib), names))
        st, en = res.start.e, res.stop.e
        obls.append(pproof.PObligation(tag + '/first-starts-at-0', 'post', 'batch 0 starts at element 0', hyp + [ib.e == 0], st == 0, names))
        obls.append(pproof.PObligation(tag + '/last-stops-at-n', 'post', 'batch nbatch-1 stops at element nelements', hyp + [ib.e == nb.e - 1], en == n.e, names))
        obls.append(pproof.PObligation(tag + '/non-empty-in-range', 'post', 'every batch is a non-empty contiguous range inside [0, nelements)', hyp, z3.And(st >= 0, st < en, en <= n.e), names))
    # ---- two calls: contiguity (ibatch, ibatch+1) and balance (ibatch, jbatch)
    def run2():
        a = H.get_batch(n, nb, ib)
        b = H.get_batch(n, nb, ib + 1)
        return a, b
    def run3():
        a = H.get_batch(n, nb, ib)
        b = H.get_batch(n, nb, jb)
        return a, b
    for nm, fn, note in (('contiguous', run2, 'batch i stops exactly where batch i+1 starts (ordered, disjoint, no gap)'),
                         ('balanced', run3, 'the sizes of any two batches differ by at most one')):
        with patched(H):
            paths = engp.explore(fn, base=[], allowed_exc=(ValueError,))
        npaths += len(paths)
        cnt = 0
        for k, p in enumerate(paths):
            if p.exc is not None:
                continue
            cnt += 1
            a, b = p.result
            hyp = list(p.pc) + list(p.axioms)
            # both calls split the same array into the same number of sections: the Euclidean quotient / remainder are unique
            if nm == 'contiguous':
                goal = a.stop.e == b.start.e
            else:
                la = a.stop.e - a.start.e; lb = b.stop.e - b.start.e
                goal = z3.And(la - lb <= 1, lb - la <= 1)
            obls.append(pproof.PObligation('C19/get_batch/%s/path%d' % (nm, k), 'post', note, hyp, goal, names))
        if cnt == 0:
            raise RuntimeError('no returning path for ' + nm)
    return obls, npaths


def replay_batch(H):
    def replay(ob, model):
        try:
            n, nb, ib, jb = [model.get(k) for k in ('nelements', 'nbatch', 'ibatch', 'jbatch')]
        except Exception:
            return None
        if n is None or nb is None or ib is None:
            return None
        n, nb, ib = int(n), int(nb), int(ib)
        if abs(n) > 10 ** 6:
            return None
        adm = n >= 1 and nb <= n and 0 <= ib < nb
        try:
            out = H.get_batch(n, nb, ib).tolist(); raised = None
        except ValueError as e:
            out = None; raised = 'ValueError'
        except Exception as e:
            out = None; raised = type(e).__name__
        ok = (out is not None) == adm and raised in (None, 'ValueError')
        if ok and adm:
            # full partition oracle on this (n, nb)
            allb = [H.get_batch(n, nb, i).tolist() for i in range(nb)]
            flat = [e for b in allb for e in b]
            sizes = [len(b) for b in allb]
            ok = flat == list(range(n)) and max(sizes) - min(sizes) <= 1 and min(sizes) >= 1
        if ok:
            return None
        return dict(source='solver counter-model replayed on the real hyruns.get_batch', nelements=n, nbatch=nb, ibatch=ib, observed=dict(result=out, raised=raised), expected='admissible=%s' % adm)
    return replay


# ------------------------------------------------------------------------------------------------ bounded monitors
def mon_batches(H, r, tier, DD):
    top = 40 if tier == 'quick' else 90
    ev = 0; bad = 0
    rnd = random.Random(19)
    cases = [(n, nb) for n in range(1, top) for nb in range(1, n + 1)]
    # random larger sizes: a sample of batch indices against the closed form (first r = n mod nb batches have q+1 = n div nb + 1 elements)
    for _ in range(60 if tier == 'quick' else 400):
        n = rnd.randint(top, 5000); nb = rnd.choice([1, 2, 3, 7, rnd.randint(1, n), n // 3 + 1, n - 1, n])
        q, rr = divmod(n, nb)
        for i in sorted({0, 1, rr - 1, rr, rr + 1, nb - 2, nb - 1, rnd.randrange(nb)}):
            if 0 <= i < nb:
                ev += 1
                got = [int(e) for e in H.get_batch(n, nb, i)]
                exp = list(range(i * q + min(i, rr), (i + 1) * q + min(i + 1, rr)))
                if got != exp:
                    bad += 1
                    r.violation(dict(function='get_batch', kind='partition', n=n, nb=nb), 'get_batch(%d, %d, %d) is not the %d-th range of the balanced ordered partition' % (n, nb, i, i),
                                witness=dict(python=True, source='bounded monitor', call='get_batch(%d,%d,%d)' % (n, nb, i), observed=got[:20], expected=exp[:20]))
    for n, nb in cases:
        allb = [H.get_batch(n, nb, i) for i in range(nb)]
        flat = [int(e) for b in allb for e in b]; sizes = [len(b) for b in allb]
        ev += nb
        if not (flat == list(range(n)) and max(sizes) - min(sizes) <= 1):
            bad += 1
            r.violation(dict(function='get_batch', kind='partition', n=n, nb=nb), 'get_batch(%d, %d, .) is not a balanced ordered partition' % (n, nb),
                        witness=dict(python=True, source='bounded monitor', call='[get_batch(%d,%d,i) for i in range(%d)]' % (n, nb, nb), observed=[list(map(int, b)) for b in allb][:12]))
        # rejected calls
        for args in ((n, n + 1, 0), (n, nb, nb), (n, nb, -1), (0, 0, 0), (n, nb, nb + 3)):
            ev += 1
            try:
                H.get_batch(*args); okr = False
            except ValueError:
                okr = True
            except Exception:
                okr = False
            if not okr:
                bad += 1
                r.violation(dict(function='get_batch', kind='reject', args=list(args)), 'get_batch%s is not rejected with ValueError' % (args,),
                            witness=dict(python=True, source='bounded monitor', call='get_batch%s' % (args,)))
        # SiteBatch: [] returns the site ids of the batch, search returns the batch that contains the site
        if n <= 25 or nb in (1, n):
            ids = ['s%03d' % ((7 * i + 3) % 1000 + 1000 * (i // 1000)) for i in range(n)]
            if len(set(ids)) != n:
                ids = ['s%d' % i for i in range(n)]
            sb = H.SiteBatch(ids, nb)
            for i in range(nb):
                exp = [ids[int(e)] for e in allb[i]]
                ev += 1
                if sb[i] != exp:
                    bad += 1
                    r.violation(dict(function='SiteBatch.__getitem__', n=n, nb=nb), 'SiteBatch[%d] differs from the ids of get_batch' % i, witness=dict(python=True, source='bounded monitor', n=n, nb=nb, i=i, observed=sb[i], expected=exp))
            for j in ([0, n - 1, n // 2] if n > 12 else range(n)):
                ev += 1
                got = sb.search(ids[j])
                exp = [i for i in range(nb) if j in [int(e) for e in allb[i]]]
                if [got] != exp:
                    bad += 1
                    r.violation(dict(function='SiteBatch.search', n=n, nb=nb), 'SiteBatch.search(%r) returned %r, the site is in batch %r' % (ids[j], got, exp),
                                witness=dict(python=True, source='bounded monitor', n=n, nb=nb, site=ids[j], observed=got, expected=exp))
    r.bounded_clause('get_batch partition / rejections, SiteBatch[] and SiteBatch.search (run-time oracle on the real functions)', 'all 1 <= nbatch <= nelements < %d + random up to 5000' % top, ev, DD.n('get_batch'), False, bad)


def _option_sets(tier):
    rnd = random.Random(1919)
    pool_int = [0, 1, 2, 3, 5, 10, 11, 12, -1, 100]
    pool_str = ['a', 'b', 'ab', 'abc', 'GR4J', 'x1', 'x10', 'model_a', 'model_ab', 'A', 'aa']
    out = []
    # exhaustive small shapes
    for nopt in range(1, 5):
        for shape in itertools.product(range(1, 6 if nopt <= 2 else 4), repeat=nopt):
            if tier == 'quick' and nopt >= 3 and rnd.random() < 0.6:
                continue
            opts = {}
            for k, nv in enumerate(shape):
                kind = (k + sum(shape)) % 3
                if kind == 0:
                    vals = rnd.sample(pool_int, nv)
                elif kind == 1:
                    vals = rnd.sample(pool_str, nv)
                else:
                    vals = rnd.sample(pool_int, nv // 2) + rnd.sample(pool_str, nv - nv // 2)
                if nv == 1 and rnd.random() < 0.5:
                    vals = vals[0]          # scalar given bare
                opts['opt%d' % k if k % 2 else 'o_%s' % 'abcd'[k]] = vals
            out.append(opts)
    return out


def mon_options(H, r, tier):
    ev = 0; bad = 0
    rnd = random.Random(7)
    contexts = [{}, {'path': '/a/b', 'n': 3}, {'flag': True, 'x': 1.5, 'lst': [1, 2]}]
    keynames = [None, ('context_name', 'config'), ('task_options_name', 'opts'), ('manager_options_name', 'grid')]

    def fail(what, **w):
        nonlocal bad
        bad += 1
        r.violation(dict(function='OptionManager', kind=what.split(':')[0]), what, witness=dict(python=True, source='bounded monitor', **w))
    seen = set()
    for ci, opts in enumerate(_option_sets(tier)):
        ctx = contexts[ci % len(contexts)]
        kn = keynames[ci % len(keynames)]
        seen.add(json.dumps([opts, ctx, kn], sort_keys=True, default=str))
        H.reset_dict_keyname()
        if kn:
            H.set_dict_keyname(*kn)
        try:
            opm = H.OptionManager('m%d' % ci, **ctx)
            opm.from_cartesian_product(**opts)
            lists = {k: (v if isinstance(v, list) else [v]) for k, v in opts.items()}
            keys = list(lists)
            expected = [dict(zip(keys, t)) for t in itertools.product(*[lists[k] for k in keys])]
            got = [opm.get_task(i).options for i in range(opm.ntasks)]
            ev += 1
            # every combination exactly once (as a multiset) and in product order
            if got != expected or len({json.dumps(g, sort_keys=True) for g in got}) != len(expected):
                fail('enumeration: tasks differ from the cartesian product taken once each', options=opts, observed=got[:10], expected=expected[:10])
            for i in (0, opm.ntasks - 1):
                t = opm.get_task(i)
                ev += 1
                if t.taskid != i or t.context != ctx:
                    fail('task: get_task(%d) has wrong id / context' % i, options=opts)
            for bad_id in (-1, opm.ntasks):
                ev += 1
                try:
                    opm.get_task(bad_id); fail('task: get_task(%d) accepted' % bad_id, options=opts)
                except AssertionError:
                    pass
            # find: exactly the tasks whose option equals the value
            for k in keys:
                for v in lists[k]:
                    ev += 1
                    f = opm.find(**{k: v})
                    exp = [i for i, t in enumerate(expected) if t[k] == v and type(t[k]) == type(v)]
                    exp_str = [i for i, t in enumerate(expected) if str(t[k]) == str(v)]      # the documented matching is on the string form
                    if f != exp_str:
                        fail('find: find(%s=%r) returned %r expected %r' % (k, v, f, exp_str), options=opts)
            # two options at once
            if len(keys) >= 2:
                k1, k2 = keys[0], keys[-1]
                v1, v2 = lists[k1][0], lists[k2][-1]
                ev += 1
                f = opm.find(**{k1: v1, k2: v2})
                exp = [i for i, t in enumerate(expected) if str(t[k1]) == str(v1) and str(t[k2]) == str(v2)]
                if f != exp:
                    fail('find: find(%s=%r, %s=%r) returned %r expected %r' % (k1, v1, k2, v2, f, exp), options=opts)
            # dictionary / JSON round trip: equal in both directions, same tasks
            dd = opm.to_dict()
            for via_json in (False, True):
                d2 = json.loads(json.dumps(dd)) if via_json else dd
                try:
                    back = H.OptionManager.from_dict(d2)
                except Exception as e:
                    if via_json and any(isinstance(v, bool) for v in ctx.values()) is None:
                        continue
                    fail('roundtrip: from_dict raised %s' % type(e).__name__, options=opts, keyname=kn); continue
                ev += 1
                same = (back == opm) and (opm == back)
                tasks_same = [back.get_task(i).options for i in range(back.ntasks)] == got and back.context == ctx and back.name == opm.name
                if not (same and tasks_same):
                    fail('roundtrip: to_dict/from_dict%s does not give an equal manager (eq both ways=%s, tasks/context/name equal=%s)' % (' via JSON' if via_json else '', same, tasks_same),
                         options=opts, keyname=kn, context=ctx)
                if kn:
                    ev += 1
                    default = H._DICT_KEYNAMES_DEFAULT[kn[0]]
                    has = kn[1] in dd if kn[0] != 'task_options_name' else all(kn[1] in t for t in dd['tasks'])
                    if not has:
                        fail('roundtrip: renamed key %r not used in to_dict' % (kn,), options=opts)
        except Exception:
            fail('crash: ' + traceback.format_exc()[-600:], options=opts)
        finally:
            H.reset_dict_keyname()
    r.bounded_clause('OptionManager: cartesian product once each in order, get_task, find (string-form equality), to_dict/from_dict (+JSON) equality both ways with renamed keys',
                     '1-4 options x 1-5 values (ints, identifier-like strings, bare scalars) x 3 contexts x 4 key-name settings', ev, len(seen), False, bad)


def run(tier):
    r = Run('C19', tier, level='other')
    try:
        from vf import pybuild
        pybuild.activate()
        from hydrodiy.io import hyruns as H
        obls = []; npaths = 0
        try:
            obls, npaths = batch_obligations(H)
        except (engp.Unsupported, engp.PathLimit, TypeError, AttributeError, NotImplementedError) as e:
            # the code under analysis uses a construct the symbolic executor does not support (e.g. after a change of the code): undecided,
            # not a crash; the bounded monitors below still run
            r.undecided.append('Engine P cannot execute the current get_batch symbolically: %s: %s' % (type(e).__name__, str(e)[:300]))
        numpy_contract_crosscheck(r, tier)
        from vf import child
        DD = child.Distinct().wrap(H, 'get_batch')
        try:
            mon_batches(H, r, tier, DD)
        finally:
            DD.restore()
        mon_options(H, r, tier)
        if obls:
            pproof.discharge(r, obls, replay=replay_batch(H), file=FILE, fn_of=lambda ob: 'get_batch')
        r.functions = [dict(file='hyruns.py', fn='get_batch', trusted=['numpy.arange', 'numpy.array_split'], nonterminating=[], cutloops=0, unrolled=0, terminating=1)]
        r.extra['paths_explored'] = npaths
    except Exception:
        r.broken.append('C19 driver crashed: ' + traceback.format_exc()[-2500:])
    r.assumptions += ['numpy.arange / numpy.array_split: ASSUMED contract (sections of size n div N + 1 for the first n mod N sections, n div N after, contiguous, in order), cross-checked against the installed numpy for n < 120 (400 thorough)',
                      'python integers are mathematical integers (true in CPython); nelements, nbatch, ibatch are integers',
                      'exactly-once coverage is the induction over ibatch of: first starts at 0, batch i stops where batch i+1 starts, last stops at nelements (each proved)',
                      'SiteBatch and OptionManager: bounded monitors only (itertools.product, re and json have no contract within reach)']
    r.explanation = ('proved (Engine P, integers): get_batch rejects exactly the inadmissible calls and returns contiguous, ordered, gap-free, balanced ranges covering 0..nelements-1, for all nelements, nbatch, ibatch, '
                     'relative to the assumed contract of numpy.array_split; bounded: SiteBatch.search, OptionManager enumeration / find / round trip')
    return r.finish()
