"""C20 - sampling, ranking and summary helpers return what their names promise.
Engine C : c_paretofront (flag == dominated by a point strictly better in every non-missing coordinate; orientation lemma).
Engine P : the real sutils.ppos on a symbolic sample size and constant (generic element i of numpy.arange): values in (0,1), strictly
           increasing, symmetric about 0.5; the real sutils.standard_normal (normal scores strictly increasing in the ranks, argument of the
           normal quantile inside (0,1)) and sutils.lhs (each sample in the stratum chosen by the permutation) for enumerated small sizes
           with symbolic values.  numpy / pandas / scipy functions by ASSUMED contracts, cross-checked on every run.
Bounded  : float monitors for lhs, ppos, standard_normal, pareto_front (Python wrapper), boxplot_stats / Boxplot.stats, Violin."""
import itertools, math, random, traceback, contextlib, warnings
import numpy as np
import z3
from vf.check import Run
from vf import engp, pproof
from vf.engp import sym, rv, SymReal, SymBool, SA
from props import common as cm

FILE = 'src/hydrodiy/stat/sutils.py'
K = z3.Real('k!idx')          # generic index of a symbolic sequence


class SymSeq:
    """a sequence whose k-th element is the symbolic expression e(k), for a generic integer k in [0, n)"""

    def __init__(self, e, n):
        self.e = SymReal.lift(e); self.n = n

    def _bin(self, o, f):
        if isinstance(o, SymSeq):
            return SymSeq(f(self.e, o.e), self.n)
        return SymSeq(f(self.e, SymReal.lift(o)), self.n)

    def __add__(self, o): return self._bin(o, lambda a, b: a + b)
    __radd__ = __add__
    def __sub__(self, o): return self._bin(o, lambda a, b: a - b)
    def __rsub__(self, o): return self._bin(o, lambda a, b: b - a)
    def __mul__(self, o): return self._bin(o, lambda a, b: a * b)
    __rmul__ = __mul__
    def __truediv__(self, o): return self._bin(o, lambda a, b: a / b)
    def __rtruediv__(self, o): return self._bin(o, lambda a, b: b / a)

    def at(self, i):
        s = lambda x: z3.substitute(x, (K, i))
        return SymReal(s(self.e.val), s(self.e.nan), s(self.e.inf))

    def __len__(self):
        raise engp.Unsupported('len() of a sequence of symbolic length')


PPF = z3.Function('norm_ppf', z3.RealSort(), z3.RealSort())


class Rand:
    """numpy.random as seen by sutils.lhs: ASSUMED contracts: permutation(n) is a permutation of 0..n-1 (the analysis enumerates them);
    uniform(low, high, size) returns values in [low, high)"""

    def __init__(self, perms):
        self.perms = list(perms); self.calls = 0; self.count = 0

    def permutation(self, n):
        p = self.perms[self.calls]; self.calls += 1
        assert len(p) == n and sorted(p) == list(range(n))
        return np.array(p, dtype=int)

    def uniform(self, low, high, size=None):
        out = np.empty(int(size), dtype=object)
        for j in range(int(size)):
            self.count += 1
            e = sym('eps%d' % self.count)
            engp.CTX.axioms += [e.val >= SymReal.lift(low).val, e.val < SymReal.lift(high).val]
            out[j] = e
        return out.view(SA)


class NPX(engp.NPProxy):
    def __init__(self, rand=None):
        engp.NPProxy.__init__(self)
        self.random = rand

    def arange(self, a, b=None, *r):
        if r or not (engp.symbolic(a) or engp.symbolic(b)):
            return np.arange(a, *([b] if b is not None else []), *r)
        start, stop = (0, a) if b is None else (a, b)
        # ASSUMED contract of numpy.arange(start, stop) on integers: element k is start + k, k = 0 .. stop-start-1
        return SymSeq(SymReal.lift(start) + SymReal(K), SymReal.lift(stop) - SymReal.lift(start))

    def linspace(self, a, b, n, *r, **k):
        if not (engp.symbolic(a) or engp.symbolic(b)):
            return np.linspace(a, b, n, *r, **k)
        # ASSUMED contract of numpy.linspace(a, b, n): element k is a + k*(b-a)/(n-1); a alone when n == 1
        n = int(n); a = SymReal.lift(a); b = SymReal.lift(b)
        out = np.empty(n, dtype=object)
        for kk in range(n):
            out[kk] = a if n == 1 else (a + (b - a) * float(kk) / float(n - 1)) if kk < n - 1 else b      # exact rational kk/(n-1): multiply first, then divide
        return out.view(SA)

    def zeros(self, shape, *a, **k):
        out = np.empty(shape, dtype=object); out.fill(0.0)
        return out.view(SA)

    def repeat(self, x, n):
        return np.repeat(x, n).view(SA) if engp.symbolic(x) else np.repeat(x, n)


class NormX:
    """scipy.stats.norm: ppf is ASSUMED strictly increasing and finite on (0, 1) (uninterpreted function + monotonicity instances)"""
    terms = []

    @staticmethod
    def ppf(q):
        def one(v):
            v = SymReal.lift(v)
            NormX.terms.append(v.val)
            return SymReal(PPF(v.val), v.nan, v.inf)
        if isinstance(q, SymSeq):
            return SymSeq(one(q.e), q.n)
        if isinstance(q, np.ndarray):
            out = np.empty(q.shape, dtype=object); out.flat = [one(v) for v in q.flat]
            return out.view(SA)
        return one(q)


def ppf_axioms(terms):
    ax = []
    for a, b in itertools.permutations(terms, 2):
        ax.append(z3.Implies(z3.And(a > 0, a < b, b < 1), PPF(a) < PPF(b)))
    return ax


class PDX:
    """pandas as seen by standard_normal: Series(x).rank(method) returns ranks r_i with the ASSUMED contract of pandas rank:
    1 <= r_i <= n, and x_i < x_j implies r_i < r_j, x_i == x_j implies r_i == r_j (methods average / min / max / dense)"""

    def __init__(self, ranks):
        self.ranks = ranks

    def Series(self, x, *a, **k):
        outer = self

        class S:
            def rank(self, method='average', **kw):
                out = np.empty(len(outer.ranks), dtype=object); out[:] = outer.ranks
                return out.view(SA)
        return S()


@contextlib.contextmanager
def patched_sutils(S, npx, pdx=None):
    saved = dict(np=S.np, norm=S.norm, pd=S.pd)
    had_float = 'float' in S.__dict__
    S.np = npx; S.norm = NormX
    if pdx is not None:
        S.pd = pdx
    # float(v) is the identity on reals: without this the conversion of a symbolic value would stop the analysis (ASSUMED, listed)
    S.float = lambda v: v if engp.symbolic(v) else float(v)
    try:
        with warnings.catch_warnings():
            warnings.simplefilter('ignore')
            yield
    finally:
        S.np = saved['np']; S.norm = saved['norm']; S.pd = saved['pd']
        if not had_float:
            del S.float


# ------------------------------------------------------------------------------------------------ ppos (symbolic size)
def ppos_obligations(S):
    nI = z3.Int('nval'); n = SymReal(z3.ToReal(nI)); cst = sym('cst')
    iI = z3.Int('i'); jI = z3.Int('j')
    names = [nI, z3.Real('cst'), iI, jI]
    base = [nI >= 1]
    obls = []

    def run():
        return S.ppos(n, cst)
    with patched_sutils(S, NPX()):
        paths = engp.explore(run, base=base, allowed_exc=(ValueError,))
    c = cst.val
    for k, p in enumerate(paths):
        hyp = base + list(p.pc) + list(p.axioms)
        tag = 'sutils.py/ppos/path%d' % k
        if p.exc is not None:
            obls.append(pproof.PObligation(tag + '/rejects-only-bad-constant', 'post', 'ppos raises ValueError only for a constant outside [0, 0.5]', hyp, z3.Or(c < 0, c > rv(0.5)), names))
            continue
        res = p.result
        if not isinstance(res, SymSeq):
            raise engp.Unsupported('ppos returned %r' % (res,))
        obls.append(pproof.PObligation(tag + '/accepts-only-good-constant', 'post', 'ppos returns only for a constant in [0, 0.5]', hyp, z3.And(c >= 0, c <= rv(0.5)), names))
        obls.append(pproof.PObligation(tag + '/length', 'post', 'ppos returns nval values', hyp, res.n.val == z3.ToReal(nI), names))
        # element k (0-based) is the plotting position of rank k+1
        i0 = z3.ToReal(iI) - 1; j0 = z3.ToReal(jI) - 1
        pi = res.at(i0); pj = res.at(j0)
        dom_i = [iI >= 1, iI <= nI]; dom_j = [jI >= 1, jI <= nI]
        obls.append(pproof.PObligation(tag + '/in-open-unit-interval', 'post', 'every plotting position lies strictly between 0 and 1 (and is a number)', hyp + dom_i,
                                       z3.And(z3.Not(pi.nan), z3.Not(pi.inf), pi.val > 0, pi.val < 1), names))
        obls.append(pproof.PObligation(tag + '/strictly-increasing', 'post', 'plotting positions increase strictly with the rank', hyp + dom_i + dom_j + [iI < jI], pi.val < pj.val, names))
        pm = res.at(z3.ToReal(nI) + 1 - z3.ToReal(iI) - 1)
        obls.append(pproof.PObligation(tag + '/symmetric', 'post', 'positions of ranks i and n+1-i are symmetric about 0.5', hyp + dom_i, pi.val + pm.val == 1, names))
        obls.append(pproof.PObligation(tag + '/formula', 'post', 'position of rank i is (i - cst)/(n + 1 - 2 cst)', hyp + dom_i, pi.val * (z3.ToReal(nI) + 1 - 2 * c) == z3.ToReal(iI) - c, names))
    return obls, len(paths)


def replay_ppos(S):
    def replay(ob, model):
        if '/ppos/' not in ob.id:
            return None
        n = model.get('nval'); c = model.get('cst')
        if n is None or c is None or not (1 <= n <= 10 ** 6):
            return None
        n = int(n)
        try:
            pp = S.ppos(n, c); raised = False
        except ValueError:
            raised = True; pp = None
        good = 0 <= c <= 0.5
        ok = raised != good
        if ok and good:
            ref = [(i - c) / (n + 1 - 2 * c) for i in range(1, n + 1)]
            ok = len(pp) == n and all(abs(a - b) <= 1e-12 for a, b in zip(pp, ref)) and all(0 < v < 1 for v in pp) and all(a < b for a, b in zip(pp, pp[1:])) \
                and all(abs(pp[i] + pp[n - 1 - i] - 1) < 1e-12 for i in range(n))
        if ok:
            return None
        return dict(source='solver counter-model replayed on the real sutils.ppos', nval=n, cst=c, observed=(None if pp is None else [float(v) for v in pp[:8]]), raised=raised)
    return replay


# ------------------------------------------------------------------------------------------------ standard_normal (enumerated sizes)
def stdnorm_obligations(S, sizes):
    obls = []; npaths = 0
    for n in sizes:
        for srt in (False, True):
            cst = sym('cst')
            xs = [sym('x%d' % i) for i in range(n)]
            ranks = [sym('r%d' % i) for i in range(n)]
            base = [cst.val >= 0, cst.val <= rv(0.5)]
            # assumed contract of pandas rank (see PDX)
            for i in range(n):
                base += [ranks[i].val >= 1, ranks[i].val <= n]
                for j in range(n):
                    if i != j:
                        base += [z3.Implies(xs[i].val < xs[j].val, ranks[i].val < ranks[j].val), z3.Implies(xs[i].val == xs[j].val, ranks[i].val == ranks[j].val)]
            if srt:
                base += [xs[i].val <= xs[i + 1].val for i in range(n - 1)]
            NormX.terms = []

            def run():
                x = np.empty(n, dtype=object); x[:] = xs
                return S.standard_normal(x.view(SA), cst, srt)
            with patched_sutils(S, NPX(), PDX(ranks)):
                paths = engp.explore(run, base=base, allowed_exc=())
            npaths += len(paths)
            names = ['cst'] + ['x%d' % i for i in range(n)] + ['r%d' % i for i in range(n)]
            for k, p in enumerate(paths):
                unorm, rk = p.result
                hyp = base + list(p.pc) + list(p.axioms) + ppf_axioms(list(dict((str(t), t) for t in NormX.terms).values()))
                tag = 'sutils.py/standard_normal/n=%d,sorted=%s/path%d' % (n, srt, k)
                us = [SymReal.lift(u) for u in (list(unorm) if n else [])]
                rs = [SymReal.lift(v) for v in (list(rk) if n else [])]
                for i in range(n):
                    # the argument of the normal quantile is a probability strictly inside (0, 1): finite score
                    arg = us[i].val.arg(0) if z3.is_app(us[i].val) and us[i].val.decl().name() == 'norm_ppf' else None
                    if arg is None:
                        raise engp.Unsupported('score is not norm.ppf(...)')
                    obls.append(pproof.PObligation(tag + '/score%d-finite' % i, 'post', 'normal score %d is the quantile of a probability strictly inside (0, 1)' % i, hyp, z3.And(arg > 0, arg < 1, z3.Not(us[i].nan)), names))
                    for j in range(n):
                        if i < j:
                            obls.append(pproof.PObligation(tag + '/increasing-%d-%d' % (i, j), 'post', 'scores are a strictly increasing function of the ranks (elements %d, %d)' % (i, j), hyp,
                                                           z3.And(z3.Implies(rs[i].val < rs[j].val, us[i].val < us[j].val), z3.Implies(rs[i].val == rs[j].val, us[i].val == us[j].val),
                                                                  z3.Implies(rs[i].val > rs[j].val, us[i].val > us[j].val)), names))
                if srt:
                    for i in range(n):
                        obls.append(pproof.PObligation(tag + '/rank%d' % i, 'post', 'sorted input: rank of element %d is %d' % (i, i), hyp, rs[i].val == i, names))
                else:
                    # in terms of the data: equal values share a score, a larger value has a larger score (ranks are tie-aware)
                    for i in range(n):
                        for j in range(n):
                            if i < j:
                                obls.append(pproof.PObligation(tag + '/data-order-%d-%d' % (i, j), 'post', 'scores follow the data ranks: equal values share a score, a larger value scores higher (elements %d, %d)' % (i, j), hyp,
                                                               z3.And(z3.Implies(xs[i].val < xs[j].val, us[i].val < us[j].val), z3.Implies(xs[i].val == xs[j].val, us[i].val == us[j].val),
                                                                      z3.Implies(xs[i].val > xs[j].val, us[i].val > us[j].val)), names))
    return obls, npaths


# ------------------------------------------------------------------------------------------------ lhs (enumerated sizes)
def lhs_obligations(S, cases):
    obls = []; npaths = 0
    for (n, p) in cases:
        perms_all = list(itertools.permutations(range(n)))
        combos = list(itertools.product(perms_all, repeat=p))
        if len(combos) > 40:
            rnd = random.Random(n * 10 + p); combos = rnd.sample(combos, 40)
        for ci, combo in enumerate(combos):
            lo = [sym('lo%d' % i) for i in range(p)]; hi = [sym('hi%d' % i) for i in range(p)]
            base = []
            rand = Rand(combo)

            def run():
                a = np.empty(p, dtype=object); a[:] = lo; b = np.empty(p, dtype=object); b[:] = hi
                return S.lhs(n, a.view(SA), b.view(SA))
            with patched_sutils(S, NPX(rand)):
                # every path re-runs lhs: the stand-in for numpy.random must restart
                def run0():
                    rand.calls = 0; rand.count = 0
                    return run()
                paths = engp.explore(run0, base=base, allowed_exc=(ValueError,))
            npaths += len(paths)
            names = ['lo%d' % i for i in range(p)] + ['hi%d' % i for i in range(p)] + ['eps%d' % i for i in range(1, n * p + 1)]
            proper = z3.And(*[hi[i].val > lo[i].val for i in range(p)])
            for k, pa in enumerate(paths):
                hyp = list(pa.pc) + list(pa.axioms)
                tag = 'sutils.py/lhs/n=%d,p=%d,perm%d/path%d' % (n, p, ci, k)
                if pa.exc is not None:
                    obls.append(pproof.PObligation(tag + '/rejects-only-empty-range', 'post', 'lhs raises ValueError only when some pmax <= pmin', hyp, z3.Not(proper), names))
                    continue
                smp = pa.result
                obls.append(pproof.PObligation(tag + '/accepts-only-proper-ranges', 'post', 'lhs returns only when pmax > pmin for every parameter', hyp, proper, names))
                if smp.shape != (n, p):
                    obls.append(pproof.PObligation(tag + '/shape', 'post', 'lhs returns nsamples x nparams values', hyp, z3.BoolVal(False), names)); continue
                for i in range(p):
                    du = (hi[i].val - lo[i].val) / n
                    for j in range(n):
                        s = SymReal.lift(smp[j, i]); m = combo[i][j]
                        obls.append(pproof.PObligation(tag + '/stratum-%d-%d' % (j, i), 'post', 'sample %d of parameter %d lies in stratum %d of the %d equal strata (one point per stratum: the strata indices are a permutation)' % (j, i, m, n),
                                                       hyp, z3.And(z3.Not(s.nan), z3.Not(s.inf), s.val >= lo[i].val + m * du, s.val < lo[i].val + (m + 1) * du), names))
    return obls, npaths


# ------------------------------------------------------------------------------------------------ assumed contracts against the libraries
def library_contracts(r):
    import pandas as pd
    from scipy.stats import norm
    rng = np.random.default_rng(r.seed + 20); n = 0; bad = []
    for k in range(1, 40):
        a, b = sorted(rng.normal(size=2) * 10)
        if a == b:
            continue
        ls = np.linspace(a, b, k); n += 1
        ref = [a] if k == 1 else [a + i * (b - a) / (k - 1) for i in range(k)]
        if not np.allclose(ls, ref, rtol=1e-13, atol=1e-13):
            bad.append('linspace')
        n += 1
        if np.arange(1, k + 1).tolist() != [1 + i for i in range(k)]:
            bad.append('arange')
        pm = np.random.permutation(k); n += 1
        if sorted(pm.tolist()) != list(range(k)):
            bad.append('permutation')
        u = np.random.uniform(a, b, size=50); n += 1
        if not (np.all(u >= a) and np.all(u < b)):
            bad.append('uniform')
        x = rng.integers(0, 5, size=k).astype(float) if k % 2 else rng.normal(size=k)
        for meth in ('average', 'min', 'max', 'dense'):
            rk = pd.Series(x).rank(method=meth).values; n += 1
            okr = np.all(rk >= 1) and np.all(rk <= k)
            for i in range(k):
                for j in range(k):
                    if x[i] < x[j] and not rk[i] < rk[j]:
                        okr = False
                    if x[i] == x[j] and not rk[i] == rk[j]:
                        okr = False
            if not okr:
                bad.append('rank ' + meth)
    q = np.linspace(1e-12, 1 - 1e-12, 4001); v = norm.ppf(q); n += 1
    if not (np.all(np.isfinite(v)) and np.all(np.diff(v) > 0)):
        bad.append('norm.ppf')
    r.bounded_clause('assumed contracts of numpy.arange / linspace / random.permutation / random.uniform, pandas rank and scipy norm.ppf used by the shims agree with the installed libraries',
                     'sizes 1..39, four rank methods, 4001 probabilities', n, n, False, failures=len(bad))
    if bad:
        r.broken.append('library contract assumed by C20 does not hold: %s' % sorted(set(bad)))


# ------------------------------------------------------------------------------------------------ bounded float monitors
def monitors(r):
    from vf import child
    res = child.run('props.C20', 'monitors_child', r.prop, r.tier, r.seed)
    child.merge(r, res['recorder'])
    if res['rc'] != 0:
        r.broken.append('C20 monitors child failed (rc=%s) at %s: %s' % (res['rc'], res['progress'], res['stderr'][-1500:]))


def _fail(rec, name, what, **w):
    rec.violation(dict(function=name, kind='monitor', clause=what.split(':')[0][:80]), 'bounded monitor %s: %s' % (name, what), witness=dict(python=True, source='bounded monitor', **w))


def monitors_child(rec):
    from props import apidrive
    from vf import child
    apidrive.setup()
    import pandas as pd
    from hydrodiy.stat import sutils as S
    from hydrodiy.plot import boxplot as B, violinplot as V
    rng = random.Random(rec.seed + 200); nrng = np.random.default_rng(rec.seed + 201)
    quick = rec.tier == 'quick'
    warnings.simplefilter('ignore')
    DD = child.Distinct()
    for fn in ('lhs', 'ppos', 'standard_normal', 'pareto_front'):
        DD.wrap(S, fn)
    DD.wrap(B, 'boxplot_stats').wrap(B, 'Boxplot').wrap(V, 'Violin')
    # ---- lhs: one point per stratum
    child.progress('lhs'); ev = 0; bad = 0
    for _ in range(60 if quick else 600):
        n = rng.choice([1, 2, 3, 5, 10, 37, 100, 333]); p = rng.randint(1, 6)
        lo = [rng.choice([0.0, -5.0, 1e-3, 100.0, -1e6]) for _ in range(p)]; hi = [l + rng.choice([1.0, 1e-3, 7.5, 1e6]) for l in lo]
        np.random.seed(rng.randrange(10 ** 6))
        s = S.lhs(n, lo, hi); ev += 1
        ok = s.shape == (n, p)
        for i in range(p if ok else 0):
            du = (hi[i] - lo[i]) / n
            idx = np.floor((s[:, i] - lo[i]) / du + 1e-9 * 0).astype(int)
            # a sample within rounding of a stratum boundary may be attributed to the neighbour: accept when the counts are repaired by moving boundary points
            idx = np.clip(idx, 0, n - 1)
            if sorted(idx.tolist()) != list(range(n)):
                near = np.abs((s[:, i] - lo[i]) / du - np.round((s[:, i] - lo[i]) / du)) < 1e-6
                if not near.any():
                    ok = False
            if not (np.all(s[:, i] >= lo[i] - 1e-9 * abs(lo[i])) and np.all(s[:, i] <= hi[i] + 1e-9 * abs(hi[i]))):
                ok = False
        if not ok:
            bad += 1; _fail(rec, 'lhs', 'strata: not exactly one sample per stratum', nsamples=n, pmin=lo, pmax=hi)
    for args in ((5, [0, 0], [1, 0]), (5, [1.0], [0.0]), (3, [0, 0, 0], [1, 1])):
        ev += 1
        try:
            S.lhs(*args); bad += 1; _fail(rec, 'lhs', 'reject: inadmissible ranges accepted', args=list(args))
        except ValueError:
            pass
    rec.bounded_clause('lhs: exactly one sample in each of the n equal strata of every parameter range (float64)', 'n in {1..333} x 1..6 parameters x 5x4 range classes, %d draws' % (60 if quick else 600), ev, DD.n('lhs'), False, bad)
    # ---- ppos / standard_normal
    child.progress('ppos'); ev = 0; bad = 0
    for n in list(range(1, 40)) + [100, 365, 1000]:
        for c in (0.0, 0.3, 0.375, 0.4, 0.5, 0.123):
            pp = S.ppos(n, c); ev += 1
            ok = len(pp) == n and np.all(pp > 0) and np.all(pp < 1) and np.all(np.diff(pp) > 0) and np.allclose(pp + pp[::-1], 1, atol=1e-12)
            if not ok:
                bad += 1; _fail(rec, 'ppos', 'positions: not increasing in (0,1) symmetric about 0.5', nval=n, cst=c)
        for c in (-0.01, 0.51):
            ev += 1
            try:
                S.ppos(n, c); bad += 1; _fail(rec, 'ppos', 'reject: constant outside [0, 0.5] accepted', nval=n, cst=c)
            except ValueError:
                pass
    rec.bounded_clause('ppos: strictly increasing in (0,1), symmetric, constants outside [0,0.5] rejected (float64)', 'n in 1..39, 100, 365, 1000 x 6 constants', ev, DD.n('ppos'), False, bad)
    child.progress('standard_normal'); ev = 0; bad = 0
    for _ in range(150 if quick else 1500):
        n = rng.choice([1, 2, 3, 4, 7, 20, 200])
        x = nrng.normal(size=n) if rng.random() < 0.5 else nrng.integers(0, 4, size=n).astype(float)
        for c in (0.0, 0.3, 0.5):
            for meth in ('average', 'min', 'first'):
                u, rk = S.standard_normal(x, c, False, meth); ev += 1
                u = np.asarray(u); rk = np.asarray(rk)
                o = np.argsort(rk, kind='stable')
                ok = np.all(np.isfinite(u)) and all((rk[a] < rk[b]) == (u[a] < u[b]) for a, b in zip(o[:-1], o[1:])) and all((x[a] < x[b]) <= (u[a] < u[b]) for a in range(min(n, 12)) for b in range(min(n, 12)))
                if not ok:
                    bad += 1; _fail(rec, 'standard_normal', 'scores: not a strictly increasing function of the ranks', x=x.tolist()[:30], cst=c, method=meth)
        # data that happen to be in increasing order, with ties, NOT declared sorted: ties still share a score
        xt = np.sort(nrng.integers(0, 3, size=n).astype(float)); u, rk = S.standard_normal(xt, 0.3); ev += 1
        u = np.asarray(u)
        if not all((xt[a] == xt[b]) == (u[a] == u[b]) and (xt[a] < xt[b]) == (u[a] < u[b]) for a in range(n) for b in range(n)):
            bad += 1; _fail(rec, 'standard_normal', 'ordered-ties: equal values of an (undeclared) ordered vector get different scores', x=xt.tolist()[:30])
        xs = np.sort(x); u, rk = S.standard_normal(xs, 0.3, True); ev += 1
        if not (np.all(np.diff(u) > 0) and list(rk) == list(range(n))):
            bad += 1; _fail(rec, 'standard_normal', 'sorted: scores of sorted data not increasing', x=xs.tolist()[:30])
    ev += 1
    try:
        S.standard_normal(np.array([1.0, np.nan])); bad += 1; _fail(rec, 'standard_normal', 'reject: NaN accepted')
    except ValueError:
        pass
    rec.bounded_clause('standard_normal: finite scores, strictly increasing in the ranks, ties share a score (float64)', 'n in {1..200}, continuous and heavily tied data, 3 constants, 3 rank methods', ev, DD.n('standard_normal'), False, bad)
    # ---- pareto_front wrapper
    child.progress('pareto_front'); ev = 0; bad = 0

    def oracle(d, orient):
        n, m = d.shape; out = np.zeros(n, dtype=int)
        for i in range(n):
            for j in range(n):
                if i != j and all(np.isnan(d[j, q]) or np.isnan(d[i, q]) or orient * (d[j, q] - d[i, q]) > 0 for q in range(m)):
                    out[i] = 1
        return out
    for _ in range(300 if quick else 3000):
        n = rng.choice([0, 1, 2, 3, 5, 10, 30, 60]); m = rng.randint(1, 5)
        d = nrng.integers(0, 4, size=(n, m)).astype(float) if rng.random() < 0.6 else nrng.normal(size=(n, m))
        complete = rng.random() < 0.5
        if not complete and n:
            d[nrng.random(size=(n, m)) < 0.2] = np.nan
        for orient in (1, -1):
            got = S.pareto_front(d, orient); ev += 1
            exp = oracle(d, orient)
            neg = S.pareto_front(-d, -orient)
            ok = got.tolist() == exp.tolist() and neg.tolist() == got.tolist() and (not complete or n == 0 or (got == 0).any())
            if d.shape[0] and not np.isfortran(d) and rng.random() < 0.2:
                ok = ok and S.pareto_front(np.asfortranarray(d), orient).tolist() == exp.tolist()
            if not ok:
                bad += 1; _fail(rec, 'pareto_front', 'dominance: flags differ from the dominance definition / orientation reversal / non-empty front', data=d.tolist(), orientation=orient, observed=got.tolist(), expected=exp.tolist())
    rec.bounded_clause('pareto_front (python wrapper): flags == brute-force dominance incl. NaN coordinates, orientation reversal == negated data, front of complete data not empty', '0..60 points x 1..5 dimensions, heavy ties, NaN', ev, DD.n('pareto_front'), False, bad)
    # ---- boxplot stats
    child.progress('boxplot_stats'); ev = 0; bad = 0

    def col(n):
        x = nrng.normal(size=n) if rng.random() < 0.5 else nrng.integers(0, 3, size=n).astype(float)
        if rng.random() < 0.2 and n:
            x[:] = 4.2
        for v in (np.nan, np.inf, -np.inf):
            if n and rng.random() < 0.5:
                x[nrng.random(size=n) < 0.15] = v
        return x

    def ref_stats(x, bc, wc):
        f = x[np.isfinite(x)]
        qs = [(100 - wc) / 2, (100 - bc) / 2, 50, 100 - (100 - bc) / 2, 100 - (100 - wc) / 2]
        if len(f) > 3:
            return dict(count=len(f), mean=f.mean(), min=f.min(), max=f.max(), q=[np.percentile(f, q) for q in qs])
        return dict(count=len(f), q=None)
    for _ in range(200 if quick else 2000):
        n = rng.choice([0, 1, 3, 4, 5, 10, 50, 300])
        bc = rng.choice([40, 50, 60, 80, 90]); wc = rng.choice([c for c in (90, 95, 99, 99.9) if c > bc])
        x = col(n)
        st = B.boxplot_stats(x, bc, wc); ev += 1
        ref = ref_stats(x, bc, wc)
        ok = int(st['count']) == ref['count']
        names = ['%0.1f%%' % q for q in [(100 - wc) / 2, (100 - bc) / 2, 50, 100 - (100 - bc) / 2, 100 - (100 - wc) / 2]]
        if ref['q'] is None:
            ok = ok and all(np.isnan(st[k]) for k in names + ['min', 'max', 'mean'])
        else:
            v = [st[k] for k in names]
            ok = ok and np.allclose(v, ref['q'], rtol=1e-12, atol=1e-12) and all(a <= b for a, b in zip([st['min']] + v, v + [st['max']])) \
                and st['min'] == ref['min'] and st['max'] == ref['max'] and abs(st['mean'] - ref['mean']) <= 1e-12 * max(1, abs(ref['mean']))
        if not ok:
            bad += 1; _fail(rec, 'boxplot_stats', 'stats: differ from the sample statistics of the finite values', data=x.tolist()[:60], box_coverage=bc, whiskers_coverage=wc, observed={k: float(v) for k, v in st.items()})
    # Boxplot object: per column and per group
    for _ in range(25 if quick else 250):
        n = rng.choice([8, 20, 60]); ncol = rng.randint(1, 3)
        df = pd.DataFrame({'c%d' % i: col(n) for i in range(ncol)})
        bc = rng.choice([40, 50, 80]); wc = rng.choice([90, 99])
        try:
            bp = B.Boxplot(df, box_coverage=bc, whiskers_coverage=wc); ev += 1
            for cn in df.columns:
                ref = B.boxplot_stats(df[cn].values, bc, wc)
                got = bp.stats[cn]
                if not all((np.isnan(got[k]) and np.isnan(ref[k])) or got[k] == ref[k] for k in ref.index):
                    bad += 1; _fail(rec, 'Boxplot.stats', 'columns: column statistics differ from boxplot_stats of the column', column=cn, data=df[cn].tolist()[:60]); break
        except Exception as e:
            bad += 1; _fail(rec, 'Boxplot.stats', 'crash: %s' % repr(e)[:200], data=df.to_dict('list'))
        # groups of unequal size
        ng = rng.randint(2, 4)
        by = pd.Series([rng.randrange(ng) if rng.random() < 0.8 else 0 for _ in range(n)], name='grp')
        if by.nunique() < 2:
            continue
        se = pd.Series(col(n), name='v')
        try:
            bp = B.Boxplot(se, by=by, box_coverage=bc, whiskers_coverage=wc); ev += 1
            for g in sorted(by.unique()):
                ref = B.boxplot_stats(se.values[by.values == g], bc, wc)
                # pivot_table leaves out a statistic that is NaN for every group: a missing row stands for NaN
                got = {k: (bp.stats[g][k] if k in bp.stats.index else np.nan) for k in ref.index}
                if not all((np.isnan(got[k]) and np.isnan(ref[k])) or abs(got[k] - ref[k]) <= 1e-12 * max(1, abs(ref[k])) for k in ref.index):
                    bad += 1; _fail(rec, 'Boxplot.stats', 'groups: group statistics differ from those of the group taken alone', group=int(g), data=se.tolist()[:80], by=by.tolist()[:80],
                                    observed={k: float(got[k]) for k in ref.index}, expected={k: float(ref[k]) for k in ref.index}); break
        except Exception as e:
            bad += 1; _fail(rec, 'Boxplot.stats', 'crash-by: %s' % repr(e)[:300], data=se.tolist()[:60], by=by.tolist()[:60])
    rec.bounded_clause('boxplot_stats / Boxplot.stats: count of finite values, percentiles at the implied levels in order between min and max, NaN row below 4 values, group-wise == group alone',
                       'columns of 0..300 values with NaN / +-inf / ties / constant, box coverage 40..90, whiskers above', ev, DD.n('boxplot_stats', 'Boxplot'), False, bad)
    # ---- violin
    child.progress('violin'); ev = 0; bad = 0
    for _ in range(20 if quick else 200):
        n = rng.choice([5, 12, 60, 200]); ncol = rng.randint(1, 3)
        df = pd.DataFrame({'c%d' % i: col(n) for i in range(ncol)})
        try:
            np.random.seed(5)
            vl = V.Violin(df); ev += 1
            st = vl.stats
            for cn in df.columns:
                f = df[cn].values[np.isfinite(df[cn].values)]
                if len(f) == 0:
                    continue
                got = st[cn]
                lv = {'median': 50}
                for k in got.index:
                    if k.startswith('Q'):
                        lv[k] = float(k[1:])
                exp = {k: np.percentile(f, q) for k, q in lv.items()}
                vals = [got[k] for k in sorted(lv, key=lambda k: lv[k])]
                if not (all(abs(got[k] - exp[k]) <= 1e-9 * max(1, abs(exp[k])) for k in lv) and all(a <= b for a, b in zip(vals, vals[1:])) and f.min() <= vals[0] and vals[-1] <= f.max()):
                    bad += 1; _fail(rec, 'Violin.stats', 'stats: quantiles differ from those of the finite values of the column', column=cn, data=df[cn].tolist()[:80],
                                    observed={k: float(got[k]) for k in lv}, expected={k: float(v) for k, v in exp.items()}); break
                ky = vl.kde_y[cn].values; kx = vl.kde_x[cn].values
                if len(f) > 2 and np.ptp(f) > 0:
                    if not (np.all(np.isfinite(ky)) and abs(ky.min()) < 1e-12 and abs(ky.max() - 1) < 1e-12 and np.all(np.diff(kx) >= 0) and kx.min() >= f.min() - 1e-5 and kx.max() <= f.max() + 1e-5):
                        bad += 1; _fail(rec, 'Violin.kde', 'density: profile not normalised to [0, 1] on abscissae within the data range', column=cn, data=df[cn].tolist()[:80]); break
        except Exception as e:
            bad += 1; _fail(rec, 'Violin', 'crash: %s' % repr(e)[:300], data={k: v[:40] for k, v in df.to_dict('list').items()})
    rec.bounded_clause('Violin.stats / kde: quantiles of the finite values in order between min and max; density normalised to [0, 1]', 'columns of 5..200 values with NaN / +-inf / ties', ev, DD.n('Violin'), False, bad)


def run(tier):
    r = Run('C20', tier, level='other')
    cm.run_kernels(r, cm.kernels('c_paretofront'))
    try:
        from vf import pybuild
        pybuild.activate()
        from hydrodiy.stat import sutils as S
        obls, npaths = ppos_obligations(S)
        o2, p2 = stdnorm_obligations(S, (1, 2, 3) if tier == 'quick' else (1, 2, 3, 4, 5)); obls += o2; npaths += p2
        o3, p3 = lhs_obligations(S, [(1, 1), (2, 1), (3, 1), (2, 2)] if tier == 'quick' else [(1, 1), (2, 1), (3, 1), (4, 1), (2, 2), (3, 2), (2, 3)]); obls += o3; npaths += p3
        o4, p4 = pareto_wrapper_obligations(S); obls += o4; npaths += p4
        library_contracts(r)
        pproof.discharge(r, obls, replay=replay_ppos(S), file=FILE, fn_of=lambda ob: ob.id.split('/')[1])
        r.functions += [dict(file='sutils.py', fn=f, trusted=t, nonterminating=[], cutloops=0, unrolled=0, terminating=0)
                        for f, t in (('ppos', ['numpy.arange']), ('standard_normal', ['pandas.Series.rank', 'scipy.stats.norm.ppf']), ('lhs', ['numpy.linspace', 'numpy.random.permutation', 'numpy.random.uniform']))]
        r.extra['paths_explored'] = npaths
    except (engp.Unsupported, engp.PathLimit) as e:
        # the code under analysis uses a construct the symbolic executor does not support (e.g. after a change of the code): undecided, not a crash
        r.undecided.append('Engine P cannot execute the current code symbolically: %s' % (str(e)[:300],))
    except Exception:
        r.broken.append('C20 Engine P driver crashed: ' + traceback.format_exc()[-2500:])
    monitors(r)
    r.assumptions += ['ppos: the sample size is a symbolic integer >= 1, the constant a symbolic real; numpy.arange by its assumed contract (generic element)',
                      'standard_normal: sizes 1..3 (5 thorough) enumerated, data / ranks / constant symbolic; pandas rank and scipy norm.ppf (strictly increasing on (0,1)) by assumed contracts',
                      'lhs: (nsamples, nparams) in a small enumerated set with every permutation (at most 40 per case), bounds and uniform draws symbolic; float() is the identity on reals; numpy.linspace / permutation / uniform by assumed contracts',
                      'floats as reals in the Engine P part: rounding at stratum boundaries is only covered by the float monitors',
                      'boxplot / violin summaries depend on numpy.nanpercentile, pandas quantile / groupby / pivot_table and scipy gaussian_kde: bounded monitors only']
    r.explanation = ('proved: c_paretofront contract (Engine C); ppos in (0,1), increasing, symmetric, formula, rejection of bad constants for every size (Engine P); standard_normal / lhs for enumerated small sizes with symbolic values; '
                     'bounded: float monitors of lhs, ppos, standard_normal, pareto_front wrapper, boxplot and violin summaries')
    return r.finish()


# ------------------------------------------------------------------------------------------------ Engine P: the python wrapper of c_paretofront
def pareto_wrapper_obligations(S):
    """the real sutils.pareto_front on a symbolic data set (C- and Fortran-ordered, NaN allowed) with the compiled module replaced by a recorder:
    the kernel is entered once with the orientation, the data row by row unchanged and a zeroed flag vector; its flags are returned"""
    obls = []; npaths = 0
    n, m = 3, 2
    x = [[SymReal(z3.Real('d%d_%d' % (i, k)), z3.Bool('d%d_%d!nan' % (i, k))) for k in range(m)] for i in range(n)]
    names = ['d%d_%d' % (i, k) for i in range(n) for k in range(m)]
    eq = lambda a, b: z3.Or(z3.And(SymReal.lift(a).nan, SymReal.lift(b).nan), z3.And(z3.Not(SymReal.lift(a).nan), z3.Not(SymReal.lift(b).nan), SymReal.lift(a).val == SymReal.lift(b).val))

    class Kernel:
        def __init__(self):
            self.calls = []

        def pareto_front(self, orientation, data, isdominated):
            d = np.asarray(data, dtype=object)
            self.calls.append(dict(orientation=int(orientation), shape=d.shape, rows=[[d[i, k] for k in range(d.shape[1])] for i in range(d.shape[0])] if d.ndim == 2 else None,
                                   contiguous=bool(np.asarray(data).flags['C_CONTIGUOUS']), flags0=[int(v) for v in isdominated], fdtype=np.asarray(isdominated).dtype))
            isdominated[:] = [1, 0, 1][:len(isdominated)]
            return 0

    for orient in (1, -1):
        for order in ('C', 'F'):
            kern = Kernel()

            def run():
                kern.calls = []
                a = np.empty((n, m), dtype=object)
                for i in range(n):
                    a[i, :] = x[i]
                a = np.asfortranarray(a) if order == 'F' else a
                return S.pareto_front(a.view(SA), orient), list(kern.calls)
            saved = (S.np, S.c_hydrodiy_stat, S.has_c_module)
            S.np = engp.NPProxy(); S.c_hydrodiy_stat = kern; S.has_c_module = lambda *a, **kw: True
            try:
                paths = engp.explore(run, base=[], allowed_exc=())
            finally:
                S.np, S.c_hydrodiy_stat, S.has_c_module = saved
            npaths += len(paths)
            for kp, pa in enumerate(paths):
                out, calls = pa.result
                hyp = list(pa.pc) + list(pa.axioms)
                tag = 'sutils.py/pareto_front/orientation=%d,order=%s/path%d' % (orient, order, kp)
                if len(calls) != 1:
                    obls.append(pproof.PObligation(tag + '/one-kernel-call', 'post', 'the kernel is entered exactly once', hyp, z3.BoolVal(False), names)); continue
                c = calls[0]
                obls.append(pproof.PObligation(tag + '/orientation-buffers', 'post', 'the kernel receives the orientation unchanged, C-contiguous data of the same shape and a zeroed int32 flag vector of one flag per point', hyp,
                                               z3.BoolVal(c['orientation'] == orient and c['shape'] == (n, m) and c['contiguous'] and c['flags0'] == [0] * n and c['fdtype'] == np.int32), names))
                obls.append(pproof.PObligation(tag + '/data', 'post', 'the kernel receives the data set row by row unchanged (missing coordinates stay missing)', hyp,
                                               z3.And(*[eq(c['rows'][i][k], x[i][k]) for i in range(n) for k in range(m)]) if c['rows'] is not None else z3.BoolVal(False), names))
                obls.append(pproof.PObligation(tag + '/returns-kernel-flags', 'post', 'the flags written by the kernel are returned', hyp, z3.BoolVal([int(v) for v in out] == [1, 0, 1]), names))
    return obls, npaths
