"""Drives the public Python API of hydrodiy over boundary shapes and value classes (C05 layer L3 and other bounded monitors).
Everything here runs against the python files of the working tree and extension modules compiled from the working tree
(vf.pybuild.activate), never against the installed binaries."""
import itertools, math, warnings, io, contextlib, os, sys
import numpy as np

NAN = float('nan'); INF = float('inf')


def setup():
    from vf import pybuild
    d = pybuild.activate()
    warnings.simplefilter('ignore')
    import matplotlib
    matplotlib.use('Agg')
    return d


def value_classes(rng, n):
    """arrays of length n for each value class of the C05 quantifier"""
    out = []
    if QUICK[0]:
        a = np.array([rng.choice([0.0, 1.0, 2.5, -1.0]) for _ in range(n)], dtype=float); out.append(('finite', a))
        a = np.array([rng.choice([0.0, INF, -INF, 2.0, NAN, 1e300]) for _ in range(n)], dtype=float); out.append(('naninf', a))
        return out
    out.append(('finite', np.array([rng.choice([0.0, 1.0, 2.5, 7.0, 0.5]) for _ in range(n)], dtype=float)))
    out.append(('negative', np.array([rng.choice([-1.0, -2.5, 3.0]) for _ in range(n)], dtype=float)))
    a = np.array([rng.choice([0.0, 1.0, NAN, 2.0]) for _ in range(n)], dtype=float); out.append(('nan', a))
    a = np.array([rng.choice([0.0, INF, -INF, 2.0, NAN]) for _ in range(n)], dtype=float); out.append(('inf', a))
    out.append(('huge', np.array([rng.choice([1e300, -1e300, 1e19, 1.0]) for _ in range(n)], dtype=float)))
    return out


class Probe:
    """collects the outcome of API calls: ok / python exception / kernel precondition violated"""

    def __init__(self):
        self.calls = 0; self.ok = 0; self.pyexc = 0; self.kpv = []; self.crash = []; self.labels = set()

    def call(self, label, f, *a, **k):
        from vf.pyxl2 import KernelPreconditionViolated
        self.calls += 1; self.labels.add(label.split('|')[0])
        if getattr(self, 'progress', None):
            self.progress(label)
        try:
            with contextlib.redirect_stdout(io.StringIO()):
                r = f(*a, **k)
            self.ok += 1
            return r
        except KernelPreconditionViolated as e:
            self.kpv.append(dict(api=label, wrapper=e.wrapper, kernel=e.kernel, args=e.kargs, clause=e.clause))
        except (ValueError, AssertionError, TypeError, IndexError, KeyError, ZeroDivisionError, AttributeError, OverflowError, MemoryError, NotImplementedError, RuntimeError) as e:
            self.pyexc += 1
        return None


LENGTHS = [0, 1, 2, 3, 5, 17]
QUICK = [False]


def drive_data(p, rng):
    from hydrodiy.data import dutils, qualitycontrol, signatures
    import pandas as pd
    import c_hydrodiy_data as cd
    for n in LENGTHS:
        for cls, x in value_classes(rng, n):
            for pattern in ('const', 'incr', 'runs', 'decr'):
                idx = {'const': np.zeros(n), 'incr': np.arange(n), 'runs': np.arange(n) // 2, 'decr': -np.arange(n)}[pattern].astype(int)
                for op in (0, 1, 2, 3, 4, -1):
                    for maxnan in (0, 2, -1):
                        p.call('dutils.aggregate|%d %s %s' % (n, cls, pattern), dutils.aggregate, idx, x, op, maxnan)
                for maxnan in (0, 1, -1):
                    p.call('dutils.flathomogen|%d %s %s' % (n, cls, pattern), dutils.flathomogen, idx, x, maxnan)
            p.call('dutils.aggregate|mismatch', dutils.aggregate, np.arange(n + 1), x)
            for npoints in (1, 3, 0):
                p.call('qualitycontrol.islinear|%d %s' % (n, cls), qualitycontrol.islinear, x, npoints)
            for tt in (0, 1, 2):
                for thresh, tau, bfi in ((0.95, 20, 0.8), (2.0, 20, 0.8), (0.5, 0.0, 0.5), (0.5, 20, -1.0)):
                    p.call('signatures.eckhardt|%d %s' % (n, cls), signatures.eckhardt, x, thresh, tau, bfi, tt)
    # var2h: irregular series around the hour boundaries, short and long, every unit
    for unit in (('s', 'ns') if QUICK[0] else ('s', 'ms', 'us', 'ns')):
        for n in ((1, 2, 6) if QUICK[0] else (1, 2, 3, 6, 20)):
            for step in ((1, 1800, 7200) if QUICK[0] else (1, 600, 1800, 3600, 7200)):
                t0 = pd.Timestamp('2001-03-04 05:06:07')
                times = pd.DatetimeIndex([t0 + pd.Timedelta(seconds=int(step * k)) for k in range(n)]).as_unit(unit)
                for cls, x in value_classes(rng, n)[:(2 if QUICK[0] else 3)]:
                    se = pd.Series(x, index=times)
                    for P in (3600, 1800, 900):
                        for rain in (False, True):
                            p.call('dutils.var2h|%s %d %d' % (unit, n, step), dutils.var2h, se, P, 5 * 86400, rain)
    # c-module date helpers
    for y in (-1, 0, 1900, 2000, 2024, 10 ** 9):
        p.call('c.isleapyear', cd.isleapyear, y)
        for m in (-1, 0, 1, 2, 12, 13):
            p.call('c.daysinmonth', cd.daysinmonth, y, m)
            for d in (0, 1, 28, 29, 31, 32):
                p.call('c.dayofyear', cd.dayofyear, m, d)
                if abs(y) < 10 ** 8:
                    p.call('c.add1month', cd.add1month, np.array([y, m, d], dtype=np.int32))
                    p.call('c.add1day', cd.add1day, np.array([y, m, d], dtype=np.int32))
    for day in (20000229.0, 19000229.0, 0.0, -1.0, 1e10, 1e300, NAN, INF, 20001301.0):
        p.call('c.getdate', cd.getdate, day, np.zeros(3, dtype=np.int32))
    p.call('c.getdate|short', cd.getdate, 20000101.0, np.zeros(2, dtype=np.int32))
    for n in range(0, 40, 3):
        for k in range(0, 35, 4):
            p.call('c.combi', cd.combi, n, k)


def drive_stat(p, rng):
    from hydrodiy.stat import metrics, armodels, sutils
    for n in LENGTHS:
        for m in (0, 1, 2, 5):
            for cls, x in value_classes(rng, n):
                ens = np.array([[rng.choice([0.0, 1.0, 2.0, NAN if cls == 'nan' else 3.0]) for _ in range(m)] for _ in range(n)], dtype=float).reshape(n, m)
                p.call('metrics.crps|%d %d %s' % (n, m, cls), metrics.crps, x, ens)
                p.call('metrics.dscore|%d %d %s' % (n, m, cls), metrics.dscore, x, ens)
                for eps in (1e-6, 0.0, -1.0):
                    p.call('metrics.dscore|eps', metrics.dscore, x, ens, eps)
                p.call('sutils.pareto_front|%d %d %s' % (n, m, cls), sutils.pareto_front, ens, 1)
                p.call('sutils.pareto_front|%d %d %s' % (n, m, cls), sutils.pareto_front, ens, -1)
                p.call('sutils.pareto_front|orient', sutils.pareto_front, ens, 0)
        for cls, x in value_classes(rng, n):
            u = np.clip(np.abs(x), 0, 1) if cls == 'finite' else x
            p.call('metrics.anderson_darling_test|%d %s' % (n, cls), metrics.anderson_darling_test, u)
            for order in (0, 1, 2, 10, 11):
                params = np.array([0.5 / (k + 1) for k in range(order)])
                for mean, ini in ((0.0, None), (1.5, 2.0), (NAN, 0.0), (0.0, NAN)):
                    p.call('armodels.armodel_sim|%d %d %s' % (n, order, cls), armodels.armodel_sim, params, x, mean, ini)
                    p.call('armodels.armodel_residual|%d %d %s' % (n, order, cls), armodels.armodel_residual, params, x, mean, ini)
            p.call('armodels.armodel_sim|nanparam', armodels.armodel_sim, np.array([NAN]), x)
            p.call('armodels.armodel_sim|scalar', armodels.armodel_sim, 0.5, x)


def small_flowgrids(rng):
    from hydrodiy.gis.grid import Grid, FLOWDIRCODE
    codes = [int(v) for v in FLOWDIRCODE.ravel() if v != 0] + [0, 3]
    out = []
    for (nr, nc) in [(1, 1), (1, 2), (2, 1), (2, 2), (1, 4), (3, 3), (3, 5), (2, 6)]:
        for _ in range(3):
            g = Grid('fd', ncols=nc, nrows=nr, dtype=np.int64, nodata=-1)
            g.data = np.array([rng.choice(codes) for _ in range(nr * nc)], dtype=np.int64).reshape(nr, nc)
            out.append(g)
    return out


def drive_gis(p, rng):
    from hydrodiy.gis import grid as G, gutils
    from hydrodiy.gis.grid import Grid, Catchment
    for (nr, nc, xll, yll, csz) in [(1, 1, 0., 0., 1.), (2, 3, 10., 20., 0.5), (4, 2, -3., -1., 2.), (3, 3, 0., 0., 1e-3)]:
        g = Grid('g', ncols=nc, nrows=nr, cellsize=csz, xllcorner=xll, yllcorner=yll, dtype=np.float64)
        g.data = np.arange(nr * nc, dtype=float).reshape(nr, nc)
        for n in (0, 1, 2, 5):
            for cls, x in value_classes(rng, 2 * n):
                xy = x.reshape(n, 2) if n else np.zeros((0, 2))
                p.call('Grid.coord2cell|%d %s' % (n, cls), g.coord2cell, xy)
                p.call('Grid.slice|%d %s' % (n, cls), g.slice, xy)
            for width in (1, 3):
                p.call('Grid.coord2cell|width %d' % width, g.coord2cell, np.zeros((max(n, 1), width)))
                p.call('Grid.slice|width %d' % width, g.slice, np.zeros((max(n, 1), width)))
            p.call('Grid.coord2cell|1d', g.coord2cell, np.zeros(3))
            p.call('Grid.coord2cell|scalar', g.coord2cell, 1.0)
            cells = np.array([rng.choice([-1, 0, nr * nc - 1, nr * nc, 10 ** 12]) for _ in range(n)], dtype=np.int64)
            p.call('Grid.cell2coord|%d' % n, g.cell2coord, cells)
            p.call('Grid.cell2rowcol|%d' % n, g.cell2rowcol, cells)
        for c in (-1, 0, nr * nc - 1, nr * nc, 2 ** 62):
            p.call('Grid.neighbours', g.neighbours, c)
        poly = np.array([[xll, yll], [xll + nc * csz, yll], [xll + nc * csz / 2, yll + nr * csz]])
        p.call('Grid.cells_inside_polygon', g.cells_inside_polygon, poly)
    for nv in (0, 1, 2, 3, 6):
        for npnt in (0, 1, 4):
            for cls, x in value_classes(rng, 2 * nv):
                poly = x.reshape(nv, 2) if nv else np.zeros((0, 2))
                pts = np.array([[rng.choice([0.0, 1.0, NAN, 0.5]) for _ in range(2)] for _ in range(npnt)]).reshape(npnt, 2)
                for nprint in (0, 1, -1):
                    p.call('gutils.points_inside_polygon|%d %d %s' % (nv, npnt, cls), gutils.points_inside_polygon, pts, poly, None, 1e-8, nprint)
                p.call('gutils.points_inside_polygon|inside', gutils.points_inside_polygon, pts, poly, np.zeros(npnt + 1, dtype=np.int32))
    for fd in small_flowgrids(rng):
        nr, nc = fd.nrows, fd.ncols; n = nr * nc
        ca = Catchment('c', fd)
        for cells in ([], [0], [n - 1, 0], [-1], [n], list(range(n))):
            p.call('Catchment.upstream', ca.upstream, cells)
            p.call('Catchment.downstream', ca.downstream, cells)
        for outlet in (0, n - 1, -1, n):
            for inlets in (None, [0], [n], [-1, 0]):
                for nval in (n + 2, 1, 0, 2):
                    ca = Catchment('c', fd)
                    p.call('Catchment.delineate_area|nval %d' % nval, ca.delineate_area, outlet, inlets, nval)
                    if ca._idxcells_area is not None:
                        p.call('Catchment.delineate_boundary', ca.delineate_boundary)
                        p.call('Catchment.compute_flowpathlengths', ca.compute_flowpathlengths)
                        for ratio in (1.0, 2.0):
                            gg = Grid('coarse', ncols=max(1, nc // 2 + 1), nrows=max(1, nr // 2 + 1), cellsize=fd.cellsize * ratio,
                                      xllcorner=fd.xllcorner - 0.5, yllcorner=fd.yllcorner)
                            p.call('Catchment.intersect', ca.intersect, gg)
                        for npts in (0, 1, 3):
                            xy = np.array([[rng.uniform(-1, nc + 1), rng.uniform(-1, nr + 1)] for _ in range(npts)]).reshape(npts, 2)
                            p.call('grid.voronoi|%d' % npts, G.voronoi, ca, xy)
                        p.call('grid.voronoi|width3', G.voronoi, ca, np.zeros((2, 3)))
        # compact (rectangular) areas against coarse grids that are not aligned with them: every coarse cell of the overlap is touched
        if nr >= 2 and nc >= 2:
            ca = Catchment('c', fd)
            ca._idxcells_area = np.arange(n, dtype=np.int64); ca._idxcells_area_filled = ca._idxcells_area
            for ratio, off in ((2.0, 1.0), (2.0, 0.5), (1.5, 0.25), (3.0, 1.0)):
                gg = Grid('coarse', ncols=int(nc / ratio) + 2, nrows=int(nr / ratio) + 2, cellsize=fd.cellsize * ratio,
                          xllcorner=fd.xllcorner - off * fd.cellsize, yllcorner=fd.yllcorner - off * fd.cellsize)
                p.call('Catchment.intersect|dense misaligned', ca.intersect, gg)
                p.call('Catchment.intersect|dense misaligned filled', ca.intersect, gg, True)
        for start in (0, n - 1, -1, n):
            for nval in (0, 1, n + 1):
                p.call('grid.delineate_river', G.delineate_river, fd, start, nval)
        for nprint in (0, 1, -1, 100):
            for mac in (0, 1, n, 5000):
                p.call('grid.accumulate|nprint %d' % nprint, G.accumulate, fd, None, nprint, mac)
            alt = fd.clone(np.float64)
            p.call('grid.slope|nprint %d' % nprint, G.slope, fd, alt, nprint)


def drive_all(rng):
    p = Probe()
    drive_data(p, rng); drive_stat(p, rng); drive_gis(p, rng)
    return p
