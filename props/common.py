"""Shared pieces of the property drivers: constants read from the real Python sources, input generators
for the bounded differential runs (dyadic lattices: every float operation of the kernels is exact on them,
so the exact-arithmetic contract evaluator can be compared with the compiled code without tolerance games)."""
import ast, os, itertools, math
from vf import REPO

NAN = float('nan')
GRID = 'src/hydrodiy/gis/c_grid.c'
CATCH = 'src/hydrodiy/gis/c_catchment.c'
INSIDE = 'src/hydrodiy/gis/c_points_inside_polygon.c'
DUTILS = 'src/hydrodiy/data/c_dutils.c'
QC = 'src/hydrodiy/data/c_qualitycontrol.c'
VAR2H = 'src/hydrodiy/data/c_var2h.c'
BASEFLOW = 'src/hydrodiy/data/c_baseflow.c'
DATEUTILS = 'src/hydrodiy/data/c_dateutils.c'
CRPS = 'src/hydrodiy/stat/c_crps.c'
DSCORE = 'src/hydrodiy/stat/c_dscore.c'
ARMODELS = 'src/hydrodiy/stat/c_armodels.c'
PARETO = 'src/hydrodiy/stat/c_paretofront.c'
AD = 'src/hydrodiy/stat/c_andersondarling.c'
ANDARL = 'src/hydrodiy/stat/AnDarl.c'


def flowdircode():
    """FLOWDIRCODE of grid.py, read from the working tree with ast (row-major 3x3)"""
    src = open(os.path.join(REPO, 'src/hydrodiy/gis/grid.py')).read()
    for n in ast.parse(src).body:
        if isinstance(n, ast.Assign) and any(isinstance(t, ast.Name) and t.id == 'FLOWDIRCODE' for t in n.targets):
            # the first list-of-lists literal inside the right-hand side (np.array([[...]]).astype(...))
            for sub in ast.walk(n.value):
                if isinstance(sub, ast.List) and sub.elts and all(isinstance(e, ast.List) for e in sub.elts):
                    rows = ast.literal_eval(sub)
                    vals = [int(v) for row in rows for v in row]
                    if len(vals) != 9:
                        raise RuntimeError('FLOWDIRCODE is not 3x3')
                    return vals
    raise RuntimeError('FLOWDIRCODE not found in grid.py')


def consts_for(relpath):
    return {}


def small_grids(rng, tier):
    dims = [(1, 1), (1, 2), (2, 1), (2, 2), (1, 3), (3, 1), (2, 3), (3, 2), (3, 3)]
    if tier == 'thorough':
        dims += [(4, 4), (1, 7), (5, 2), (2, 5)]
    geos = [(0.0, 0.0, 1.0), (10.0, 20.0, 1.0), (-2.5, -1.25, 0.5), (3.0, -4.0, 2.0), (-0.75, 0.5, 0.25)]
    return [(nr, nc, xll, yll, csz) for (nr, nc) in dims for (xll, yll, csz) in geos]


# ----------------------------------------------------------------------------- C07 generators
def gen_getnxy(rng, tier):
    out = []
    for ncols in (1, 2, 3, 5, 7):
        for idx in list(range(0, 3 * ncols + 2)) + [10 ** 6 + 3]:
            out.append([ncols, idx, [0, 0]])
    return out


def gen_getcoord(rng, tier):
    out = []
    for (nr, nc, xll, yll, csz) in small_grids(rng, tier):
        for c in range(nr * nc):
            out.append([nr, nc, xll, yll, csz, c, [0.0, 0.0]])
    return out


def gen_cell2rowcol(rng, tier):
    out = []
    for (nr, nc, _, _, _) in small_grids(rng, tier)[::5]:
        cells = list(range(-2, nr * nc + 2)) + [10 ** 9]
        out.append([nr, nc, len(cells), cells, [7] * (2 * len(cells))])
        out.append([nr, nc, 0, [], []])
    return out


def gen_cell2coord(rng, tier):
    out = []
    for (nr, nc, xll, yll, csz) in small_grids(rng, tier):
        cells = list(range(-2, nr * nc + 2)) + [10 ** 9]
        out.append([nr, nc, xll, yll, csz, len(cells), cells, [7.0] * (2 * len(cells))])
    out.append([2, 2, 0.0, 0.0, 1.0, 0, [], []])
    return out


def gen_coord2cell(rng, tier):
    out = []
    for (nr, nc, xll, yll, csz) in small_grids(rng, tier):
        pts = []
        q = csz / 8
        # lattice offset by csz/8 from every edge: strictly inside cells or strictly outside the extent
        xs = [xll + q * (8 * k + o) for k in range(-2, nc + 2) for o in (1, 4, 7)]
        ys = [yll + q * (8 * k + o) for k in range(-2, nr + 2) for o in (1, 4, 7)]
        for x in xs:
            for y in ys:
                pts += [x, y]
        far = [xll - 1000 * csz, yll + csz / 2, xll + csz / 2, yll - 1000 * csz, xll + 1e6 * csz, yll + 1e6 * csz, NAN, yll + q, xll + q, NAN, NAN, NAN,
               -1e300, 0.0, 0.0, 1e300, 1e19, 1e19, -1e19, -1e19]
        pts += far
        n = len(pts) // 2
        out.append([nr, nc, xll, yll, csz, n, pts, [7] * n])
    out.append([2, 2, 0.0, 0.0, 1.0, 0, [], []])
    return out


def gen_neighbours(rng, tier):
    out = []
    for (nr, nc, _, _, _) in small_grids(rng, tier)[::5]:
        for c in list(range(-1, nr * nc + 1)) + [10 ** 9]:
            out.append([nr, nc, c, [7] * 9])
    return out


# ----------------------------------------------------------------------------- flow-direction grids
def fdc_consts():
    return {'FDC%d' % k: v for k, v in enumerate(flowdircode())}


def flow_grids(rng, tier, max_cells=6, n_random=40):
    """(nrows, ncols, flowdir list): exhaustive over tiny grids and a subset of codes, random beyond"""
    codes = flowdircode()
    alphabet = [c for c in codes if c != 0] + [0, 3]          # eight ESRI codes, sink, one invalid code
    out = []
    for (nr, nc) in [(1, 1), (1, 2), (2, 1), (1, 3), (3, 1), (2, 2)]:
        n = nr * nc
        if len(alphabet) ** n <= 1200:
            for combo in itertools.product(alphabet, repeat=n):
                out.append((nr, nc, list(combo)))
        else:
            for _ in range(300 if tier == 'quick' else 1500):
                out.append((nr, nc, [rng.choice(alphabet) for _ in range(n)]))
    dims = [(2, 3), (3, 2), (3, 3), (2, 4), (4, 2), (3, 4), (4, 4), (1, 6), (5, 5)]
    for _ in range(n_random if tier == 'quick' else n_random * 10):
        nr, nc = rng.choice(dims)
        out.append((nr, nc, [rng.choice(alphabet) for _ in range(nr * nc)]))
    return out


def gen_downstream(rng, tier):
    fdc = flowdircode(); out = []
    for (nr, nc, fd) in flow_grids(rng, tier)[::3]:
        cells = list(range(nr * nc))
        out.append([nr, nc, fdc, fd, len(cells), cells, [7] * len(cells)])
    out.append([2, 2, fdc, [1, 1, 1, 1], 3, [0, 4, 1], [7, 7, 7]])
    out.append([2, 2, fdc, [1, 1, 1, 1], 2, [-1, 0], [7, 7]])
    out.append([2, 2, fdc, [1, 1, 1, 1], 0, [], []])
    out.append([2, 2, [5, 5, 5, 5, 5, 5, 5, 5, 5], [5, 1, 0, 5], 4, [0, 1, 2, 3], [7] * 4])
    return out


def gen_upstream(rng, tier):
    fdc = flowdircode(); out = []
    for (nr, nc, fd) in flow_grids(rng, tier)[::3]:
        cells = list(range(nr * nc))
        out.append([nr, nc, fdc, fd, len(cells), cells, [7] * (9 * len(cells))])
    out.append([2, 2, fdc, [1, 1, 1, 1], 3, [0, 4, 1], [7] * 27])
    out.append([2, 2, fdc, [1, 1, 1, 1], 0, [], []])
    out.append([2, 2, [5, 5, 5, 5, 5, 5, 5, 5, 5], [5, 1, 0, 5], 4, [0, 1, 2, 3], [7] * 36])
    return out


# ----------------------------------------------------------------------------- data kernels
def gen_var2h(rng, tier):
    out = []
    n = 150 if tier == 'quick' else 1500
    for _ in range(n):
        P = rng.choice([1800, 3600])
        nv = rng.randint(2, 9)
        t0 = rng.choice([0, 86400 * 365, -7200, 1000000000]) + rng.randint(0, 3599)
        gaps = [rng.choice([0, 1, 7, 60, 600, 1800, 3600, 5400, 86400]) for _ in range(nv - 1)]
        ts = [t0]
        for g in gaps:
            ts.append(ts[-1] + g)
        # some stamps exactly on period boundaries
        hstart = (t0 // 3600) * 3600 + 3600
        if rng.random() < 0.4:
            k = rng.randrange(1, nv)
            ts[k] = max(ts[k - 1], hstart + rng.randint(0, 4) * P)
            for j in range(k + 1, nv):
                ts[j] = max(ts[j], ts[j - 1])
        vals = [rng.choice([0.0, 1.0, 2.5, 4.0, -1.0, NAN, 0.5, 10.0]) for _ in range(nv)]
        span = ts[-1] - ts[0]
        nvalh = max(0, int(span / P)) + rng.choice([0, 0, 1])
        maxgap = rng.choice([3600, 7200, 5 * 86400])
        rain = rng.choice([0, 1])
        out.append([nv, nvalh, P, rain, 0, maxgap, ts, vals, hstart, [7.0] * nvalh])
    # degenerate shapes (C05)
    out.append([0, 0, 3600, 0, 0, 3600, [], [], 0, []])
    out.append([1, 0, 3600, 0, 0, 3600, [10], [1.0], 3600, []])
    out.append([1, 3, 3600, 0, 0, 3600, [10], [1.0], 3600, [7.0] * 3])
    out.append([2, 3, 3600, 0, 0, 3600, [10, 20], [1.0, 2.0], 3600, [7.0] * 3])
    out.append([3, 2, 1800, 0, 0, 3600, [0, 3600, 7201], [2.0, 2.0, 2.0], 3600, [7.0] * 2])
    out.append([3, 4, 1800, 0, 0, 3600, [1, 3600, 7201], [2.0, 2.0, 2.0], 3600, [7.0] * 4])
    out.append([2, 2, 3600, 2, 0, 3600, [0, 7200], [1.0, 1.0], 3600, [7.0] * 2])
    out.append([2, 2, 1234, 0, 0, 3600, [0, 7200], [1.0, 1.0], 3600, [7.0] * 2])
    return out


def gen_aggregate(rng, tier):
    out = []
    vals = [0.0, 1.0, -2.0, 3.5, NAN, -0.5, 10.0]
    # exhaustive: lengths 1..4 over run patterns, a small value lattice, four operators, maxnan 0..2
    for n in range(1, 5):
        for pattern in itertools.product([0, 1], repeat=n - 1):          # 1 = index changes
            idx = [5]
            for p in pattern:
                idx.append(idx[-1] + (3 if p else 0))
            for x in itertools.product([1.0, -2.0, NAN], repeat=n):
                for op in (0, 1, 2, 3):
                    for maxnan in (0, 1):
                        out.append([n, op, maxnan, idx, list(x), [7.0] * n, [7]])
    for _ in range(300 if tier == 'quick' else 3000):
        n = rng.randint(1, 12)
        idx = [rng.randint(-3, 3)]
        for _ in range(n - 1):
            idx.append(idx[-1] + rng.choice([0, 0, 1, 5]))
        if rng.random() < 0.1 and n > 1:
            k = rng.randrange(1, n); idx[k] = idx[k - 1] - 1            # decreasing index: must be rejected
        out.append([n, rng.randint(0, 3), rng.choice([0, 1, 2, 20, -1]), idx, [rng.choice(vals) for _ in range(n)], [7.0] * n, [7]])
    out.append([0, 0, 0, [], [], [], [7]])
    out.append([-1, 0, 0, [], [], [], [7]])
    out.append([2, 0, 0, [2 ** 31 - 1, 2 ** 31 - 1], [1.0, 2.0], [7.0] * 2, [7]])
    out.append([2, 1, 0, [-2 ** 31, 2 ** 31 - 1], [1.0, 2.0], [7.0] * 2, [7]])
    return out


def gen_flathomogen(rng, tier):
    out = []
    for c in gen_aggregate(rng, tier):
        n, op, maxnan, idx, x, o, iend = c
        if op == 0:
            out.append([n, maxnan, idx, x, list(o)])
    return out


# ----------------------------------------------------------------------------- more gis generators
def acyclic_grids(rng, tier, n=60):
    """flow direction grids without cycles: every cell points to a cell with a strictly smaller 'height' or off-grid / sink"""
    fdc = flowdircode(); out = []
    dims = [(1, 1), (1, 2), (1, 3), (2, 2), (2, 3), (3, 3), (3, 4), (4, 4), (1, 5), (5, 1)]
    for _ in range(n if tier == 'quick' else n * 8):
        nr, nc = rng.choice(dims)
        h = list(range(nr * nc)); rng.shuffle(h)
        fd = []
        for c in range(nr * nc):
            r0, c0 = divmod(c, nc); opts = [0, 3]
            for k in range(9):
                if k == 4: continue
                r1, c1 = r0 + k // 3 - 1, c0 + k % 3 - 1
                if 0 <= r1 < nr and 0 <= c1 < nc:
                    if h[r1 * nc + c1] < h[c]: opts.append(fdc[k])
                else:
                    opts.append(fdc[k])
            fd.append(rng.choice(opts))
        out.append((nr, nc, fd))
    out.append((1, 3, [fdc[5], fdc[5], fdc[5]]))
    return out


def funnel_grids(rng, tier, n=12):
    """acyclic grids in which every cell drains, through neighbours that are closer (Chebyshev distance), to one chosen cell: large
    catchments with wide search frontiers.  Returns (nrows, ncols, flowdir, outlet)"""
    fdc = flowdircode(); out = []
    dims = [(3, 3), (4, 4), (3, 5), (5, 5), (6, 6), (2, 7)]
    for _ in range(n if tier == 'quick' else n * 6):
        nr, nc = rng.choice(dims)
        o = rng.randrange(nr * nc); ro, co = divmod(o, nc)
        fd = []
        for c in range(nr * nc):
            r0, c0 = divmod(c, nc)
            if c == o:
                fd.append(0); continue
            d0 = max(abs(r0 - ro), abs(c0 - co)); opts = []
            for k in range(9):
                if k == 4: continue
                r1, c1 = r0 + k // 3 - 1, c0 + k % 3 - 1
                if 0 <= r1 < nr and 0 <= c1 < nc and max(abs(r1 - ro), abs(c1 - co)) < d0:
                    opts.append(fdc[k])
            fd.append(rng.choice(opts))
        out.append((nr, nc, fd, o))
    return out


def lattice(rng):
    return rng.choice([0.0, 1.0, 2.0, 10.0, 100.0, -3.0, 0.5, 0.25])


def gen_accumulate(rng, tier):
    fdc = flowdircode(); out = []
    for (nr, nc, fd) in acyclic_grids(rng, tier) + flow_grids(rng, tier, n_random=20)[::7]:
        n = nr * nc
        f = [lattice(rng) for _ in range(n)]
        for nprint in (1, 0):
            out.append([nr, nc, nprint, rng.choice([n, n + 5, 10 ** 6, 1, 2]), -1.0, fdc, fd, f, list(f)])
    out.append([0, 0, 1, 5, -1.0, fdc, [], [], []])
    out.append([2, 0, 1, 5, -1.0, fdc, [], [], []])
    out.append([1, 1, 1, 0, -1.0, fdc, [0], [1.0], [1.0]])
    return out


def gen_accumulate_acyclic(rng, tier):
    fdc = flowdircode(); out = []
    for (nr, nc, fd) in acyclic_grids(rng, tier, n=120):
        n = nr * nc
        f = [lattice(rng) for _ in range(n)]
        out.append([nr, nc, rng.choice([1, 0, 7]), rng.choice([n, n + 3, 10 ** 6]), rng.choice([-1.0, NAN, 0.0]), fdc, fd, f, list(f)])
    out.append([1, 3, 1, 3, -1.0, fdc, [fdc[5]] * 3, [1.0, 10.0, 100.0], [1.0, 10.0, 100.0]])
    return out


def gen_slope(rng, tier):
    fdc = flowdircode(); out = []
    for (nr, nc, fd) in flow_grids(rng, tier, n_random=30)[::5]:
        n = nr * nc
        out.append([nr, nc, rng.choice([0, 1, 3]), rng.choice([1.0, 0.5, 0.0]), fdc, fd, [lattice(rng) for _ in range(n)], [7.0] * n])
    out.append([0, 3, 1, 1.0, fdc, [], [], []])
    return out


def gen_slice(rng, tier):
    out = []
    for (nr, nc, xll, yll, csz) in small_grids(rng, tier)[::2]:
        n = nr * nc
        data = [lattice(rng) for _ in range(n)]
        pts = []
        for _ in range(12):
            pts += [xll + csz * rng.randint(-8, 8 * nc + 8) / 8, yll + csz * rng.randint(-8, 8 * nr + 8) / 8]
        pts += [NAN, 0.0, 1e300, -1e300]
        m = len(pts) // 2
        out.append([nr, nc, xll, yll, csz, data, m, pts, [7.0] * m])
    return out


def gen_intersect(rng, tier):
    out = []
    for (nr, nc, xll, yll, csz) in small_grids(rng, tier)[::2]:
        for ratio in (1, 2, 4):
            csa = csz / ratio
            pts = []
            npts = rng.randint(0, 14)
            for _ in range(npts):
                pts += [xll + csa * (rng.randint(-4, nc * ratio + 4) + 0.5), yll + csa * (rng.randint(-4, nr * ratio + 4) + 0.5)]
            n = nr * nc
            out.append([nr, nc, xll, yll, csz, csa, npts, pts, n, [7], [7] * n, [7.0] * n])
    return out


def gen_voronoi(rng, tier):
    out = []
    for (nr, nc, xll, yll, csz) in small_grids(rng, tier)[::2]:
        n = nr * nc
        cells = [c for c in range(n) if rng.random() < 0.7]
        for npts in (0, 1, 2, 3, 6):
            pts = []
            for _ in range(npts):
                pts += [xll + csz * rng.randint(-2, 2 * nc + 2) / 2, yll + csz * rng.randint(-2, 2 * nr + 2) / 2]
            out.append([nr, nc, xll, yll, csz, len(cells), cells, npts, pts, [7.0] * npts])
    return out


def gen_delineate_area(rng, tier):
    fdc = flowdircode(); out = []
    for (nr, nc, fd) in flow_grids(rng, tier, n_random=30)[::4] + acyclic_grids(rng, tier, n=30):
        n = nr * nc
        outlet = rng.randrange(-1, n + 1)
        inl = [rng.randrange(-1, n + 1) for _ in range(rng.choice([0, 0, 1, 2]))]
        for nval in (n + 1, rng.randint(0, n + 1), 1, 2, 3):
            out.append([nr, nc, fdc, fd, outlet, len(inl), inl, nval, [7] * max(nval, 0), [7] * max(nval, 0), [7] * max(nval, 0)])
    return out


def gen_area_reach(rng, tier):
    """inputs of the functional contract: vector pre-filled with -1 (as grid.py does), valid outlet and inlets, buffer large enough or not"""
    fdc = flowdircode(); out = []
    for (nr, nc, fd) in flow_grids(rng, tier, n_random=30)[::3] + acyclic_grids(rng, tier, n=40):
        n = nr * nc
        outlet = rng.randrange(n)
        inl = [rng.randrange(n) for _ in range(rng.choice([0, 0, 1, 2]))]
        for nval in (n + 2, n + 1, rng.randint(1, n + 1)):
            out.append([nr, nc, fdc, fd, outlet, len(inl), inl, nval, [-1] * nval, [7] * nval, [7] * nval])
    for (nr, nc, fd, o) in funnel_grids(rng, tier):
        n = nr * nc
        for outlet, inl in ((o, []), (o, [rng.randrange(n)]), (rng.randrange(n), [rng.randrange(n), rng.randrange(n)])):
            out.append([nr, nc, fdc, fd, outlet, len(inl), inl, n + 2, [-1] * (n + 2), [7] * (n + 2), [7] * (n + 2)])
    return out


def gen_area_once(rng, tier):
    """acyclic grids only (the contract assumes a height function), vector pre-filled with -1"""
    fdc = flowdircode(); out = []
    for (nr, nc, fd) in acyclic_grids(rng, tier, n=60):
        n = nr * nc
        outlet = rng.randrange(n)
        inl = [rng.randrange(n) for _ in range(rng.choice([0, 0, 1, 2]))]
        for nval in (n + 2, rng.randint(1, n + 1)):
            out.append([nr, nc, fdc, fd, outlet, len(inl), inl, nval, [-1] * nval, [7] * nval, [7] * nval])
    for (nr, nc, fd, o) in funnel_grids(rng, tier):
        n = nr * nc
        for outlet, inl in ((o, []), (o, [rng.randrange(n)]), (rng.randrange(n), [rng.randrange(n), rng.randrange(n)])):
            out.append([nr, nc, fdc, fd, outlet, len(inl), inl, 2 * n + 2, [-1] * (2 * n + 2), [7] * (2 * n + 2), [7] * (2 * n + 2)])
    return out


def gen_boundary(rng, tier):
    out = []
    for (nr, nc, _, _, _) in small_grids(rng, tier)[::3]:
        n = nr * nc
        for _ in range(4):
            cells = sorted({rng.randrange(n) for _ in range(rng.randint(1, n))})
            rng.shuffle(cells)
            mask = [1 if c in cells else 0 for c in range(n)]
            m = len(cells)
            out.append([nr, nc, m, cells, [7] * m, mask, [7] * m])
        out.append([nr, nc, 1, [0], [7], [1] + [0] * (n - 1), [7]])
        out.append([nr, nc, 0, [], [], [0] * n, []])
    out.append([6, 6, 2, [0, 35], [7, 7], [1] + [0] * 34 + [1], [7, 7]])
    return out


def gen_exclude(rng, tier):
    out = []
    for n in (0, 1, 2, 3, 4, 7):
        out.append([n, 1e-6, [lattice(rng) for _ in range(2 * n)], [7] * n])
    return out


def gen_river(rng, tier):
    fdc = flowdircode(); out = []
    for (nr, nc, fd) in flow_grids(rng, tier, n_random=30)[::4] + acyclic_grids(rng, tier, n=40):
        n = nr * nc
        for start in (rng.randrange(n), -1, n):
            nval = rng.choice([0, 1, 2, n + 2])
            out.append([nr, nc, 1.0, 2.0, 0.5, fdc, fd, start, nval, [7], [7] * nval, [7.0] * (5 * nval)])
    return out


def gen_flowpath(rng, tier):
    fdc = flowdircode(); out = []
    for (nr, nc, fd) in flow_grids(rng, tier, n_random=30)[::4] + acyclic_grids(rng, tier, n=40):
        n = nr * nc
        cells = [rng.randrange(-1, n + 1) for _ in range(rng.randint(0, n + 1))]
        out.append([nr, nc, fdc, fd, len(cells), cells, rng.randrange(-1, n + 1), [7.0] * (3 * len(cells))])
    return out


def gen_inside(rng, tier):
    out = []
    polys = [[0, 0, 4, 0, 4, 4, 0, 4], [0, 0, 4, 0, 4, 4, 0, 4, 0, 0], [0, 0, 4, 0, 2, 3], [0, 0, 2, 1, 4, 0, 4, 4, 2, 2, 0, 4],
             [0, 0, 4, 4, 4, 0, 0, 4], [1, 1, 1, 1, 3, 1, 3, 3, 1, 3], [0, 0]]
    for poly in polys:
        poly = [float(v) for v in poly]
        nv = len(poly) // 2
        xs = poly[0::2]; ys = poly[1::2]
        pts = []
        for x8 in range(-4, 40, 3):
            for y8 in range(-4, 40, 3):
                pts += [x8 / 8 + 1 / 16, y8 / 8 + 1 / 32]
        pts += [NAN, 1.0, 1.0, NAN]
        m = len(pts) // 2
        for nprint in (0, 7):
            out.append([nprint, m, pts, nv, poly, 1e-8, [min(xs), max(xs)], [min(ys), max(ys)], [0] * m])
    out.append([0, 0, [], 3, [0.0, 0.0, 1.0, 0.0, 0.0, 1.0], 1e-8, [0.0, 1.0], [0.0, 1.0], []])
    return out


def gen_inside_evenodd(rng, tier):
    """lattice polygons (integer vertices) and query points on a shifted finer lattice: no point on an edge line at a level"""
    out = []
    for _ in range(40 if tier == 'quick' else 400):
        nv = rng.randint(3, 7)
        poly = []
        for _ in range(nv):
            poly += [float(rng.randint(0, 5)), float(rng.randint(0, 5))]
        if rng.random() < 0.3:
            poly += poly[:2]; nv += 1
        xs = poly[0::2]; ys = poly[1::2]
        pts = []
        for _ in range(25):
            pts += [rng.randint(-8, 48) / 8 + 1 / 64 + 1 / 1024, rng.randint(-8, 48) / 8 + rng.choice([0.0, 1 / 128])]
        m = len(pts) // 2
        out.append([0, m, pts, nv, poly, 1e-8, [min(xs), max(xs)], [min(ys), max(ys)], [0] * m])
    return out


# ----------------------------------------------------------------------------- other data / stat generators
def gen_islin(rng, tier):
    out = []
    for n in range(0, 9):
        for _ in range(6):
            out.append([n, 0.0, 1e-6, rng.choice([1, 2, 3]), [rng.choice([0.0, 1.0, 2.0, 3.0, NAN, -1.0]) for _ in range(n)], [7] * n])
    return out


def gen_eckhardt(rng, tier):
    out = []
    for n in range(0, 6):
        for tt in (0, 1, 2):
            out.append([n, tt, rng.choice([0.95, 1.5, -1.0]), rng.choice([20.0, 0.0]), rng.choice([0.8, 2.0]), [rng.choice([0.0, 1.0, 5.0, NAN, -1.0]) for _ in range(n)], [7.0] * n])
    return out


def gen_isleap(rng, tier):
    return [[y] for y in list(range(-8, 9)) + [1900, 2000, 2024, 2023, 2100, -400, 2 ** 30]]


def gen_daysinmonth(rng, tier):
    return [[y, m] for y in (1900, 2000, 2023, 2024, -4) for m in range(-1, 15)]


def gen_dayofyear(rng, tier):
    return [[m, d] for m in range(-1, 15) for d in (-1, 0, 1, 28, 31, 32)]


def gen_add1month(rng, tier):
    return [[[y, m, d]] for y in (1999, 2000, 2023, 2024) for m in range(0, 14) for d in (0, 1, 28, 29, 30, 31, 32)]


def gen_getdate(rng, tier):
    return [[float(v), [7, 7, 7]] for v in (20000229, 20230229, 19991231, 0, -5, 1e10, 1e300, -1e300, 20001301, 20000100, 2000010.5)] + [[NAN, [7, 7, 7]]]


def gen_comparedates(rng, tier):
    ds = [[2000, 1, 1], [2000, 1, 2], [2000, 2, 1], [1999, 12, 31]]
    return [[a, b] for a in ds for b in ds]


def gen_pareto(rng, tier):
    out = []
    vals = [0.0, 1.0, 2.0, NAN, -1.0]
    for n in range(0, 5):
        for nc in (0, 1, 2, 3):
            for _ in range(8):
                out.append([n, nc, rng.choice([1, -1]), [rng.choice(vals) for _ in range(n * nc)], [7] * n])
    return out


def gen_arsim(rng, tier):
    out = []
    for p in (0, 1, 2, 3, 10, 11):
        for n in (0, 1, 2, 5):
            params = [rng.choice([0.5, -0.25, 0.0, 1.0]) for _ in range(max(p, 0))]
            if rng.random() < 0.1 and params:
                params[0] = NAN
            out.append([n, p, rng.choice([0.0, 1.0, NAN]) if rng.random() < 0.15 else rng.choice([0.0, 2.0, -1.0]), rng.choice([0.0, 3.0]), params,
                        [rng.choice([0.0, 1.0, -2.0, NAN, 0.5]) for _ in range(n)], [7.0] * n])
    return out


def gen_crps(rng, tier):
    out = []
    vals = [0.0, 1.0, 2.0, 3.0, 0.5]
    for n in (0, 1, 2, 3):
        for m in (1, 2, 3, 5):
            for _ in range(6):
                out.append([n, m, rng.choice([0, 1]), rng.choice([0, 1]), [rng.choice(vals) for _ in range(n)], [rng.choice(vals) for _ in range(n * m)],
                            [0.25] * n, [7.0] * ((m + 1) * 7), [0.0] * 5])
    return out


def gen_voronoi_nearest(rng, tier):
    out = []
    for (nr, nc, xll, yll, csz) in small_grids(rng, tier)[::2]:
        n = nr * nc
        for _ in range(3):
            ncell = rng.randint(1, min(n, 6)); cells = [rng.randrange(n) for _ in range(ncell)]
            npnt = rng.randint(1, 4)
            pts = []
            for _ in range(npnt):
                c = rng.choice(cells); r, q = divmod(c, nc)
                pts += [xll + (q + 0.5 + rng.choice([0.0, 0.25, -0.125, 1.0, 0.0625])) * csz, yll + (nr - 1 - r + 0.5 + rng.choice([0.0, 0.25, -0.5, 0.0625])) * csz]
            out.append([nr, nc, xll, yll, csz, ncell, cells, npnt, pts, [7.0] * npnt])
    return out


def gen_crps_decomp(rng, tier):
    out = []
    vals = [0.0, 1.0, 2.0, 3.0, 0.5, 2.0]
    for n in (1, 2, 3, 5):
        for m in (1, 2, 3, 5):
            for _ in range(5):
                # data in any unit: ordinary, very small and very large magnitudes (dyadic factors keep the lattice exact)
                sc = rng.choice([1.0, 1.0, 2.0 ** -40, 2.0 ** 30])
                out.append([n, m, 0, rng.choice([0, 0, 1]), [sc * rng.choice(vals) for _ in range(n)], [sc * rng.choice(vals) for _ in range(n * m)],
                            [0.25] * n, [7.0] * ((m + 1) * 7), [0.0] * 5])
    return out


def gen_crps_uncert(rng, tier):
    """weighted (distinct dyadic weights) and unweighted forecasts, constant ensembles and single members included"""
    out = []
    vals = [0.0, 1.0, 2.0, 3.0, 0.5, -1.5]
    wts = [0.5, 0.25, 0.125, 0.0625, 0.03125]
    for n in (1, 2, 3, 5):
        for m in (1, 2, 3):
            for _ in range(5):
                sim = []
                for _i in range(n):
                    sim += [rng.choice(vals)] * m if rng.random() < 0.3 else [rng.choice(vals) for _ in range(m)]
                w = wts[:n]; rng.shuffle(w)
                out.append([n, m, rng.choice([0, 1]), rng.choice([0, 0, 1]), [rng.choice(vals) for _ in range(n)], sim, w, [7.0] * ((m + 1) * 7), [0.0] * 5])
    return out


def gen_ensrank(rng, tier):
    out = []
    vals = [0.0, 1.0, 2.0, 3.0]
    for n in (-1, 0, 1, 2, 3, 4):
        for m in (0, 1, 2, 3):
            out.append([1e-8, n, m, [rng.choice(vals) for _ in range(max(n, 0) * m)], [7.0] * (max(n, 0) ** 2), [7.0] * max(n, 0)])
    out.append([0.0, 2, 2, [1.0] * 4, [7.0] * 4, [7.0] * 2])
    return out


def gen_adtest(rng, tier):
    out = []
    for n in (0, 1, 2, 5):
        for _ in range(5):
            xs = sorted(rng.choice([0.125, 0.25, 0.5, 0.75, 0.9]) for _ in range(n))
            out.append([n, xs, [7.0, 7.0]])
    # values very close to 0 and to 1 (PIT values of over-confident forecasts): still inside the open interval
    out.append([3, [2.0 ** -40, 0.5, 1 - 2.0 ** -40], [7.0, 7.0]])
    out.append([2, [2.0 ** -50, 2.0 ** -45], [7.0, 7.0]])
    out.append([4, [2.0 ** -30, 0.25, 0.75, 1 - 2.0 ** -30], [7.0, 7.0]])
    out.append([3, [0.5, NAN, 0.7], [7.0, 7.0]])
    out.append([3, [0.5, 1.5, 0.7], [7.0, 7.0]])
    out.append([3, [-0.5, 0.5, 0.7], [7.0, 7.0]])
    out.append([3, [0.5, 0.25, 0.7], [7.0, 7.0]])
    return out


# every kernel reachable from the Python API: (file, function / contract name, generator)
ALL_KERNELS = [
    (GRID, 'getnxy', gen_getnxy), (GRID, 'getcoord', gen_getcoord), (GRID, 'c_coord2cell', gen_coord2cell), (GRID, 'c_cell2rowcol', gen_cell2rowcol),
    (GRID, 'c_cell2coord', gen_cell2coord), (GRID, 'c_neighbours', gen_neighbours), (GRID, 'c_slice', gen_slice), (GRID, 'c_upstream', gen_upstream),
    (GRID, 'c_downstream', gen_downstream), (GRID, 'c_accumulate', gen_accumulate), (GRID, 'c_intersect', gen_intersect), (GRID, 'c_voronoi', gen_voronoi),
    (GRID, 'c_slope', gen_slope),
    (CATCH, 'c_delineate_area', gen_delineate_area), (CATCH, 'c_delineate_boundary', gen_boundary), (CATCH, 'c_exclude_zero_area_boundary', gen_exclude),
    (CATCH, 'c_delineate_river', gen_river), (CATCH, 'c_delineate_flowpathlengths_in_catchment', gen_flowpath),
    (INSIDE, 'c_inside', gen_inside),
    (DUTILS, 'c_aggregate', gen_aggregate), (DUTILS, 'c_flathomogen', gen_flathomogen), (QC, 'c_islin', gen_islin), (VAR2H, 'c_var2h', gen_var2h),
    (BASEFLOW, 'c_eckhardt', gen_eckhardt),
    (DATEUTILS, 'c_dateutils_isleapyear', gen_isleap), (DATEUTILS, 'c_dateutils_daysinmonth', gen_daysinmonth), (DATEUTILS, 'c_dateutils_dayofyear', gen_dayofyear),
    (DATEUTILS, 'c_dateutils_add1month', gen_add1month), (DATEUTILS, 'c_dateutils_add1day', gen_add1month), (DATEUTILS, 'c_dateutils_getdate', gen_getdate),
    (DATEUTILS, 'c_dateutils_comparedates', gen_comparedates),
    (CRPS, 'c_crps', gen_crps), (DSCORE, 'c_ensrank', gen_ensrank), (ARMODELS, 'c_armodel_sim', gen_arsim), (ARMODELS, 'c_armodel_residual', gen_arsim),
    (PARETO, 'c_paretofront', gen_pareto), (ANDARL, 'ADtest', gen_adtest), (AD, 'c_ad_test', gen_adtest),
]


# ----------------------------------------------------------------------------- generic driver for the kernel-level part of a property
BASE_ASSUMPTIONS = [
    'doubles are modelled as mathematical reals plus a NaN flag: no rounding, no overflow to infinity, x/0.0 is an arbitrary value',
    'SANE magnitude restriction on integer scalars reaching a kernel straight from Python (grid dimensions <= 2**30, int-indexed arrays < 2**30 elements, |time stamps| <= 2**50)',
    'the VC generator (vf/engc.py) and the contract-expression translators are trusted; they are cross-checked on every run by executing the real kernels (clang ASan+UBSan) against the same contracts on enumerated inputs',
    'z3 5.1 / cvc5 1.0 / z3 4.8 soundness',
    'distinct pointer parameters of a kernel do not overlap (established by the Cython wrappers: separately allocated numpy buffers)',
]


def load_contracts():
    import importlib
    for m in ('c_grid', 'c_catchment', 'c_inside', 'c_data', 'c_stat'):
        importlib.import_module('contracts.' + m)


def run_kernels(run, tasks, quick_cap=400):
    """tasks: [(relpath, contract name, generator)]: prove every obligation, run the bounded differential check"""
    load_contracts()
    gens = {}
    for rel, fn, gen in tasks:
        if gen is not None:
            def mk(gen):
                def g(rng, tier):
                    cases = gen(rng, tier)
                    if tier == 'quick' and len(cases) > quick_cap:
                        idx = sorted(rng.sample(range(len(cases)), quick_cap))
                        cases = [cases[i] for i in idx]
                    return cases
                return g
            gens[(rel, fn)] = mk(gen)
    run.c_proofs([(rel, fn) for rel, fn, _ in tasks], consts=fdc_consts(), generators=gens,
                 timeout_ms=30000 if run.tier == 'quick' else 120000)
    for a in BASE_ASSUMPTIONS:
        if a not in run.assumptions:
            run.assumptions.append(a)


def kernels(*names):
    tab = {(fn): (rel, fn, gen) for rel, fn, gen in ALL_KERNELS}
    tab['c_accumulate#acyclic'] = (GRID, 'c_accumulate#acyclic', gen_accumulate_acyclic)
    tab['c_inside#evenodd'] = (INSIDE, 'c_inside#evenodd', gen_inside_evenodd)
    tab['c_crps#decomp'] = (CRPS, 'c_crps#decomp', gen_crps_decomp)
    tab['c_voronoi#nearest'] = (GRID, 'c_voronoi#nearest', gen_voronoi_nearest)
    tab['c_delineate_area#reach'] = (CATCH, 'c_delineate_area#reach', gen_area_reach)
    tab['c_delineate_area#once'] = (CATCH, 'c_delineate_area#once', gen_area_once)
    tab['c_crps#uncertainty'] = (CRPS, 'c_crps#uncertainty', gen_crps_uncert)
    tab['c_var2h#average'] = (VAR2H, 'c_var2h#average', [g for r_, f_, g in ALL_KERNELS if f_ == 'c_var2h'][0])
    return [tab[n] for n in names]


KERNEL_FILE = {fn: rel for rel, fn, _ in ALL_KERNELS}
KERNEL_FILE.update({'c_combi': DUTILS})


def install_monitors():
    """replace the wrappers of the three compiled modules (built from the working tree) by precondition monitors"""
    from vf import pyxl2, contract
    load_contracts()
    import c_hydrodiy_gis, c_hydrodiy_data, c_hydrodiy_stat
    consts = fdc_consts()
    mons = []
    for grp, mod in (('gis', c_hydrodiy_gis), ('data', c_hydrodiy_data), ('stat', c_hydrodiy_stat)):
        mons.append(pyxl2.Monitor(grp, mod, contract.REGISTRY, KERNEL_FILE, consts))
    return mons


def run_monitors(run, names):
    """bounded python-level monitors (props/monitors.py) against the python files and freshly compiled kernels of the working tree.
    They run in a child process: a native crash of the code under test is contained and reported."""
    from vf import child
    res = child.run('props.common', 'monitors_in_child', run.prop, run.tier, run.seed, args=dict(names=list(names)))
    child.merge(run, res['recorder'])
    if res['rc'] != 0:
        what = 'while running %s' % (res['progress'] or 'the bounded monitors')
        if res['signal']:
            msg = 'the python interpreter was brought down (%s) %s: native crash in the code under test; %s' % (child.signame(res['signal']), what, res['stderr'][-300:].replace('\n', ' '))
            if run.prop == 'C05':
                run.violation(dict(function='interpreter', kind='crash', where=res['progress'][:120]), msg, witness=dict(python=True, source='bounded monitor in a child process', doing=res['progress'], stderr=res['stderr'][-1500:]))
            else:
                run.broken.append('bounded monitors could not complete: ' + msg + ' (this is a violation of C05, reported by the C05 check; this check cannot decide its own property on such a tree)')
        else:
            run.broken.append('monitor child process failed (rc=%s) %s: %s' % (res['rc'], what, res['stderr'][-1500:]))
    a = 'bounded monitors run against extension modules compiled from the working tree with gcc from the generated c_hydrodiy_*.c (Cython is not installed: a change to a .pyx file is not seen by the dynamic part)'
    if a not in run.assumptions:
        run.assumptions.append(a)


def monitors_in_child(rec, names):
    import traceback
    from vf import child
    from props import apidrive, monitors
    try:
        apidrive.setup()
    except Exception:
        rec.broken.append('building the extension modules from the working tree failed: ' + traceback.format_exc()[-1500:]); return
    for nm in names:
        child.progress('monitor ' + nm)
        try:
            res = getattr(monitors, nm)(rec.rng, rec.tier)
            res.report(rec, nm)
        except Exception as e:
            import sys
            tb = traceback.extract_tb(sys.exc_info()[2])
            if tb and '/verif/' not in tb[-1].filename:
                # raised by the code under test (or a library below it) on an input inside the property's domain: a finding, not a checker crash
                where = '%s:%d' % (tb[-1].filename, tb[-1].lineno)
                rec.violation(dict(function=nm, kind='exception', clause=type(e).__name__ + ' ' + where[-60:]),
                              'bounded monitor %s: the code under test raised %s on an admissible input (%s): %s' % (nm, type(e).__name__, where, str(e)[:200]),
                              witness=dict(python=True, source='bounded monitor', monitor=nm, traceback=traceback.format_exc()[-2500:]))
            else:
                rec.broken.append('monitor %s crashed: %s' % (nm, traceback.format_exc()[-1800:]))


def lean_lemma(r, tier, fname, theorem, fn, note, assumed_note):
    """an argument that is external to the SMT proofs, proved in lean/<fname>; the Lean kernel re-checks it in the thorough tier (cold start
    of Mathlib: about two minutes); the quick tier lists it as assumed"""
    import os, subprocess, time
    here = os.path.dirname(os.path.dirname(os.path.abspath(__file__)))
    src = os.path.join(here, 'lean', fname)
    if tier != 'thorough':
        r.assumptions.append(assumed_note)
        return
    t0 = time.time()
    try:
        cp = subprocess.run(['lean', src], capture_output=True, text=True, timeout=1500, cwd=os.path.join(here, 'lean'))
        out = (cp.stdout + cp.stderr)
        ok = cp.returncode == 0 and 'error' not in out and 'sorry' not in out and 'sorry' not in open(src).read().split('-/', 1)[-1]
    except Exception as e:
        ok = False; out = repr(e)
    rec = dict(id='lean/%s/%s' % (fname, theorem), kind='lemma', fn=fn, line=0, note=note, text=note, file='lean/' + fname,
               status='unsat' if ok else 'unknown', backend='lean 4 + Mathlib', time=time.time() - t0, reason='' if ok else out[-500:])
    r.vcs.append(rec)
    if ok:
        r.by_backend['lean 4 + Mathlib'] += 1
    else:
        r.undecided.append('lean/%s: the Lean proof did not check: %s' % (fname, out[-600:]))
