"""Shared pieces of the property drivers: constants read from the real Python sources, input generators
for the bounded differential runs (dyadic lattices: every float operation of the kernels is exact on them,
so the exact-arithmetic contract evaluator can be compared with the compiled code without tolerance games)."""
import ast, os, itertools, math
from vf import REPO

NAN = float('nan')
GRID = 'src/hydrodiy/gis/c_grid.c'
CATCH = 'src/hydrodiy/gis/c_catchment.c'
INSIDE = 'src/hydrodiy/gis/c_points_inside_polygon.c'
DUTILS = 'src/hydrodiy/data/c_dutils.c'
QC = 'src/hydrodiy/data/c_qualitycontrol.c'
VAR2H = 'src/hydrodiy/data/c_var2h.c'
BASEFLOW = 'src/hydrodiy/data/c_baseflow.c'
DATEUTILS = 'src/hydrodiy/data/c_dateutils.c'
CRPS = 'src/hydrodiy/stat/c_crps.c'
DSCORE = 'src/hydrodiy/stat/c_dscore.c'
ARMODELS = 'src/hydrodiy/stat/c_armodels.c'
PARETO = 'src/hydrodiy/stat/c_paretofront.c'
AD = 'src/hydrodiy/stat/c_andersondarling.c'
ANDARL = 'src/hydrodiy/stat/AnDarl.c'


def flowdircode():
    """FLOWDIRCODE of grid.py, read from the working tree with ast (row-major 3x3)"""
    src = open(os.path.join(REPO, 'src/hydrodiy/gis/grid.py')).read()
    for n in ast.parse(src).body:
        if isinstance(n, ast.Assign) and any(isinstance(t, ast.Name) and t.id == 'FLOWDIRCODE' for t in n.targets):
            # the first list-of-lists literal inside the right-hand side (np.array([[...]]).astype(...))
            for sub in ast.walk(n.value):
                if isinstance(sub, ast.List) and sub.elts and all(isinstance(e, ast.List) for e in sub.elts):
                    rows = ast.literal_eval(sub)
                    vals = [int(v) for row in rows for v in row]
                    if len(vals) != 9:
                        raise RuntimeError('FLOWDIRCODE is not 3x3')
                    return vals
    raise RuntimeError('FLOWDIRCODE not found in grid.py')


def consts_for(relpath):
    return {}


def small_grids(rng, tier):
    dims = [(1, 1), (1, 2), (2, 1), (2, 2), (1, 3), (3, 1), (2, 3), (3, 2), (3, 3)]
    if tier == 'thorough':
        dims += [(4, 4), (1, 7), (5, 2), (2, 5)]
    geos = [(0.0, 0.0, 1.0), (10.0, 20.0, 1.0), (-2.5, -1.25, 0.5), (3.0, -4.0, 2.0), (-0.75, 0.5, 0.25)]
    return [(nr, nc, xll, yll, csz) for (nr, nc) in dims for (xll, yll, csz) in geos]


# ----------------------------------------------------------------------------- C07 generators
def gen_getnxy(rng, tier):
    out = []
    for ncols in (1, 2, 3, 5, 7):
        for idx in list(range(0, 3 * ncols + 2)) + [10 ** 6 + 3]:
            out.append([ncols, idx, [0, 0]])
    return out


def gen_getcoord(rng, tier):
    out = []
    for (nr, nc, xll, yll, csz) in small_grids(rng, tier):
        for c in range(nr * nc):
            out.append([nr, nc, xll, yll, csz, c, [0.0, 0.0]])
    return out


def gen_cell2rowcol(rng, tier):
    out = []
    for (nr, nc, _, _, _) in small_grids(rng, tier)[::5]:
        cells = list(range(-2, nr * nc + 2)) + [10 ** 9]
        out.append([nr, nc, len(cells), cells, [7] * (2 * len(cells))])
        out.append([nr, nc, 0, [], []])
    return out


def gen_cell2coord(rng, tier):
    out = []
    for (nr, nc, xll, yll, csz) in small_grids(rng, tier):
        cells = list(range(-2, nr * nc + 2)) + [10 ** 9]
        out.append([nr, nc, xll, yll, csz, len(cells), cells, [7.0] * (2 * len(cells))])
    out.append([2, 2, 0.0, 0.0, 1.0, 0, [], []])
    return out


def gen_coord2cell(rng, tier):
    out = []
    for (nr, nc, xll, yll, csz) in small_grids(rng, tier):
        pts = []
        q = csz / 8
        # lattice offset by csz/8 from every edge: strictly inside cells or strictly outside the extent
        xs = [xll + q * (8 * k + o) for k in range(-2, nc + 2) for o in (1, 4, 7)]
        ys = [yll + q * (8 * k + o) for k in range(-2, nr + 2) for o in (1, 4, 7)]
        for x in xs:
            for y in ys:
                pts += [x, y]
        far = [xll - 1000 * csz, yll + csz / 2, xll + csz / 2, yll - 1000 * csz, xll + 1e6 * csz, yll + 1e6 * csz, NAN, yll + q, xll + q, NAN, NAN, NAN,
               -1e300, 0.0, 0.0, 1e300, 1e19, 1e19, -1e19, -1e19]
        pts += far
        n = len(pts) // 2
        out.append([nr, nc, xll, yll, csz, n, pts, [7] * n])
    out.append([2, 2, 0.0, 0.0, 1.0, 0, [], []])
    return out


def gen_neighbours(rng, tier):
    out = []
    for (nr, nc, _, _, _) in small_grids(rng, tier)[::5]:
        for c in list(range(-1, nr * nc + 1)) + [10 ** 9]:
            out.append([nr, nc, c, [7] * 9])
    return out


# ----------------------------------------------------------------------------- flow-direction grids
def fdc_consts():
    return {'FDC%d' % k: v for k, v in enumerate(flowdircode())}


def flow_grids(rng, tier, max_cells=6, n_random=40):
    """(nrows, ncols, flowdir list): exhaustive over tiny grids and a subset of codes, random beyond"""
    codes = flowdircode()
    alphabet = [c for c in codes if c != 0] + [0, 3]          # eight ESRI codes, sink, one invalid code
    out = []
    for (nr, nc) in [(1, 1), (1, 2), (2, 1), (1, 3), (3, 1), (2, 2)]:
        n = nr * nc
        if len(alphabet) ** n <= 1200:
            for combo in itertools.product(alphabet, repeat=n):
                out.append((nr, nc, list(combo)))
        else:
            for _ in range(300 if tier == 'quick' else 1500):
                out.append((nr, nc, [rng.choice(alphabet) for _ in range(n)]))
    dims = [(2, 3), (3, 2), (3, 3), (2, 4), (4, 2), (3, 4), (4, 4), (1, 6), (5, 5)]
    for _ in range(n_random if tier == 'quick' else n_random * 10):
        nr, nc = rng.choice(dims)
        out.append((nr, nc, [rng.choice(alphabet) for _ in range(nr * nc)]))
    return out


def gen_downstream(rng, tier):
    fdc = flowdircode(); out = []
    for (nr, nc, fd) in flow_grids(rng, tier)[::3]:
        cells = list(range(nr * nc))
        out.append([nr, nc, fdc, fd, len(cells), cells, [7] * len(cells)])
    out.append([2, 2, fdc, [1, 1, 1, 1], 3, [0, 4, 1], [7, 7, 7]])
    out.append([2, 2, fdc, [1, 1, 1, 1], 2, [-1, 0], [7, 7]])
    out.append([2, 2, fdc, [1, 1, 1, 1], 0, [], []])
    out.append([2, 2, [5, 5, 5, 5, 5, 5, 5, 5, 5], [5, 1, 0, 5], 4, [0, 1, 2, 3], [7] * 4])
    return out


def gen_upstream(rng, tier):
    fdc = flowdircode(); out = []
    for (nr, nc, fd) in flow_grids(rng, tier)[::3]:
        cells = list(range(nr * nc))
        out.append([nr, nc, fdc, fd, len(cells), cells, [7] * (9 * len(cells))])
    out.append([2, 2, fdc, [1, 1, 1, 1], 3, [0, 4, 1], [7] * 27])
    out.append([2, 2, fdc, [1, 1, 1, 1], 0, [], []])
    out.append([2, 2, [5, 5, 5, 5, 5, 5, 5, 5, 5], [5, 1, 0, 5], 4, [0, 1, 2, 3], [7] * 36])
    return out


# ----------------------------------------------------------------------------- data kernels
def gen_var2h(rng, tier):
    out = []
    n = 150 if tier == 'quick' else 1500
    for _ in range(n):
        P = rng.choice([1800, 3600])
        nv = rng.randint(2, 9)
        t0 = rng.choice([0, 86400 * 365, -7200, 1000000000]) + rng.randint(0, 3599)
        gaps = [rng.choice([0, 1, 7, 60, 600, 1800, 3600, 5400, 86400]) for _ in range(nv - 1)]
        ts = [t0]
        for g in gaps:
            ts.append(ts[-1] + g)
        # some stamps exactly on period boundaries
        hstart = (t0 // 3600) * 3600 + 3600
        if rng.random() < 0.4:
            k = rng.randrange(1, nv)
            ts[k] = max(ts[k - 1], hstart + rng.randint(0, 4) * P)
            for j in range(k + 1, nv):
                ts[j] = max(ts[j], ts[j - 1])
        vals = [rng.choice([0.0, 1.0, 2.5, 4.0, -1.0, NAN, 0.5, 10.0]) for _ in range(nv)]
        span = ts[-1] - ts[0]
        nvalh = max(0, int(span / P)) + rng.choice([0, 0, 1])
        maxgap = rng.choice([3600, 7200, 5 * 86400])
        rain = rng.choice([0, 1])
        out.append([nv, nvalh, P, rain, 0, maxgap, ts, vals, hstart, [7.0] * nvalh])
    # degenerate shapes (C05)
    out.append([0, 0, 3600, 0, 0, 3600, [], [], 0, []])
    out.append([1, 0, 3600, 0, 0, 3600, [10], [1.0], 3600, []])
    out.append([1, 3, 3600, 0, 0, 3600, [10], [1.0], 3600, [7.0] * 3])
    out.append([2, 3, 3600, 0, 0, 3600, [10, 20], [1.0, 2.0], 3600, [7.0] * 3])
    out.append([3, 2, 1800, 0, 0, 3600, [0, 3600, 7201], [2.0, 2.0, 2.0], 3600, [7.0] * 2])
    out.append([3, 4, 1800, 0, 0, 3600, [1, 3600, 7201], [2.0, 2.0, 2.0], 3600, [7.0] * 4])
    out.append([2, 2, 3600, 2, 0, 3600, [0, 7200], [1.0, 1.0], 3600, [7.0] * 2])
    out.append([2, 2, 1234, 0, 0, 3600, [0, 7200], [1.0, 1.0], 3600, [7.0] * 2])
    return out


def gen_aggregate(rng, tier):
    out = []
    vals = [0.0, 1.0, -2.0, 3.5, NAN, -0.5, 10.0]
    # exhaustive: lengths 1..4 over run patterns, a small value lattice, four operators, maxnan 0..2
    for n in range(1, 5):
        for pattern in itertools.product([0, 1], repeat=n - 1):          # 1 = index changes
            idx = [5]
            for p in pattern:
                idx.append(idx[-1] + (3 if p else 0))
            for x in itertools.product([1.0, -2.0, NAN], repeat=n):
                for op in (0, 1, 2, 3):
                    for maxnan in (0, 1):
                        out.append([n, op, maxnan, idx, list(x), [7.0] * n, [7]])
    for _ in range(300 if tier == 'quick' else 3000):
        n = rng.randint(1, 12)
        idx = [rng.randint(-3, 3)]
        for _ in range(n - 1):
            idx.append(idx[-1] + rng.choice([0, 0, 1, 5]))
        if rng.random() < 0.1 and n > 1:
            k = rng.randrange(1, n); idx[k] = idx[k - 1] - 1            # decreasing index: must be rejected
        out.append([n, rng.randint(0, 3), rng.choice([0, 1, 2, 20, -1]), idx, [rng.choice(vals) for _ in range(n)], [7.0] * n, [7]])
    out.append([0, 0, 0, [], [], [], [7]])
    out.append([-1, 0, 0, [], [], [], [7]])
    out.append([2, 0, 0, [2 ** 31 - 1, 2 ** 31 - 1], [1.0, 2.0], [7.0] * 2, [7]])
    out.append([2, 1, 0, [-2 ** 31, 2 ** 31 - 1], [1.0, 2.0], [7.0] * 2, [7]])
    return out


def gen_flathomogen(rng, tier):
    out = []
    for c in gen_aggregate(rng, tier):
        n, op, maxnan, idx, x, o, iend = c
        if op == 0:
            out.append([n, maxnan, idx, x, list(o)])
    return out
