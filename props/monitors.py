"""Bounded run-time monitors of the contracts that neither engine can decide (python / pandas / numpy glue above the kernels).
Each monitor states the contract with icontract on a sidecar wrapper of the REAL function (repository files untouched), drives it
over an enumerated input space whose bound is reported, and returns a Result.  These clauses are BOUNDED: never counted as proved."""
import itertools, math, json, io, contextlib, os
from fractions import Fraction
import numpy as np
import icontract

NAN = float('nan')


class Result:
    def __init__(self, name, bound):
        self.name = name; self.bound = bound; self.evaluations = 0; self.distinct = set(); self.failures = []; self.exhaustive = False; self.undecided = []

    def case(self, key):
        self.evaluations += 1; self.distinct.add(key)

    def fail(self, what, witness, script=None):
        if len(self.failures) < 5:
            self.failures.append(dict(what=what, witness=witness, script=script))

    def report(self, run, prop_key):
        for u in self.undecided[:3]:
            if u not in run.undecided:
                run.undecided.append(u)
        run.bounded_clause(self.name, self.bound, self.evaluations, len(self.distinct), self.exhaustive, failures=len(self.failures))
        for f in self.failures[:2]:
            key = dict(monitor=self.name, what=f['what'][:120])
            run.violation(key, 'bounded monitor "%s": %s' % (self.name, f['what']),
                          witness=dict(python=True, monitor=self.name, input=f['witness'], script=f.get('script')))


def quiet(f, *a, **k):
    """call with python-level and C-level stdout silenced (kernels print progress messages)"""
    import sys
    sys.stdout.flush()
    fd = os.dup(1); dn = os.open(os.devnull, os.O_WRONLY)
    try:
        os.dup2(dn, 1)
        with contextlib.redirect_stdout(io.StringIO()):
            return f(*a, **k)
    finally:
        sys.stdout.flush(); os.dup2(fd, 1); os.close(fd); os.close(dn)


# =============================================================================================== flow-direction oracle (independent of the kernels)
def fdc():
    from props.common import flowdircode
    return flowdircode()


def down_oracle(nr, nc, fd, c, codes):
    v = fd[c]
    if v == 0:
        return -2
    if v not in codes or codes.index(v) == 4:
        return -1
    k = codes.index(v)
    r, q = divmod(c, nc); r2 = r + k // 3 - 1; q2 = q + k % 3 - 1
    if 0 <= r2 < nr and 0 <= q2 < nc:
        return r2 * nc + q2
    return -1


def make_flowdir(nr, nc, fd):
    from hydrodiy.gis.grid import Grid
    g = Grid('fd', ncols=nc, nrows=nr, dtype=np.int64, nodata=-1)
    g.data = np.array(fd, dtype=np.int64).reshape(nr, nc)
    return g


def grids_for(rng, tier, maxcells_exh, alphabet, n_random, dims_random):
    out = []
    for (nr, nc) in [(1, 1), (1, 2), (2, 1), (1, 3), (3, 1), (2, 2), (2, 3), (3, 2)]:
        n = nr * nc
        if n <= maxcells_exh:
            for combo in itertools.product(alphabet, repeat=n):
                out.append((nr, nc, list(combo), True))
    for _ in range(n_random):
        nr, nc = rng.choice(dims_random)
        out.append((nr, nc, [rng.choice(alphabet) for _ in range(nr * nc)], False))
    return out


# =============================================================================================== C06
def mon_area(rng, tier):
    """Catchment.delineate_area == {outlet} U {cells whose downstream chain reaches the outlet without passing through an inlet}"""
    from hydrodiy.gis.grid import Catchment
    codes = fdc()
    alphabet = [c for c in codes if c != 0] + [0, 3]
    exh = 3 if tier == 'quick' else 4
    res = Result('C06 delineate_area equals upstream reachability (fix-point oracle), each cell once, filled area contains it',
                 'all grids with <= %d cells over the 8 ESRI codes + sink + invalid code, every outlet, every inlet subset of size <= 1 (exhaustive); %s random grids up to 5x5 with up to 2 inlets; %d funnel grids up to 6x6 (cells with up to 8 inflows), four delineations each on the same Catchment object' % (exh, 150 if tier == 'quick' else 3000, 10 if tier == 'quick' else 60))
    res.exhaustive = True

    # the wrapper must enter the kernel in the state the proved contracts c_delineate_area#reach / #once require beyond memory safety:
    # ESRI direction table, result vector pre-filled with -1, the two work buffers as long as the result vector
    import c_hydrodiy_gis as CG
    real_kernel = CG.delineate_area
    entry = dict(calls=0, bad=None)

    def kernel_entry(fdcode, flowdir, outlet, inlets, cells, b1, b2):
        entry['calls'] += 1
        try:
            ok = (np.asarray(fdcode).ravel().tolist() == list(codes) and cells.dtype == np.int64 and bool((np.asarray(cells) == -1).all())
                  and len(b1) >= len(cells) and len(b2) >= len(cells))
        except Exception as e:
            ok = False
        if not ok and entry['bad'] is None:
            entry['bad'] = 'kernel entered with a direction table / pre-filled vector / buffers that the proved contract does not allow'
        return real_kernel(fdcode, flowdir, outlet, inlets, cells, b1, b2)

    @icontract.ensure(lambda result, nr, nc, fd, outlet, inlets: result is None or result['ok'], 'area == reachability oracle')
    def checked(nr, nc, fd, outlet, inlets, ca=None):
        n = nr * nc
        if ca is None:
            ca = Catchment('c', make_flowdir(nr, nc, fd))
        entry['bad'] = None
        CG.delineate_area = kernel_entry
        try:
            quiet(ca.delineate_area, outlet, inlets if inlets else None, n + 2)
        except ValueError:
            CG.delineate_area = real_kernel
            # an error is acceptable only when the grid has a cycle upstream of the outlet (the buffer fills up)
            return dict(ok=has_cycle(nr, nc, fd, codes), got='ValueError')
        finally:
            CG.delineate_area = real_kernel
        if entry['bad'] is not None and not res.undecided:
            # not a violation of C06 by itself (the outcome is judged by the oracle below): the proofs of c_delineate_area#reach / #once
            # do not cover the API on this tree
            res.undecided.append('Catchment.delineate_area: %s (first seen on a %dx%d grid); the proved contracts c_delineate_area#reach / #once do not apply to the python API on this tree' % (entry['bad'], nr, nc))
        got = list(ca.idxcells_area)
        # oracle: follow the downstream chain of every cell
        reach = set()
        for c in range(n):
            if c == outlet or c in inlets:
                continue
            cur = c; seen = 0; ok = False
            while seen <= n:
                d = down_oracle(nr, nc, fd, cur, codes)
                if d < 0:
                    break
                if d == outlet:
                    ok = True; break
                if d in inlets:
                    break
                cur = d; seen += 1
            if ok:
                reach.add(c)
        exp = (reach | {outlet}) if reach else set()
        filled = set(int(v) for v in ca.idxcells_area_filled)
        ok = sorted(got) == sorted(exp) and len(got) == len(set(got)) and set(got) <= filled
        return dict(ok=ok, got=sorted(got), expected=sorted(exp), filled=sorted(filled))

    for (nr, nc, fd, ex) in grids_for(rng, tier, exh, alphabet, 150 if tier == 'quick' else 3000, [(2, 3), (3, 3), (3, 4), (4, 4), (5, 5), (1, 6)]):
        n = nr * nc
        outlets = range(n) if ex else [rng.randrange(n)]
        for outlet in outlets:
            inletsets = [[]] + ([[i] for i in range(n) if i != outlet] if ex else [[rng.randrange(n) for _ in range(rng.choice([1, 2]))]])
            for inlets in inletsets:
                if has_cycle(nr, nc, fd, codes) and not ex:
                    continue
                res.case((nr, nc, tuple(fd), outlet, tuple(inlets)))
                try:
                    checked(nr, nc, fd, outlet, inlets)
                except icontract.ViolationError as e:
                    res.fail('delineate_area differs from upstream reachability on a %dx%d grid' % (nr, nc),
                             dict(nrows=nr, ncols=nc, flowdir=fd, outlet=outlet, inlets=inlets, detail=str(e)[-400:]))
    # large catchments with wide search frontiers (cells with up to 8 inflows), and the SAME Catchment object used for a sequence of
    # delineations (with inlets, then without, then another outlet): every call must give the area of its own arguments
    from props.common import funnel_grids
    for (nr, nc, fd, o) in funnel_grids(rng, tier, n=10):
        n = nr * nc
        ca = Catchment('c', make_flowdir(nr, nc, fd))
        seq = [(o, [rng.randrange(n)]), (o, []), (rng.randrange(n), [rng.randrange(n), rng.randrange(n)]), (o, [])]
        for k, (outlet, inlets) in enumerate(seq):
            inlets = [i for i in inlets if i != outlet]
            res.case((nr, nc, tuple(fd), outlet, tuple(inlets), 'reused', k))
            try:
                checked(nr, nc, fd, outlet, inlets, ca)
            except icontract.ViolationError as e:
                res.fail('delineate_area differs from upstream reachability on a %dx%d grid (call %d on the same Catchment object)' % (nr, nc, k + 1),
                         dict(nrows=nr, ncols=nc, flowdir=fd, calls=[(a, list(b)) for a, b in seq[:k + 1]], detail=str(e)[-400:]))
                break
    return res


def has_cycle(nr, nc, fd, codes):
    n = nr * nc
    for c in range(n):
        cur = c
        for _ in range(n + 1):
            cur = down_oracle(nr, nc, fd, cur, codes)
            if cur < 0:
                break
        else:
            return True
    return False


def mon_updown(rng, tier):
    """through the Python API: d is reported upstream of c exactly when c is reported downstream of d; negative codes for sinks / exits"""
    from hydrodiy.gis.grid import Catchment
    codes = fdc(); alphabet = [c for c in codes if c != 0] + [0, 3]
    res = Result('C06 Catchment.upstream / downstream are inverse relations (python API)', 'grids <= 3 cells exhaustive, 100 random grids up to 5x5')
    for (nr, nc, fd, ex) in grids_for(rng, tier, 3, alphabet, 100 if tier == 'quick' else 1000, [(2, 2), (2, 3), (3, 3), (4, 5), (5, 5)]):
        n = nr * nc
        ca = Catchment('c', make_flowdir(nr, nc, fd))
        up = ca.upstream(list(range(n))); dn = ca.downstream(list(range(n)))
        res.case((nr, nc, tuple(fd)))
        for c in range(n):
            exp = down_oracle(nr, nc, fd, c, codes)
            if int(dn[c]) != exp:
                res.fail('downstream(%d) = %d, expected %d' % (c, dn[c], exp), dict(nrows=nr, ncols=nc, flowdir=fd)); break
            ups = set(int(v) for v in up[c] if v >= 0)
            exp_up = {d for d in range(n) if down_oracle(nr, nc, fd, d, codes) == c}
            if ups != exp_up or len(ups) != sum(1 for v in up[c] if v >= 0):
                res.fail('upstream(%d) = %s, expected %s' % (c, sorted(ups), sorted(exp_up)), dict(nrows=nr, ncols=nc, flowdir=fd)); break
    return res


def mon_paths(rng, tier):
    """river traces and flow-path lengths advance 1 per orthogonal and sqrt(2) per diagonal step along the downstream chain"""
    from hydrodiy.gis import grid as G
    from hydrodiy.gis.grid import Catchment
    codes = fdc(); alphabet = [c for c in codes if c != 0] + [0]
    res = Result('C06 river traces and flow-path lengths follow the downstream chain with steps 1 / sqrt(2) (python API)',
                 'acyclic grids: 1x2, 2x1, 2x2 (exhaustive in the thorough tier, 400 sampled in quick), random 2-column grids, 100 random up to 5x5; every start cell / outlet')
    from props.common import acyclic_grids
    gl = [(nr, nc, fd) for (nr, nc, fd) in acyclic_grids(rng, tier, n=100 if tier == 'quick' else 1500)]
    for (nr, nc) in [(1, 2), (2, 1), (2, 2)]:
        combos = list(itertools.product(alphabet, repeat=nr * nc))
        if tier == 'quick' and len(combos) > 400:
            combos = rng.sample(combos, 400)
        for combo in combos:
            if not has_cycle(nr, nc, list(combo), codes):
                gl.append((nr, nc, list(combo)))
    for _ in range(60 if tier == 'quick' else 2000):
        nr = rng.choice([2, 3, 4]); combo = [rng.choice(alphabet) for _ in range(nr * 2)]        # 2-column grids
        if not has_cycle(nr, 2, combo, codes):
            gl.append((nr, 2, combo))
    for (nr, nc, fd) in gl:
        n = nr * nc
        g = make_flowdir(nr, nc, fd)
        for start in range(n):
            res.case((nr, nc, tuple(fd), start))
            df = quiet(G.delineate_river, g, start, n + 2)
            cells = [int(v) for v in df['idxcell']]
            exp = [start]; dist = [0.0]
            while True:
                d = down_oracle(nr, nc, fd, exp[-1], codes)
                if d < 0:
                    break
                r0, c0 = divmod(exp[-1], nc); r1, c1 = divmod(d, nc)
                dist.append(dist[-1] + math.hypot(r0 - r1, c0 - c1)); exp.append(d)
            if cells != exp or not np.allclose(df['dist'].values, dist, atol=1e-12):
                res.fail('delineate_river from cell %d: cells %s dist %s, expected %s %s' % (start, cells, list(df['dist']), exp, dist), dict(nrows=nr, ncols=nc, flowdir=fd, start=start))
        # flow path lengths inside a delineated catchment
        for outlet in range(n):
            ca = Catchment('c', g)
            quiet(ca.delineate_area, outlet, None, n + 2)
            if len(ca.idxcells_area) == 0:
                continue
            quiet(ca.compute_flowpathlengths)
            fp = ca.flowpathlengths
            for _, row in fp.iterrows():
                c = int(row.iloc[0]); length = 0.0; cur = c
                if c == outlet:
                    continue            # the path of the outlet to itself is not constrained by the property
                while cur != outlet:
                    d = down_oracle(nr, nc, fd, cur, codes)
                    if d < 0:
                        length = None; break
                    r0, c0 = divmod(cur, nc); r1, c1 = divmod(d, nc)
                    length += math.hypot(r0 - r1, c0 - c1); cur = d
                res.case((nr, nc, tuple(fd), outlet, c))
                if length is not None and abs(row.iloc[2] - length) > 1e-9:
                    res.fail('flow path length of cell %d to outlet %d is %r, expected %r' % (c, outlet, row.iloc[2], length), dict(nrows=nr, ncols=nc, flowdir=fd, outlet=outlet))
    return res


# =============================================================================================== C11
def mon_accumulate(rng, tier):
    """grid.accumulate through the Python API against the upstream-sum oracle; inputs untouched"""
    from hydrodiy.gis import grid as G
    from props.common import acyclic_grids
    codes = fdc()
    res = Result('C11 accumulate (python API) equals the sum over everything upstream; terminal cells hold nodata; inputs unchanged',
                 '%d random acyclic grids up to 5x5 x fields uniform / random positive / zeros and negatives; default cell limit' % (120 if tier == 'quick' else 1200))
    for (nr, nc, fd) in acyclic_grids(rng, tier, n=120 if tier == 'quick' else 1200):
        n = nr * nc
        g = make_flowdir(nr, nc, fd)
        for kind in ('unit', 'pos', 'mixed'):
            if kind == 'unit':
                field = None; f = [1.0] * n
            else:
                f = [rng.choice([1.0, 2.0, 10.0, 0.5]) if kind == 'pos' else rng.choice([0.0, -1.0, 3.0, 0.0]) for _ in range(n)]
                field = g.clone(np.float64); field.data = np.array(f).reshape(nr, nc); field.nodata = -999.
            fd0 = g.data.copy(); f0 = None if field is None else field.data.copy()
            res.case((nr, nc, tuple(fd), kind, tuple(f)))
            acc = quiet(G.accumulate, g, field, 10)
            a = acc.data.ravel(); nod = acc.nodata if field is None else field.nodata
            ok = np.array_equal(g.data, fd0) and (field is None or np.array_equal(field.data, f0))
            for c in range(n):
                d = down_oracle(nr, nc, fd, c, codes)
                if d < 0:
                    ok = ok and (a[c] == nod or (np.isnan(a[c]) and np.isnan(nod)))
                else:
                    tot = f[c]
                    for u in range(n):
                        cur = u
                        for _ in range(n + 1):
                            cur = down_oracle(nr, nc, fd, cur, codes)
                            if cur < 0:
                                break
                            if cur == c:
                                tot += f[u]; break
                    ok = ok and abs(a[c] - tot) < 1e-9
            if not ok:
                res.fail('accumulate differs from the upstream sum (%s field)' % kind, dict(nrows=nr, ncols=nc, flowdir=fd, field=f, got=a.tolist()))
    return res


# =============================================================================================== C16
def mon_intersect_voronoi(rng, tier):
    from hydrodiy.gis import grid as G
    from hydrodiy.gis.grid import Grid, Catchment
    from props.common import acyclic_grids
    res = Result('C16 intersect weights = count x area ratio, each cell once, placed at the parent row/column; voronoi weights = nearest-point fractions summing to 1',
                 '%d delineated catchments on grids up to 5x5 + dense cell sets on grids up to 12x12 x coarse grids with cell-size ratio 1, 1.5, 2, 2.5, 3, 4 and offsets; 1-6 voronoi points incl. ties' % (60 if tier == 'quick' else 600))
    work = [(nr, nc, fd, None) for (nr, nc, fd) in acyclic_grids(rng, tier, n=60 if tier == 'quick' else 600)]
    # dense cell sets on larger grids (the area attributes are assigned directly: the property quantifies over all cell sets, and
    # delineation of small random flow grids gives small scattered catchments only)
    for _ in range(25 if tier == 'quick' else 250):
        nr, nc = rng.randint(2, 12), rng.randint(2, 12)
        dens = rng.choice([0.5, 0.8, 1.0])
        sel = sorted(c for c in range(nr * nc) if rng.random() < dens) or [0]
        rng.shuffle(sel)
        work.append((nr, nc, [0] * (nr * nc), sel))
    for (nr, nc, fd, direct) in work:
        n = nr * nc
        g = make_flowdir(nr, nc, fd)
        ca = Catchment('c', g)
        if direct is None:
            quiet(ca.delineate_area, rng.randrange(n), None, n + 2)
        else:
            ca._idxcells_area = np.array(direct, dtype=np.int64); ca._idxcells_area_filled = ca._idxcells_area
        cells = [int(v) for v in ca.idxcells_area]
        if not cells:
            continue
        xy = g.cell2coord(cells)
        for ratio in (1, 2, 4, 1.5, 2.5, 3):
            csz = float(ratio)
            gg = Grid('coarse', ncols=rng.randint(1, 3 if direct is None else 5), nrows=rng.randint(1, 3 if direct is None else 5), cellsize=csz, xllcorner=float(rng.randint(-2, 1)), yllcorner=float(rng.randint(-2, 1)))
            res.case((nr, nc, tuple(fd), tuple(cells), ratio, gg.ncols, gg.nrows, gg.xllcorner, gg.yllcorner))
            inside = [(x, y) for x, y in xy if gg.xllcorner <= x < gg.xllcorner + gg.ncols * csz and gg.yllcorner <= y < gg.yllcorner + gg.nrows * csz]
            try:
                area_grid, idx, w = quiet(ca.intersect, gg)
            except ValueError:
                if inside:
                    res.fail('intersect raised although %d centres fall in the grid' % len(inside), dict(nrows=nr, ncols=nc, flowdir=fd))
                continue
            exp = {}
            for x, y in inside:
                col = int(math.floor((x - gg.xllcorner) / csz)); row = gg.nrows - 1 - int(math.floor((y - gg.yllcorner) / csz))
                exp[row * gg.ncols + col] = exp.get(row * gg.ncols + col, 0) + 1
            got = {int(i): float(v) for i, v in zip(idx, w)}
            ok = len(idx) == len(set(int(i) for i in idx)) and set(got) == set(exp) and all(abs(got[k] - exp[k] / ratio ** 2) < 1e-9 for k in exp)
            ok = ok and abs(sum(w) * csz * csz - len(inside)) < 1e-9
            if ok and len(idx):
                rc = gg.cell2rowcol(idx)
                r0, c0 = rc[:, 0].min(), rc[:, 1].min()
                for (r, c), v in zip(rc, w):
                    ok = ok and abs(area_grid.data[r - r0, c - c0] - v) < 1e-12
            if not ok:
                res.fail('intersect weights differ from count x area ratio', dict(nrows=nr, ncols=nc, flowdir=fd, cells=cells, coarse=[gg.nrows, gg.ncols, gg.xllcorner, gg.yllcorner, csz], got=got, expected=exp))
        for npts in (1, 2, 3, 6):
            pts = [[rng.choice([-0.5, 0.5, 1.5, 2.5, 1.0, 7.0]), rng.choice([-0.5, 0.5, 1.5, 2.5, 2.0])] for _ in range(npts)]
            if npts >= 2 and rng.random() < 0.5:
                # several points inside the same catchment cell, a later one closer to the centre than an earlier one (dyadic offsets: exact distances)
                cx, cy = xy[rng.randrange(len(xy))]
                offs = [(0.375, 0.125), (0.0625, 0.0), (0.25, -0.25), (0.0, 0.0), (-0.125, 0.0625), (0.4375, 0.4375)]
                rng.shuffle(offs)
                pts = [[float(cx) + ox, float(cy) + oy] for ox, oy in offs[:npts]]
            res.case((nr, nc, tuple(fd), tuple(cells), tuple(map(tuple, pts))))
            w = quiet(G.voronoi, ca, np.array(pts))
            cnt = [0] * npts
            for x, y in xy:
                d2 = [Fraction(x - px) ** 2 + Fraction(y - py) ** 2 for px, py in pts]
                cnt[d2.index(min(d2))] += 1
            if not (np.all(w >= 0) and abs(w.sum() - 1) < 1e-12 and np.allclose(w, np.array(cnt) / len(xy), atol=1e-12)):
                res.fail('voronoi weights %s, expected %s' % (w.tolist(), [c / len(xy) for c in cnt]), dict(nrows=nr, ncols=nc, flowdir=fd, cells=cells, points=pts))
    return res


# =============================================================================================== C07 through the Grid API
def mon_grid_api(rng, tier):
    from hydrodiy.gis.grid import Grid
    quick = tier == 'quick'
    res = Result('C07 Grid.coord2cell / cell2coord / cell2rowcol / neighbours through the python API: numbering row by row from the top-left corner, centres, footprint -> cell, outside -> -1, '
                 'symmetric mirrored neighbours, invalid cell numbers flagged', '%d grid geometries (1x1 .. 9x7, cell sizes 1e-4 .. 1e4, origins up to 1e4 cell sizes from zero) x all cells x footprint / outside points' % (40 if quick else 400))
    for it in range(40 if quick else 400):
        nr = rng.choice([1, 1, 2, 3, 5, 9]); nc = rng.choice([1, 2, 2, 4, 7])
        csz = rng.choice([1e-4, 0.05, 0.25, 1.0, 3.0, 250.0, 1e4])
        xll = rng.choice([0.0, 1.0, -3.5, 147.25, -9999.0, 1e4]) * csz if rng.random() < 0.7 else rng.uniform(-1e4, 1e4) * csz
        yll = rng.choice([0.0, 2.0, -0.5, -35.75, 9999.0]) * csz if rng.random() < 0.7 else rng.uniform(-1e4, 1e4) * csz
        g = Grid('g', ncols=nc, nrows=nr, cellsize=csz, xllcorner=xll, yllcorner=yll)
        n = nr * nc
        res.case((nr, nc, csz, xll, yll))
        desc = dict(nrows=nr, ncols=nc, cellsize=repr(csz), xllcorner=repr(xll), yllcorner=repr(yll))
        cells = np.arange(n)
        xy = g.cell2coord(cells); rcs = g.cell2rowcol(cells)
        ok = True; why = ''
        for c in range(n):
            r, q = divmod(c, nc)
            ex = xll + (q + 0.5) * csz; ey = yll + (nr - 1 - r + 0.5) * csz
            tol = 1e-9 * max(abs(ex), abs(ey), csz)
            if abs(xy[c, 0] - ex) > tol or abs(xy[c, 1] - ey) > tol:
                ok = False; why = 'cell2coord(%d) = %r, centre is (%r, %r)' % (c, xy[c].tolist(), ex, ey); break
            if tuple(rcs[c]) != (r, q):
                ok = False; why = 'cell2rowcol(%d) = %r, expected (%d, %d)' % (c, rcs[c].tolist(), r, q); break
        if ok:
            back = g.coord2cell(xy)
            if back.tolist() != cells.tolist():
                ok = False; why = 'coord2cell(cell2coord(c)) != c: %r' % back.tolist()[:12]
        if ok:
            # points inside each footprint, away from the edges by 1e-3 of a cell
            pts = []; exp = []
            for c in range(n):
                r, q = divmod(c, nc)
                for fx, fy in ((0.001, 0.001), (0.999, 0.001), (0.5, 0.999), (0.25, 0.75)):
                    pts.append([xll + (q + fx) * csz, yll + (nr - 1 - r + fy) * csz]); exp.append(c)
            # outside on the four sides and diagonals, just outside to far away
            for d in (1e-3, 0.5, 1.0, 7.3, 1e5):
                for (sx, sy) in ((-1, 0), (1, 0), (0, -1), (0, 1), (-1, -1), (1, 1), (-1, 1), (1, -1)):
                    px = xll - d * csz if sx < 0 else xll + (nc + d) * csz if sx > 0 else xll + 0.5 * nc * csz
                    py = yll - d * csz if sy < 0 else yll + (nr + d) * csz if sy > 0 else yll + 0.5 * nr * csz
                    pts.append([px, py]); exp.append(-1)
            got = g.coord2cell(np.array(pts))
            # a footprint point closer to an edge than rounding allows is skipped (1e-9 relative rule of the property)
            for k, (p, e, o) in enumerate(zip(pts, exp, got)):
                if e != o:
                    if e >= 0 and 0.001 * csz < 1e-9 * max(abs(p[0]), abs(p[1])) * 4:
                        continue
                    if e < 0 and k >= 4 * n and (k - 4 * n) // 8 == 0 and 1e-3 * csz < 1e-9 * max(abs(p[0]), abs(p[1]), abs(xll), abs(yll)) * 4:
                        continue
                    ok = False; why = 'coord2cell(%r) = %d, expected %d' % (p, int(o), e); break
        if ok:
            for c in range(n):
                nb = g.neighbours(c)
                r, q = divmod(c, nc)
                slots = [(-1, -1), (-1, 0), (-1, 1), (0, -1), (0, 0), (0, 1), (1, -1), (1, 0), (1, 1)]
                exp = [(r + dr) * nc + (q + dq) if 0 <= r + dr < nr and 0 <= q + dq < nc and (dr, dq) != (0, 0) else -1 for dr, dq in slots]      # the centre slot is not a neighbour
                if len(nb) == 9 and nb.tolist() != exp:
                    ok = False; why = 'neighbours(%d) = %r, expected %r' % (c, nb.tolist(), exp); break
                for k, m in enumerate(nb.tolist()):
                    if m >= 0 and m != c and g.neighbours(m)[8 - k] != c:
                        ok = False; why = 'neighbour relation not symmetric / mirrored between %d and %d' % (c, m); break
                if not ok:
                    break
        if ok:
            for badc in (-1, n, n + 7, -2 ** 40, 2 ** 40):
                flagged = False
                try:
                    v = g.cell2coord([badc]); flagged = bool(np.all(np.isnan(v)))
                except ValueError:
                    flagged = True
                try:
                    v2 = g.cell2rowcol([badc]); f2 = bool(np.all(v2 < 0))
                except ValueError:
                    f2 = True
                try:
                    v3 = g.neighbours(badc); f3 = bool(np.all(v3 < 0))
                except ValueError:
                    f3 = True
                if not (flagged and f2 and f3):
                    ok = False; why = 'invalid cell number %d is mapped to a cell (coord flagged %s, rowcol %s, neighbours %s)' % (badc, flagged, f2, f3); break
        if not ok:
            res.fail(why, desc)
    return res


# =============================================================================================== C15 through the python API
def _evenodd(poly, x, y):
    """even-odd rule with the half-open crossing convention, exact rational arithmetic"""
    from fractions import Fraction as Fr
    n = len(poly); ins = False
    for i in range(n):
        x1, y1 = poly[i]; x2, y2 = poly[(i + 1) % n]
        if (y1 > y) != (y2 > y):
            xi = Fr(x1) + (Fr(y) - Fr(y1)) * (Fr(x2) - Fr(x1)) / (Fr(y2) - Fr(y1))
            if Fr(x) < xi:
                ins = not ins
    return ins


def _dist2seg(px, py, a, b):
    ax, ay = a; bx, by = b
    dx, dy = bx - ax, by - ay
    L = dx * dx + dy * dy
    t = 0.0 if L == 0 else max(0.0, min(1.0, ((px - ax) * dx + (py - ay) * dy) / L))
    return math.hypot(px - (ax + t * dx), py - (ay + t * dy))


def mon_polygon_api(rng, tier):
    from hydrodiy.gis import gutils
    from hydrodiy.gis.grid import Grid
    quick = tier == 'quick'
    res = Result('C15 points_inside_polygon / cells_inside_polygon through the python API == even-odd rule (exact rational oracle); unchanged by rotating / reversing / closing the vertex list and by translating / scaling',
                 '%d polygons (lattice with horizontal / vertical / collinear edges and repeated vertices, star-shaped, random self-intersecting) x 40 points incl. level with vertices, distance > 1e-6 x size from every edge' % (60 if quick else 600))
    for it in range(60 if quick else 600):
        kind = rng.choice(['lattice', 'star', 'random', 'lattice'])
        nv = rng.randint(3, 9)
        if kind == 'lattice':
            poly = [(float(rng.randint(0, 5)), float(rng.randint(0, 5))) for _ in range(nv)]
            if rng.random() < 0.3:
                poly.insert(rng.randrange(len(poly)), poly[rng.randrange(len(poly))])
        elif kind == 'star':
            poly = []
            for k in range(nv):
                a = 2 * math.pi * k / nv; rad = rng.choice([1.0, 2.5, 0.5])
                poly.append((round(3 + rad * math.cos(a), 3), round(3 + rad * math.sin(a), 3)))
        else:
            poly = [(round(rng.uniform(0, 6), 2), round(rng.uniform(0, 6), 2)) for _ in range(nv)]
        if len(set(poly)) < 3:
            continue
        size = max(max(p[0] for p in poly) - min(p[0] for p in poly), max(p[1] for p in poly) - min(p[1] for p in poly))
        if size == 0:
            continue
        pts = []
        for _ in range(40):
            if rng.random() < 0.4:
                v = rng.choice(poly); p = (v[0] + rng.choice([-1.5, -0.5, 0.5, 0.25, 2.0]), v[1])       # level with a vertex
            elif rng.random() < 0.5:
                p = (rng.randint(-1, 6) + 0.5, rng.randint(-1, 6) + 0.5)
            else:
                p = (round(rng.uniform(-1, 7), 3), round(rng.uniform(-1, 7), 3))
            if min(_dist2seg(p[0], p[1], poly[i], poly[(i + 1) % len(poly)]) for i in range(len(poly))) > 1e-6 * size * 1000:
                pts.append(p)
        if not pts:
            continue
        res.case((tuple(poly), tuple(pts)))
        exp = [1 if _evenodd(poly, x, y) else 0 for x, y in pts]
        P = np.array(poly); Q = np.array(pts)
        variants = [('as given', P, Q)]
        k = rng.randrange(len(poly))
        variants.append(('rotated', np.array(poly[k:] + poly[:k]), Q))
        variants.append(('reversed', P[::-1].copy(), Q))
        variants.append(('closed', np.array(poly + [poly[0]]), Q))
        variants.append(('translated', P + np.array([16.0, -8.0]), Q + np.array([16.0, -8.0])))
        variants.append(('scaled', P * 4.0, Q * 4.0))
        # a caller-supplied result vector (documented, for reuse over many polygons) holding stale values from an earlier call
        stale = np.ones(len(pts), dtype=np.int32)
        got = quiet(gutils.points_inside_polygon, Q, P, stale)
        if got.tolist() != exp or stale.tolist() != exp:
            res.fail('points_inside_polygon with a reused `inside` vector = %r, even-odd rule gives %r' % (got.tolist(), exp), dict(polygon=poly, points=pts, variant='reused inside vector')); continue
        for nm, pp, qq in variants:
            got = quiet(gutils.points_inside_polygon, qq, pp)
            if got.tolist() != exp:
                res.fail('points_inside_polygon (%s vertex list) = %r, even-odd rule gives %r' % (nm, got.tolist(), exp), dict(polygon=poly, points=pts, variant=nm)); break
        else:
            g = Grid('g', ncols=8, nrows=8, cellsize=1.0, xllcorner=-1.0, yllcorner=-1.0)
            cxy = g.cell2coord(np.arange(64))
            far = [c for c in range(64) if min(_dist2seg(cxy[c, 0], cxy[c, 1], poly[i], poly[(i + 1) % len(poly)]) for i in range(len(poly))) > 1e-3]
            if len(far) == 64:
                ci = quiet(g.cells_inside_polygon, P)
                expc = [c for c in range(64) if _evenodd(poly, float(cxy[c, 0]), float(cxy[c, 1]))]
                if sorted(int(c) for c in ci['cell']) != expc:
                    res.fail('cells_inside_polygon returns %r, cells whose centres are inside are %r' % (sorted(int(c) for c in ci['cell']), expc), dict(polygon=poly))
    return res
