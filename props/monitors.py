"""Bounded run-time monitors of the contracts that neither engine can decide (python / pandas / numpy glue above the kernels).
Each monitor states the contract with icontract on a sidecar wrapper of the REAL function (repository files untouched), drives it
over an enumerated input space whose bound is reported, and returns a Result.  These clauses are BOUNDED: never counted as proved."""
import itertools, math, json, io, contextlib, os
from fractions import Fraction
import numpy as np
import icontract

NAN = float('nan')


class Result:
    def __init__(self, name, bound):
        self.name = name; self.bound = bound; self.evaluations = 0; self.distinct = set(); self.failures = []; self.exhaustive = False

    def case(self, key):
        self.evaluations += 1; self.distinct.add(key)

    def fail(self, what, witness, script=None):
        if len(self.failures) < 5:
            self.failures.append(dict(what=what, witness=witness, script=script))

    def report(self, run, prop_key):
        run.bounded_clause(self.name, self.bound, self.evaluations, len(self.distinct), self.exhaustive, failures=len(self.failures))
        for f in self.failures[:2]:
            key = dict(monitor=self.name, what=f['what'][:120])
            run.violation(key, 'bounded monitor "%s": %s' % (self.name, f['what']),
                          witness=dict(python=True, monitor=self.name, input=f['witness'], script=f.get('script')))


def quiet(f, *a, **k):
    """call with python-level and C-level stdout silenced (kernels print progress messages)"""
    import sys
    sys.stdout.flush()
    fd = os.dup(1); dn = os.open(os.devnull, os.O_WRONLY)
    try:
        os.dup2(dn, 1)
        with contextlib.redirect_stdout(io.StringIO()):
            return f(*a, **k)
    finally:
        sys.stdout.flush(); os.dup2(fd, 1); os.close(fd); os.close(dn)


# =============================================================================================== flow-direction oracle (independent of the kernels)
def fdc():
    from props.common import flowdircode
    return flowdircode()


def down_oracle(nr, nc, fd, c, codes):
    v = fd[c]
    if v == 0:
        return -2
    if v not in codes or codes.index(v) == 4:
        return -1
    k = codes.index(v)
    r, q = divmod(c, nc); r2 = r + k // 3 - 1; q2 = q + k % 3 - 1
    if 0 <= r2 < nr and 0 <= q2 < nc:
        return r2 * nc + q2
    return -1


def make_flowdir(nr, nc, fd):
    from hydrodiy.gis.grid import Grid
    g = Grid('fd', ncols=nc, nrows=nr, dtype=np.int64, nodata=-1)
    g.data = np.array(fd, dtype=np.int64).reshape(nr, nc)
    return g


def grids_for(rng, tier, maxcells_exh, alphabet, n_random, dims_random):
    out = []
    for (nr, nc) in [(1, 1), (1, 2), (2, 1), (1, 3), (3, 1), (2, 2), (2, 3), (3, 2)]:
        n = nr * nc
        if n <= maxcells_exh:
            for combo in itertools.product(alphabet, repeat=n):
                out.append((nr, nc, list(combo), True))
    for _ in range(n_random):
        nr, nc = rng.choice(dims_random)
        out.append((nr, nc, [rng.choice(alphabet) for _ in range(nr * nc)], False))
    return out


# =============================================================================================== C06
def mon_area(rng, tier):
    """Catchment.delineate_area == {outlet} U {cells whose downstream chain reaches the outlet without passing through an inlet}"""
    from hydrodiy.gis.grid import Catchment
    codes = fdc()
    alphabet = [c for c in codes if c != 0] + [0, 3]
    exh = 3 if tier == 'quick' else 4
    res = Result('C06 delineate_area equals upstream reachability (fix-point oracle), each cell once, filled area contains it',
                 'all grids with <= %d cells over the 8 ESRI codes + sink + invalid code, every outlet, every inlet subset of size <= 1 (exhaustive); %s random grids up to 5x5 with up to 2 inlets' % (exh, 150 if tier == 'quick' else 3000))
    res.exhaustive = True

    @icontract.ensure(lambda result, nr, nc, fd, outlet, inlets: result is None or result['ok'], 'area == reachability oracle')
    def checked(nr, nc, fd, outlet, inlets):
        n = nr * nc
        ca = Catchment('c', make_flowdir(nr, nc, fd))
        try:
            quiet(ca.delineate_area, outlet, inlets if inlets else None, n + 2)
        except ValueError:
            # an error is acceptable only when the grid has a cycle upstream of the outlet (the buffer fills up)
            return dict(ok=has_cycle(nr, nc, fd, codes), got='ValueError')
        got = list(ca.idxcells_area)
        # oracle: follow the downstream chain of every cell
        reach = set()
        for c in range(n):
            if c == outlet or c in inlets:
                continue
            cur = c; seen = 0; ok = False
            while seen <= n:
                d = down_oracle(nr, nc, fd, cur, codes)
                if d < 0:
                    break
                if d == outlet:
                    ok = True; break
                if d in inlets:
                    break
                cur = d; seen += 1
            if ok:
                reach.add(c)
        exp = (reach | {outlet}) if reach else set()
        filled = set(int(v) for v in ca.idxcells_area_filled)
        ok = sorted(got) == sorted(exp) and len(got) == len(set(got)) and set(got) <= filled
        return dict(ok=ok, got=sorted(got), expected=sorted(exp), filled=sorted(filled))

    for (nr, nc, fd, ex) in grids_for(rng, tier, exh, alphabet, 150 if tier == 'quick' else 3000, [(2, 3), (3, 3), (3, 4), (4, 4), (5, 5), (1, 6)]):
        n = nr * nc
        outlets = range(n) if ex else [rng.randrange(n)]
        for outlet in outlets:
            inletsets = [[]] + ([[i] for i in range(n) if i != outlet] if ex else [[rng.randrange(n) for _ in range(rng.choice([1, 2]))]])
            for inlets in inletsets:
                if has_cycle(nr, nc, fd, codes) and not ex:
                    continue
                res.case((nr, nc, tuple(fd), outlet, tuple(inlets)))
                try:
                    checked(nr, nc, fd, outlet, inlets)
                except icontract.ViolationError as e:
                    res.fail('delineate_area differs from upstream reachability on a %dx%d grid' % (nr, nc),
                             dict(nrows=nr, ncols=nc, flowdir=fd, outlet=outlet, inlets=inlets, detail=str(e)[-400:]))
    return res


def has_cycle(nr, nc, fd, codes):
    n = nr * nc
    for c in range(n):
        cur = c
        for _ in range(n + 1):
            cur = down_oracle(nr, nc, fd, cur, codes)
            if cur < 0:
                break
        else:
            return True
    return False


def mon_updown(rng, tier):
    """through the Python API: d is reported upstream of c exactly when c is reported downstream of d; negative codes for sinks / exits"""
    from hydrodiy.gis.grid import Catchment
    codes = fdc(); alphabet = [c for c in codes if c != 0] + [0, 3]
    res = Result('C06 Catchment.upstream / downstream are inverse relations (python API)', 'grids <= 3 cells exhaustive, 100 random grids up to 5x5')
    for (nr, nc, fd, ex) in grids_for(rng, tier, 3, alphabet, 100 if tier == 'quick' else 1000, [(2, 2), (2, 3), (3, 3), (4, 5), (5, 5)]):
        n = nr * nc
        ca = Catchment('c', make_flowdir(nr, nc, fd))
        up = ca.upstream(list(range(n))); dn = ca.downstream(list(range(n)))
        res.case((nr, nc, tuple(fd)))
        for c in range(n):
            exp = down_oracle(nr, nc, fd, c, codes)
            if int(dn[c]) != exp:
                res.fail('downstream(%d) = %d, expected %d' % (c, dn[c], exp), dict(nrows=nr, ncols=nc, flowdir=fd)); break
            ups = set(int(v) for v in up[c] if v >= 0)
            exp_up = {d for d in range(n) if down_oracle(nr, nc, fd, d, codes) == c}
            if ups != exp_up or len(ups) != sum(1 for v in up[c] if v >= 0):
                res.fail('upstream(%d) = %s, expected %s' % (c, sorted(ups), sorted(exp_up)), dict(nrows=nr, ncols=nc, flowdir=fd)); break
    return res


def mon_paths(rng, tier):
    """river traces and flow-path lengths advance 1 per orthogonal and sqrt(2) per diagonal step along the downstream chain"""
    from hydrodiy.gis import grid as G
    from hydrodiy.gis.grid import Catchment
    codes = fdc(); alphabet = [c for c in codes if c != 0] + [0]
    res = Result('C06 river traces and flow-path lengths follow the downstream chain with steps 1 / sqrt(2) (python API)',
                 'acyclic grids: 1x2, 2x1, 2x2 (exhaustive in the thorough tier, 400 sampled in quick), random 2-column grids, 100 random up to 5x5; every start cell / outlet')
    from props.common import acyclic_grids
    gl = [(nr, nc, fd) for (nr, nc, fd) in acyclic_grids(rng, tier, n=100 if tier == 'quick' else 1500)]
    for (nr, nc) in [(1, 2), (2, 1), (2, 2)]:
        combos = list(itertools.product(alphabet, repeat=nr * nc))
        if tier == 'quick' and len(combos) > 400:
            combos = rng.sample(combos, 400)
        for combo in combos:
            if not has_cycle(nr, nc, list(combo), codes):
                gl.append((nr, nc, list(combo)))
    for _ in range(60 if tier == 'quick' else 2000):
        nr = rng.choice([2, 3, 4]); combo = [rng.choice(alphabet) for _ in range(nr * 2)]        # 2-column grids
        if not has_cycle(nr, 2, combo, codes):
            gl.append((nr, 2, combo))
    for (nr, nc, fd) in gl:
        n = nr * nc
        g = make_flowdir(nr, nc, fd)
        for start in range(n):
            res.case((nr, nc, tuple(fd), start))
            df = quiet(G.delineate_river, g, start, n + 2)
            cells = [int(v) for v in df['idxcell']]
            exp = [start]; dist = [0.0]
            while True:
                d = down_oracle(nr, nc, fd, exp[-1], codes)
                if d < 0:
                    break
                r0, c0 = divmod(exp[-1], nc); r1, c1 = divmod(d, nc)
                dist.append(dist[-1] + math.hypot(r0 - r1, c0 - c1)); exp.append(d)
            if cells != exp or not np.allclose(df['dist'].values, dist, atol=1e-12):
                res.fail('delineate_river from cell %d: cells %s dist %s, expected %s %s' % (start, cells, list(df['dist']), exp, dist), dict(nrows=nr, ncols=nc, flowdir=fd, start=start))
        # flow path lengths inside a delineated catchment
        for outlet in range(n):
            ca = Catchment('c', g)
            quiet(ca.delineate_area, outlet, None, n + 2)
            if len(ca.idxcells_area) == 0:
                continue
            quiet(ca.compute_flowpathlengths)
            fp = ca.flowpathlengths
            for _, row in fp.iterrows():
                c = int(row.iloc[0]); length = 0.0; cur = c
                if c == outlet:
                    continue            # the path of the outlet to itself is not constrained by the property
                while cur != outlet:
                    d = down_oracle(nr, nc, fd, cur, codes)
                    if d < 0:
                        length = None; break
                    r0, c0 = divmod(cur, nc); r1, c1 = divmod(d, nc)
                    length += math.hypot(r0 - r1, c0 - c1); cur = d
                res.case((nr, nc, tuple(fd), outlet, c))
                if length is not None and abs(row.iloc[2] - length) > 1e-9:
                    res.fail('flow path length of cell %d to outlet %d is %r, expected %r' % (c, outlet, row.iloc[2], length), dict(nrows=nr, ncols=nc, flowdir=fd, outlet=outlet))
    return res


# =============================================================================================== C11
def mon_accumulate(rng, tier):
    """grid.accumulate through the Python API against the upstream-sum oracle; inputs untouched"""
    from hydrodiy.gis import grid as G
    from props.common import acyclic_grids
    codes = fdc()
    res = Result('C11 accumulate (python API) equals the sum over everything upstream; terminal cells hold nodata; inputs unchanged',
                 '%d random acyclic grids up to 5x5 x fields uniform / random positive / zeros and negatives; default cell limit' % (120 if tier == 'quick' else 1200))
    for (nr, nc, fd) in acyclic_grids(rng, tier, n=120 if tier == 'quick' else 1200):
        n = nr * nc
        g = make_flowdir(nr, nc, fd)
        for kind in ('unit', 'pos', 'mixed'):
            if kind == 'unit':
                field = None; f = [1.0] * n
            else:
                f = [rng.choice([1.0, 2.0, 10.0, 0.5]) if kind == 'pos' else rng.choice([0.0, -1.0, 3.0, 0.0]) for _ in range(n)]
                field = g.clone(np.float64); field.data = np.array(f).reshape(nr, nc); field.nodata = -999.
            fd0 = g.data.copy(); f0 = None if field is None else field.data.copy()
            res.case((nr, nc, tuple(fd), kind, tuple(f)))
            acc = quiet(G.accumulate, g, field, 10)
            a = acc.data.ravel(); nod = acc.nodata if field is None else field.nodata
            ok = np.array_equal(g.data, fd0) and (field is None or np.array_equal(field.data, f0))
            for c in range(n):
                d = down_oracle(nr, nc, fd, c, codes)
                if d < 0:
                    ok = ok and (a[c] == nod or (np.isnan(a[c]) and np.isnan(nod)))
                else:
                    tot = f[c]
                    for u in range(n):
                        cur = u
                        for _ in range(n + 1):
                            cur = down_oracle(nr, nc, fd, cur, codes)
                            if cur < 0:
                                break
                            if cur == c:
                                tot += f[u]; break
                    ok = ok and abs(a[c] - tot) < 1e-9
            if not ok:
                res.fail('accumulate differs from the upstream sum (%s field)' % kind, dict(nrows=nr, ncols=nc, flowdir=fd, field=f, got=a.tolist()))
    return res


# =============================================================================================== C16
def mon_intersect_voronoi(rng, tier):
    from hydrodiy.gis import grid as G
    from hydrodiy.gis.grid import Grid, Catchment
    from props.common import acyclic_grids
    res = Result('C16 intersect weights = count x area ratio, each cell once, placed at the parent row/column; voronoi weights = nearest-point fractions summing to 1',
                 '%d delineated catchments on grids up to 5x5 + dense cell sets on grids up to 12x12 x coarse grids with cell-size ratio 1, 1.5, 2, 2.5, 3, 4 and offsets; 1-6 voronoi points incl. ties' % (60 if tier == 'quick' else 600))
    work = [(nr, nc, fd, None) for (nr, nc, fd) in acyclic_grids(rng, tier, n=60 if tier == 'quick' else 600)]
    # dense cell sets on larger grids (the area attributes are assigned directly: the property quantifies over all cell sets, and
    # delineation of small random flow grids gives small scattered catchments only)
    for _ in range(25 if tier == 'quick' else 250):
        nr, nc = rng.randint(2, 12), rng.randint(2, 12)
        dens = rng.choice([0.5, 0.8, 1.0])
        sel = sorted(c for c in range(nr * nc) if rng.random() < dens) or [0]
        rng.shuffle(sel)
        work.append((nr, nc, [0] * (nr * nc), sel))
    for (nr, nc, fd, direct) in work:
        n = nr * nc
        g = make_flowdir(nr, nc, fd)
        ca = Catchment('c', g)
        if direct is None:
            quiet(ca.delineate_area, rng.randrange(n), None, n + 2)
        else:
            ca._idxcells_area = np.array(direct, dtype=np.int64); ca._idxcells_area_filled = ca._idxcells_area
        cells = [int(v) for v in ca.idxcells_area]
        if not cells:
            continue
        xy = g.cell2coord(cells)
        for ratio in (1, 2, 4, 1.5, 2.5, 3):
            csz = float(ratio)
            gg = Grid('coarse', ncols=rng.randint(1, 3 if direct is None else 5), nrows=rng.randint(1, 3 if direct is None else 5), cellsize=csz, xllcorner=float(rng.randint(-2, 1)), yllcorner=float(rng.randint(-2, 1)))
            res.case((nr, nc, tuple(fd), tuple(cells), ratio, gg.ncols, gg.nrows, gg.xllcorner, gg.yllcorner))
            inside = [(x, y) for x, y in xy if gg.xllcorner <= x < gg.xllcorner + gg.ncols * csz and gg.yllcorner <= y < gg.yllcorner + gg.nrows * csz]
            try:
                area_grid, idx, w = quiet(ca.intersect, gg)
            except ValueError:
                if inside:
                    res.fail('intersect raised although %d centres fall in the grid' % len(inside), dict(nrows=nr, ncols=nc, flowdir=fd))
                continue
            exp = {}
            for x, y in inside:
                col = int(math.floor((x - gg.xllcorner) / csz)); row = gg.nrows - 1 - int(math.floor((y - gg.yllcorner) / csz))
                exp[row * gg.ncols + col] = exp.get(row * gg.ncols + col, 0) + 1
            got = {int(i): float(v) for i, v in zip(idx, w)}
            ok = len(idx) == len(set(int(i) for i in idx)) and set(got) == set(exp) and all(abs(got[k] - exp[k] / ratio ** 2) < 1e-9 for k in exp)
            ok = ok and abs(sum(w) * csz * csz - len(inside)) < 1e-9
            if ok and len(idx):
                rc = gg.cell2rowcol(idx)
                r0, c0 = rc[:, 0].min(), rc[:, 1].min()
                for (r, c), v in zip(rc, w):
                    ok = ok and abs(area_grid.data[r - r0, c - c0] - v) < 1e-12
            if not ok:
                res.fail('intersect weights differ from count x area ratio', dict(nrows=nr, ncols=nc, flowdir=fd, cells=cells, coarse=[gg.nrows, gg.ncols, gg.xllcorner, gg.yllcorner, csz], got=got, expected=exp))
        for npts in (1, 2, 3, 6):
            pts = [[rng.choice([-0.5, 0.5, 1.5, 2.5, 1.0, 7.0]), rng.choice([-0.5, 0.5, 1.5, 2.5, 2.0])] for _ in range(npts)]
            res.case((nr, nc, tuple(fd), tuple(cells), tuple(map(tuple, pts))))
            w = quiet(G.voronoi, ca, np.array(pts))
            cnt = [0] * npts
            for x, y in xy:
                d2 = [Fraction(x - px) ** 2 + Fraction(y - py) ** 2 for px, py in pts]
                cnt[d2.index(min(d2))] += 1
            if not (np.all(w >= 0) and abs(w.sum() - 1) < 1e-12 and np.allclose(w, np.array(cnt) / len(xy), atol=1e-12)):
                res.fail('voronoi weights %s, expected %s' % (w.tolist(), [c / len(xy) for c in cnt]), dict(nrows=nr, ncols=nc, flowdir=fd, cells=cells, points=pts))
    return res
