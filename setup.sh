#!/bin/bash
# Builds the overlay venv /verif/.venv (python 3.12 of /venv + z3-solver, icontract, jsonschema from the offline wheelhouse).
set -e
cd "$(dirname "$0")"
if [ -x .venv/bin/python ] && .venv/bin/python -c "import z3, icontract, numpy, jsonschema" 2>/dev/null; then
  echo "setup: .venv already usable"; exit 0
fi
rm -rf .venv
/venv/bin/python -m venv .venv --without-pip
echo "import site; site.addsitedir('/venv/lib/python3.12/site-packages')" > .venv/lib/python3.12/site-packages/_base.pth
PIP_NO_INDEX=1 /venv/bin/python -m pip --python .venv/bin/python install --quiet --no-index --find-links /opt/veriftools/wheels z3-solver icontract jsonschema cvc5
.venv/bin/python -c "import z3, icontract, numpy, jsonschema; print('setup: ok z3', z3.get_version_string())"
