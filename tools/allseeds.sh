#!/bin/bash
# allseeds.sh: regression over the seeded changes: each patch is applied to /repo, the check of its property must exit 1 with a VIOLATION line, /repo is restored
cd /verif
export VERIF_NO_EVIDENCE=1
if ! git -C /repo diff --quiet; then echo "/repo has uncommitted changes"; exit 9; fi
ok=0; n=0
for d in seeded/*/; do
  id=$(basename $d); prop=$(.venv/bin/python -c "import json;print(json.load(open('$d/meta.json'))['property'])")
  n=$((n+1))
  if ! git -C /repo apply --check --whitespace=nowarn /verif/$d/patch.diff 2>/dev/null; then echo "$id ($prop): patch no longer applies"; continue; fi
  git -C /repo apply --whitespace=nowarn /verif/$d/patch.diff
  out=$(timeout 1800 ./vcheck $prop quick 2>&1); rc=$?
  git -C /repo checkout -- .
  nv=$(echo "$out" | grep -c "^VIOLATION")
  if [ $rc -eq 1 ] && [ $nv -ge 1 ]; then ok=$((ok+1)); echo "$id ($prop): detected ($nv violation lines)"; else echo "$id ($prop): NOT detected (exit $rc): $(echo "$out" | tail -1 | cut -c1-200)"; fi
done
rm -rf /repo/src/hydrodiy/io/tests/run_scripts
echo "detected $ok of $n"
