#!/bin/bash
# Runs the repository's pinned test-suite (guard off: there is no hook in /repo) and compares with BASELINE.json
cd /repo && /venv/bin/python -m pytest -ra -q -p no:cacheprovider --timeout=900 --continue-on-collection-errors --junitxml=/tmp/vf_baseline.xml > /tmp/vf_baseline.log 2>&1
/venv/bin/python - <<'PY'
import json, xml.etree.ElementTree as ET
base=set(json.load(open('/root/.vp/BASELINE.json'))['stable_pass'])
ok=set()
for tc in ET.parse('/tmp/vf_baseline.xml').getroot().iter('testcase'):
    if not any(c.tag in('failure','error','skipped') for c in tc):
        ok.add(tc.get('classname')+'::'+tc.get('name'))
missing=sorted(base-ok)
print('baseline: %d/%d stable tests pass'%(len(base&ok),len(base)))
for m in missing: print('  MISSING',m)
raise SystemExit(1 if missing else 0)
PY
