#!/bin/bash
# confirmseed.sh <worktree>: demo fails with the change, passes without it; the pinned baseline tests still pass with it
wt=$1
cd $wt
rm -rf src/hydrodiy/io/tests/run_scripts
export PYTHONPATH=$wt/src
./build_ext.sh >/dev/null 2>&1
/venv/bin/python _seed/demo.py >/dev/null 2>&1; with=$?
git diff > /tmp/confirm_$(basename $wt).diff
# (no git stash here: the stash is shared by all worktrees of a repository)
git checkout -- . ; ./build_ext.sh >/dev/null 2>&1
/venv/bin/python _seed/demo.py >/dev/null 2>&1; without=$?
git apply --whitespace=nowarn /tmp/confirm_$(basename $wt).diff; ./build_ext.sh >/dev/null 2>&1
/venv/bin/python -m pytest -q -p no:cacheprovider --timeout=900 --continue-on-collection-errors --junitxml=/tmp/confirm_$(basename $wt).xml src/hydrodiy >/dev/null 2>&1
rm -rf src/hydrodiy/io/tests/run_scripts
/venv/bin/python - <<PY
import json, xml.etree.ElementTree as ET
base=set(json.load(open('/root/.vp/BASELINE.json'))['stable_pass'])
ok=set()
for tc in ET.parse('/tmp/confirm_$(basename $wt).xml').getroot().iter('testcase'):
    if not any(c.tag in('failure','error','skipped') for c in tc):
        ok.add(tc.get('classname')+'::'+tc.get('name'))
print('$(basename $wt): demo with change exit=$with, without exit=$without, baseline %d/%d stable tests pass'%(len(base&ok),len(base)), sorted(base-ok)[:3])
PY
