"""dumpvc.py <relpath> <function> <id-substring> [outfile]: write the SMT-LIB text of matching VCs"""
import sys, importlib
sys.path.insert(0, '/verif')
for m in ('c_grid', 'c_catchment', 'c_inside', 'c_data', 'c_stat'):
    try: importlib.import_module('contracts.' + m)
    except ImportError: pass
from vf import cproof, solve
rel, fn, pat = sys.argv[1:4]
solve.NPROC = 1
cproof.load_tus([rel])
from props import common as cm
g = cproof._gen((rel, fn, cm.fdc_consts(), 10000))
if not g['ok']:
    print(g); sys.exit(1)
n = 0
for v in g['vcs']:
    if pat in v['id'] and v.get('smt2'):
        out = (sys.argv[4] if len(sys.argv) > 4 else '/tmp/feas/vc') + ('_%d.smt2' % n)
        open(out, 'w').write(v['smt2']); print(v['id'], '->', out, v['note'][:100]); n += 1
