"""Writes MANIFEST.json from the table below (kept in one place so that it is always valid)."""
import json, os
HERE = os.path.dirname(os.path.dirname(os.path.abspath(__file__)))
CHECKS = json.load(open(os.path.join(HERE, 'tools', 'checks.json')))
man = dict(
    version=1,
    setup_cmd="./setup.sh",
    hooks=dict(guard="HYDRODIY_VERIF", enable="no hook exists in /repo: contracts are sidecar files under /verif/contracts, monitors wrap the real functions from outside, kernels are compiled from the working tree into scratch directories",
               baseline_off_cmd="cd /repo && /venv/bin/python -m pytest -ra -q -p no:cacheprovider --timeout=900 --continue-on-collection-errors",
               source_commits=[], add_only=True),
    engines=[
        dict(name="engine-c", path="vf/engc.py", serves_properties=CHECKS['engine_c'],
             kind_free_text="verification-condition generator over the clang JSON AST of the real C kernels (sidecar contracts, loop invariants, calls by contract), discharged by z3 5.1 / cvc5 / z3 4.8"),
        dict(name="harness", path="vf/harness.py", serves_properties=CHECKS['engine_c'],
             kind_free_text="generated C driver linked with the real kernel files under clang ASan+UBSan: replay of counter-models, bounded refuter"),
        dict(name="contract-monitor", path="vf/child.py", serves_properties=CHECKS.get('monitor_only', []),
             kind_free_text="run-time evaluation of sidecar contracts on the real Python functions over a bounded family of inputs, in a child process (bounded stand-in, never counted as proved)"),
        dict(name="engine-p", path="vf/engp.py", serves_properties=CHECKS.get('engine_p', []),
             kind_free_text="path-forking symbolic execution of the real Python functions by CPython on symbolic reals (sidecar contracts in contracts/py_*.py and props/), one VC per path, discharged by z3 / cvc5"),
    ],
    checks=[], notes=CHECKS.get('notes', ''), not_applicable=CHECKS.get('not_applicable', []))
for c in CHECKS['checks']:
    pid = c['id']
    man['checks'].append(dict(
        property_id=pid, quick_cmd="./vcheck %s quick" % pid, thorough_cmd="./vcheck %s thorough" % pid,
        evidence_file="evidence/%s.json" % pid, replay_cmd_template="./vcheck --replay {path}", engine=c.get('engine', 'engine-c'),
        level_claimed=dict(category=c['category'], text=c['text'], design_ref=c.get('design_ref', 'DESIGN.md section 8, ' + pid)),
        level_note=c['note'], technique=c['technique']))
json.dump(man, open(os.path.join(HERE, 'MANIFEST.json'), 'w'), indent=1)
print('MANIFEST.json written: %d checks, %d not applicable' % (len(man['checks']), len(man['not_applicable'])))
