#!/bin/bash
# mkworktree.sh <name>: scratch git worktree of /repo at HEAD under /tmp/wt/<name>, with the generated Cython C files
# copied in and the extension modules built in place (so that the repository's tests run against the worktree).
set -e
name=$1
wt=/tmp/wt/$name
mkdir -p /tmp/wt
git -C /repo worktree add -q --detach $wt HEAD
for d in data stat gis; do cp /repo/src/hydrodiy/$d/c_hydrodiy_$d.c $wt/src/hydrodiy/$d/; done
cat > $wt/build_ext.sh <<'EOS'
#!/bin/bash
# Rebuilds the three extension modules of THIS worktree in place (src/*.so) from the generated c_hydrodiy_*.c and the
# current hand-written kernels.  Cython is not installed: do not edit the .pyx files (they cannot be re-translated).
# Run the tests with:  cd <worktree> && PYTHONPATH=$PWD/src /venv/bin/python -m pytest -q -p no:cacheprovider <test files>
set -e
cd "$(dirname "$0")"
PY=/venv/bin/python
INC=$($PY -c "import sysconfig;print(sysconfig.get_paths()['include'])")
NPI=$($PY -c "import numpy;print(numpy.get_include())")
SUF=$($PY -c "import sysconfig;print(sysconfig.get_config_var('EXT_SUFFIX'))")
build() { name=$1; dir=$2; shift 2; gcc -shared -fPIC -O2 -fwrapv -w -I$INC -I$NPI -I$dir $(for f in "$@"; do echo $dir/$f; done) -o src/$name$SUF -lm; }
build c_hydrodiy_data src/hydrodiy/data c_hydrodiy_data.c c_dateutils.c c_qualitycontrol.c c_dutils.c c_var2h.c c_baseflow.c &
build c_hydrodiy_stat src/hydrodiy/stat c_hydrodiy_stat.c c_crps.c c_dscore.c c_olsleverage.c c_armodels.c ADinf.c AnDarl.c c_andersondarling.c c_paretofront.c &
build c_hydrodiy_gis src/hydrodiy/gis c_hydrodiy_gis.c c_grid.c c_catchment.c c_points_inside_polygon.c &
wait
echo "extensions rebuilt in $PWD/src"
EOS
chmod +x $wt/build_ext.sh
$wt/build_ext.sh >/dev/null
echo $wt
