#!/bin/bash
# Rebuild the three extension modules of /repo in place (src/*.so, git-ignored build products) from the
# generated c_hydrodiy_*.c (Cython is not installed) and the CURRENT hand-written kernels, so that the
# repository's own test-suite exercises the working tree after a `fix:` commit to a .c file.
set -e
cd /repo
PY=/venv/bin/python
INC=$($PY -c "import sysconfig;print(sysconfig.get_paths()['include'])")
NPI=$($PY -c "import numpy;print(numpy.get_include())")
SUF=$($PY -c "import sysconfig;print(sysconfig.get_config_var('EXT_SUFFIX'))")
build() { # name dir files...
  name=$1; dir=$2; shift 2
  gcc -shared -fPIC -O2 -fwrapv -w -I$INC -I$NPI -I$dir $(for f in "$@"; do echo $dir/$f; done) -o src/$name$SUF -lm
}
build c_hydrodiy_data src/hydrodiy/data c_hydrodiy_data.c c_dateutils.c c_qualitycontrol.c c_dutils.c c_var2h.c c_baseflow.c &
build c_hydrodiy_stat src/hydrodiy/stat c_hydrodiy_stat.c c_crps.c c_dscore.c c_olsleverage.c c_armodels.c ADinf.c AnDarl.c c_andersondarling.c c_paretofront.c &
build c_hydrodiy_gis src/hydrodiy/gis c_hydrodiy_gis.c c_grid.c c_catchment.c c_points_inside_polygon.c &
wait
echo rebuilt
