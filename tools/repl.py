"""repl.py <file> <old-file> <new-file>: exact replacement preserving the file's line endings (CRLF kernels)."""
import sys
path, oldf, newf = sys.argv[1:4]
data = open(path, 'rb').read()
crlf = b'\r\n' in data
old = open(oldf, 'rb').read(); new = open(newf, 'rb').read()
if crlf:
    old = old.replace(b'\r\n', b'\n').replace(b'\n', b'\r\n'); new = new.replace(b'\r\n', b'\n').replace(b'\n', b'\r\n')
if data.count(old) != 1:
    sys.exit('old text found %d times' % data.count(old))
open(path, 'wb').write(data.replace(old, new))
print('replaced (%s)' % ('CRLF' if crlf else 'LF'))
