#!/bin/bash
# runall.sh [tier]: every claimed check on the current (clean) tree, one after the other; summary at the end
cd /verif
if ! git -C /repo diff --quiet; then echo "/repo has uncommitted changes"; exit 9; fi
tier=${1:-quick}
ids=$(.venv/bin/python -c "import json;print(' '.join(c['property_id'] for c in json.load(open('MANIFEST.json'))['checks']))")
rc=0
for p in $ids; do
  out=$(./vcheck $p $tier 2>&1 | grep -E "VIOLATION|UNDECIDED|CHECKER-BROKEN|KNOWN-FINDING|-> exit" | cut -c1-300)
  echo "$out" | tail -4
  echo "$out" | grep -q -- "-> exit 0" || rc=1
done
rm -rf /repo/src/hydrodiy/io/tests/run_scripts
exit $rc
