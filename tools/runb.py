"""runb.py <relpath> <function> <generator>: bounded differential run of one kernel (real code under ASan/UBSan vs contract)"""
import sys, importlib, random, time
sys.path.insert(0, '/verif')
for m in ('c_grid', 'c_catchment', 'c_inside', 'c_data', 'c_stat'):
    try: importlib.import_module('contracts.' + m)
    except ImportError: pass
from vf import contract, judge
from vf.harness import Harness, group_of
from props import common as cm
rel, fn, gen = sys.argv[1:4]
tier = sys.argv[4] if len(sys.argv) > 4 else 'quick'
cf = contract.REGISTRY[rel]; K = cf.kernels[fn]
h = Harness(group_of(rel)); sig = h.sigs[fn.split('#')[0]]
consts = cm.fdc_consts()
cases = getattr(cm, gen)(random.Random(0), tier)
t = time.time()
adm = [a for a in cases if judge.admissible(K, cf.specs, sig, a, consts)]
res = h.run([(fn.split('#')[0], a) for a in adm])
nbad = 0
for a, r in zip(adm, res):
    bad = judge.judge(K, cf.specs, sig, a, r, consts)
    if bad:
        nbad += 1
        if nbad <= 4:
            print('FAIL args=', str(a)[:500]); print('   ret', r.get('ret'), str(r.get('arrays'))[:300])
            for b in bad[:3]: print('   ', b[0], b[1][:200], '|', str(b[2])[:300])
print('%s: %d cases, %d admissible, %d failing, %.1fs' % (fn, len(cases), len(adm), nbad, time.time() - t))
h.close()
