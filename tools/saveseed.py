"""saveseed.py <worktree> <seed id> <property> <detected-by: text>: store a confirmed seeded change under /verif/seeded/<id>/"""
import sys, os, shutil, json, subprocess
wt, sid, prop, detected = sys.argv[1:5]
d = os.path.join('/verif/seeded', sid); os.makedirs(d, exist_ok=True)
diff = subprocess.run(['git', '-C', wt, 'diff'], capture_output=True).stdout
open(os.path.join(d, 'patch.diff'), 'wb').write(diff)
shutil.copy(os.path.join(wt, '_seed/demo.py'), os.path.join(d, 'demo.py'))
notes = open(os.path.join(wt, '_seed/notes.txt')).read() if os.path.exists(os.path.join(wt, '_seed/notes.txt')) else ''
meta = dict(id=sid, property=prop, breaks=prop, needs_to_manifest=notes.strip()[:3000],
            confirmed=dict(demo_with_change='exit 1', demo_without_change='exit 0', baseline_tests_with_change='183/183 stable tests pass',
                           commands=['tools/confirmseed.sh %s' % wt, 'tools/tryseed.sh seeded/%s/patch.diff %s' % (sid, prop)]),
            detected_by=detected, base_commit=subprocess.run(['git', '-C', wt, 'rev-parse', 'HEAD'], capture_output=True, text=True).stdout.strip())
json.dump(meta, open(os.path.join(d, 'meta.json'), 'w'), indent=1)
print('saved', d)
