"""snaplocals.py: records, for every C function under contract, its parameters and local variables in declaration order with their types
(contracts/locals.json).  The contracts name loop-carried locals; when a later version of the code only RENAMES a parameter or a local (same
position, same type, same number of declarations) the checks map the recorded name to the new one instead of failing (vf/cproof.py)."""
import sys, json, os
sys.path.insert(0, os.path.dirname(os.path.dirname(os.path.abspath(__file__))))
from vf import cast, contract, cproof
from props import common as cm
cm.load_contracts()
out = {}
for rel, cf in contract.REGISTRY.items():
    tu = cast.load(rel)
    fns = sorted({k.split('#')[0] for k in cf.kernels})
    out[rel] = {f: cproof.decl_list(tu['functions'][f]) for f in fns if f in tu['functions']}
    out[rel].update({'#npar:' + f: len(cast.params_of(tu['functions'][f])) for f in fns if f in tu['functions']})
loops = {}
for rel, cf in contract.REGISTRY.items():
    tu = cast.load(rel)
    fns = sorted({k.split('#')[0] for k in cf.kernels})
    loops[rel] = {f: cproof.loop_kinds(tu['functions'][f]) for f in fns if f in tu['functions']}
out['#loops'] = loops
json.dump(out, open(os.path.join(os.path.dirname(os.path.dirname(os.path.abspath(__file__))), 'contracts', 'locals.json'), 'w'), indent=1)
print({r: len(v) for r, v in out.items() if not r.startswith('#')})
