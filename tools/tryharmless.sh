#!/bin/bash
# tryharmless.sh <patch file> <prop> [<prop> ...]: apply a behaviour-preserving change to /repo, run the quick checks (all must exit 0), undo it
patch=$1; shift
export VERIF_NO_EVIDENCE=1
cd /repo
if ! git diff --quiet; then echo "/repo has uncommitted changes"; exit 9; fi
git apply --whitespace=nowarn "$patch" || { echo "patch does not apply"; exit 9; }
bad=0
for p in "$@"; do
  out=$(cd /verif && timeout 2400 ./vcheck $p quick 2>&1); rc=$?
  echo "$out" | grep -E "VIOLATION|UNDECIDED|CHECKER-BROKEN" | cut -c1-300 | head -4
  echo "$out" | tail -1 | cut -c1-160
  [ $rc -eq 0 ] || bad=1
done
git -C /repo checkout -- .
rm -rf /repo/src/hydrodiy/io/tests/run_scripts
[ $bad -eq 0 ] && echo "ALL QUIET" || echo "ALARM OR UNDECIDED ON A HARMLESS CHANGE"
