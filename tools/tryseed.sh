#!/bin/bash
# tryseed.sh <patch file> <prop> [<prop> ...]: apply a seeded change to /repo, run the quick checks, undo it straight afterwards
patch=$1; shift
export VERIF_NO_EVIDENCE=1
cd /repo
if ! git diff --quiet; then echo "/repo has uncommitted changes"; exit 9; fi
git apply --whitespace=nowarn "$patch" || { echo "patch does not apply"; exit 9; }
for p in "$@"; do
  (cd /verif && timeout 1500 ./vcheck $p ${TIER:-quick} 2>&1 | grep -E "VIOLATION|UNDECIDED|CHECKER-BROKEN|KNOWN-FINDING|-> exit" | cut -c1-330)
done
git -C /repo checkout -- .
git -C /repo status --short | grep -v run_scripts
