"""hydrodiy contract verification framework (see /verif/DESIGN.md)."""
import os
REPO = os.environ.get('VERIF_REPO', '/repo')
VERIF = os.path.dirname(os.path.dirname(os.path.abspath(__file__)))
