"""Extraction of the typed clang AST of the real kernel files (re-read on every run).

`load(path)` runs `clang -Xclang -ast-dump=json -fsyntax-only` on the C file of the
working tree and returns {function name: FunctionDecl node} for every function
*defined* in that file, plus file-level statics/macros that matter.  Nothing is
rewritten: the walker of engc.py consumes these nodes directly.
"""
import json, os, subprocess, hashlib
from . import REPO

KEEP = ('kind', 'name', 'opcode', 'castKind', 'value', 'isPostfix', 'storageClass',
        'type', 'referencedDecl', 'inner', 'range', 'loc', 'init', 'argType', 'valueCategory',
        'computeLHSType', 'computeResultType')


def _slim(n):
    if isinstance(n, list):
        return [_slim(x) for x in n]
    if not isinstance(n, dict):
        return n
    d = {}
    for k in KEEP:
        if k in n:
            v = n[k]
            if k == 'type' or k == 'argType' or k.startswith('compute'):
                d[k] = v.get('qualType') if isinstance(v, dict) else v
            elif k == 'referencedDecl':
                d['ref'] = v.get('name'); d['refkind'] = v.get('kind')
                d['reftype'] = (v.get('type') or {}).get('qualType')
            elif k == 'range':
                b = v.get('begin', {})
                line = b.get('line', b.get('spellingLoc', {}).get('line', b.get('expansionLoc', {}).get('line')))
                if line is not None:
                    d['line'] = line
            elif k == 'loc':
                line = v.get('line', v.get('spellingLoc', {}).get('line'))
                if line is not None:
                    d['locline'] = line
            elif k == 'inner':
                d['inner'] = [_slim(x) for x in v]
            else:
                d[k] = v
    return d


def _fill_lines(n, cur):
    """clang omits 'line' when unchanged from the previous node: propagate."""
    if isinstance(n, dict):
        if 'line' in n:
            cur = n['line']
        else:
            n['line'] = cur
        for c in n.get('inner', []):
            cur = _fill_lines(c, cur)
    return cur


def load(relpath, repo=None):
    """-> dict(functions={name: node}, src=sha, path=abs)"""
    repo = repo or REPO
    path = os.path.join(repo, relpath)
    inc = os.path.dirname(path)
    out = subprocess.run(['clang', '-Xclang', '-ast-dump=json', '-fsyntax-only', '-I', inc, path],
                         capture_output=True, text=True)
    if out.returncode != 0 or not out.stdout:
        raise RuntimeError('clang failed on %s: %s' % (path, out.stderr[:2000]))
    tu = json.loads(out.stdout)
    funcs = {}
    protos = {}
    # clang prints a location's "file" only when it differs from the previously printed
    # one (in dump order: loc, range.begin, range.end, children).  Replay that state to
    # know in which file each top-level declaration starts.
    state = {'file': None}

    def see(l):
        if not isinstance(l, dict):
            return
        if 'spellingLoc' in l or 'expansionLoc' in l:
            see(l.get('spellingLoc')); see(l.get('expansionLoc')); return
        if 'file' in l:
            state['file'] = l['file']

    def track(n):
        if not isinstance(n, dict):
            return
        see(n.get('loc'))
        r = n.get('range')
        if r:
            see(r.get('begin')); see(r.get('end'))
        for c in n.get('inner', []):
            track(c)

    apath = os.path.abspath(path)
    for n in tu['inner']:
        see(n.get('loc'))
        here = state['file'] is not None and os.path.abspath(state['file']) == apath
        r = n.get('range')
        if r:
            see(r.get('begin')); see(r.get('end'))
        for c in n.get('inner', []):
            track(c)
        if n.get('kind') != 'FunctionDecl':
            continue
        has_body = any(isinstance(c, dict) and c.get('kind') == 'CompoundStmt' for c in n.get('inner', []))
        if has_body and here:
            sl = _slim(n)
            _fill_lines(sl, sl.get('line', 0))
            funcs[n['name']] = sl
        else:
            params = [(p.get('name', ''), p['type']['qualType']) for p in n.get('inner', []) if isinstance(p, dict) and p.get('kind') == 'ParmVarDecl']
            protos.setdefault(n['name'], dict(ret=n['type']['qualType'].split('(')[0].strip(), params=params))
    src = hashlib.sha256(open(path, 'rb').read()).hexdigest()[:16]
    return dict(functions=funcs, protos=protos, sha=src, path=path, relpath=relpath)


def params_of(fn):
    return [(p['name'], p['type']) for p in fn.get('inner', []) if p.get('kind') == 'ParmVarDecl']


def ret_type(fn):
    return fn['type'].split('(')[0].strip()


def body_of(fn):
    return [c for c in fn['inner'] if c.get('kind') == 'CompoundStmt'][0]
