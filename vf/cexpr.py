"""Contract expressions: one text, two interpreters.

SymEnv  -> z3 terms in a symbolic state of engc.py (used for VCs)
ConcEnv -> exact concrete evaluation (Fractions, Python ints, NaN) on concrete memories
           (used by the refuter and by replay to judge what the real kernel returned)

Semantics of the expression language (Python syntax):
  ints are mathematical, reals are mathematical; a double-valued term is (nan flag, real).
  `a == b` on two doubles: both NaN, or both non-NaN and equal; double vs number: non-NaN and equal.
  arithmetic on a double uses its real value (guard with isnan() where NaN is possible).
  `//` and `%` are floor division / modulo with a positive divisor (math, not C truncation).
  forall(k, lo <= k < hi, body) / exists(...); implies, iff, ite, old, valid, len, isnan, floor,
  abs, min, max, sqrt, real.  Names: quantified variables, `result`, parameters, locals.
"""
import ast, math, itertools
from fractions import Fraction
import z3

I = z3.IntSort(); R = z3.RealSort(); B = z3.BoolSort()
_cnt = itertools.count()


def fresh(name, sort):
    return z3.Const('%s!%d' % (name, next(_cnt)), sort)


class D:
    """double = (nan flag, real value)"""
    __slots__ = ('nan', 'val')

    def __init__(self, nan, val):
        self.nan = nan; self.val = val


class BI:
    """C int holding the result of a comparison / logical operator (0 or 1)"""
    __slots__ = ('c',)

    def __init__(self, c):
        self.c = c


class Region:
    def __init__(self, name, elt, length, kind='param'):
        self.name = name; self.elt = elt; self.length = length; self.kind = kind


class Ptr:
    __slots__ = ('region', 'off', 'null', 'inner')

    def __init__(self, region, off, null=None, inner=1):
        self.region = region; self.off = off
        self.null = z3.BoolVal(False) if null is None else null
        self.inner = inner      # >1: pointer to rows of `inner` elements


def dconst(v):
    return D(z3.BoolVal(False), z3.RealVal(v))


def toint(v):
    return z3.If(v.c, z3.IntVal(1), z3.IntVal(0)) if isinstance(v, BI) else v


def toreal(v):
    if isinstance(v, D):
        return v.val
    v = toint(v)
    if isinstance(v, (int,)):
        return z3.RealVal(v)
    if z3.is_int(v):
        return z3.ToReal(v)
    return v


def parse(txt):
    return ast.parse(txt.strip(), mode='eval').body


_PARSE_CACHE = {}


def parsec(txt):
    n = _PARSE_CACHE.get(txt)
    if n is None:
        n = _PARSE_CACHE[txt] = parse(txt)
    return n


class ContractError(Exception):
    pass


# ---------------------------------------------------------------------------------------
class SymEnv:
    def __init__(self, gen, st, binds=None, old=None, result=None, goal=False):
        self.g = gen; self.st = st; self.b = dict(binds or {}); self.old = old; self.result = result
        # fuel of recursive ghost functions (Dafny-style): terms of a GOAL unfold twice, assumed terms once
        self.goal = goal
        self.labels = {}

    def sub(self, **kw):
        e = SymEnv(self.g, self.st, self.b, self.old, self.result, self.goal)
        e.labels = self.labels
        e.b.update(kw); return e

    def eval(self, txt):
        return self.e(parsec(txt))

    def boolean(self, txt):
        v = self.eval(txt)
        return self.tobool(v)

    def tobool(self, v):
        if isinstance(v, BI):
            return v.c
        if isinstance(v, bool):
            return z3.BoolVal(v)
        if z3.is_bool(v):
            return v
        if isinstance(v, D):
            raise ContractError('double used as boolean')
        return v != 0

    def num(self, v):
        if isinstance(v, D):
            return v.val
        if isinstance(v, BI):
            return toint(v)
        if isinstance(v, bool):
            raise ContractError('bool used as number')
        if isinstance(v, int):
            return z3.IntVal(v)
        if isinstance(v, float):
            return z3.RealVal(repr(v))
        return v

    def assigns_spec(self, txt):
        n = parsec(txt)
        if isinstance(n, ast.Subscript) and isinstance(n.slice, ast.Slice):
            p = self.e(n.value)
            lo = self.num(self.e(n.slice.lower)) if n.slice.lower else z3.IntVal(0)
            hi = self.num(self.e(n.slice.upper))
            return (p.region.name, p.off + lo, p.off + hi)
        if isinstance(n, ast.Subscript):
            p = self.e(n.value); i = self.num(self.e(n.slice))
            return (p.region.name, p.off + i, p.off + i + 1)
        raise ContractError('assigns: ' + txt)

    def mem_read(self, p, idx):
        m = self.st.mem[p.region.name]
        if p.region.elt == 'double':
            return D(z3.Select(m[0], p.off + idx), z3.Select(m[1], p.off + idx))
        return z3.Select(m, p.off + idx)

    def eq(self, a, b):
        if isinstance(a, D) and isinstance(b, D):
            return z3.Or(z3.And(a.nan, b.nan), z3.And(z3.Not(a.nan), z3.Not(b.nan), a.val == b.val))
        if isinstance(a, D):
            return z3.And(z3.Not(a.nan), a.val == toreal(self.num(b)))
        if isinstance(b, D):
            return z3.And(z3.Not(b.nan), b.val == toreal(self.num(a)))
        if isinstance(a, Ptr) or isinstance(b, Ptr):
            raise ContractError('pointer comparison in contract')
        if z3.is_bool(a) or z3.is_bool(b) or isinstance(a, (BI, bool)) or isinstance(b, (BI, bool)):
            return self.tobool(a) == self.tobool(b)
        a = self.num(a); b = self.num(b)
        if a.sort() != b.sort():
            a = toreal(a); b = toreal(b)
        return a == b

    def e(self, n):
        if isinstance(n, ast.Constant):
            v = n.value
            if isinstance(v, bool):
                return z3.BoolVal(v)
            if isinstance(v, int):
                return z3.IntVal(v)
            if isinstance(v, float):
                return z3.RealVal(repr(v))
            raise ContractError('constant %r' % (v,))
        if isinstance(n, ast.Name):
            if n.id in self.b:
                return self.b[n.id]
            if n.id == 'result':
                return self.result
            if n.id == 'True':
                return z3.BoolVal(True)
            if n.id in self.st.vars:
                return self.st.vars[n.id]
            if n.id in self.g.consts:
                return self.g.consts[n.id]
            raise ContractError('unknown name %s' % n.id)
        if isinstance(n, ast.BoolOp):
            vs = [self.tobool(self.e(v)) for v in n.values]
            return (z3.And if isinstance(n.op, ast.And) else z3.Or)(*vs)
        if isinstance(n, ast.UnaryOp):
            v = self.e(n.operand)
            if isinstance(n.op, ast.Not):
                return z3.Not(self.tobool(v))
            if isinstance(n.op, ast.USub):
                return -self.num(v)
            if isinstance(n.op, ast.UAdd):
                return self.num(v)
        if isinstance(n, ast.BinOp):
            a = self.num(self.e(n.left)); b = self.num(self.e(n.right))
            if isinstance(n.op, ast.Pow):
                if z3.is_int_value(a) and z3.is_int_value(b):
                    return z3.IntVal(a.as_long() ** b.as_long())
                if z3.is_int_value(b) and 0 <= b.as_long() <= 4:
                    r = z3.RealVal(1) if a.sort() == R else z3.IntVal(1)
                    for _ in range(b.as_long()):
                        r = r * a
                    return r
                raise ContractError('pow')
            if isinstance(n.op, (ast.FloorDiv, ast.Mod)):
                if a.sort() != I or b.sort() != I:
                    raise ContractError('// and % are integer operators')
                return a / b if isinstance(n.op, ast.FloorDiv) else a % b     # z3 Int div/mod: floor for b>0
            if a.sort() != b.sort() or isinstance(n.op, ast.Div):
                a = toreal(a); b = toreal(b)
            if isinstance(n.op, ast.Add):
                return a + b
            if isinstance(n.op, ast.Sub):
                return a - b
            if isinstance(n.op, ast.Mult):
                if a.sort() == R and getattr(self.g, 'uf_mul', False):
                    return self.g.rmul(a, b)
                return a * b
            if isinstance(n.op, ast.Div):
                if getattr(self.g, 'uf_mul', False):
                    return self.g.rdiv(a, b)
                return a / b
        if isinstance(n, ast.Compare):
            items = [self.e(n.left)] + [self.e(c) for c in n.comparators]; out = []
            for op, a, b in zip(n.ops, items, items[1:]):
                if isinstance(op, ast.Eq):
                    out.append(self.eq(a, b)); continue
                if isinstance(op, ast.NotEq):
                    out.append(z3.Not(self.eq(a, b))); continue
                nanfree = [z3.Not(x.nan) for x in (a, b) if isinstance(x, D)]
                a = self.num(a); b = self.num(b)
                if a.sort() != b.sort():
                    a = toreal(a); b = toreal(b)
                c = {ast.Lt: a < b, ast.LtE: a <= b, ast.Gt: a > b, ast.GtE: a >= b}[type(op)]
                out.append(z3.And(*nanfree, c) if nanfree else c)
            return z3.And(*out) if len(out) > 1 else out[0]
        if isinstance(n, ast.Subscript):
            p = self.e(n.value); idx = self.num(self.e(n.slice))
            if not isinstance(p, Ptr):
                raise ContractError('subscript of non-pointer')
            return self.mem_read(p, idx)
        if isinstance(n, ast.IfExp):
            return self.ite(self.tobool(self.e(n.test)), self.e(n.body), self.e(n.orelse))
        if isinstance(n, ast.Call):
            return self.call(n)
        raise ContractError('unsupported expression ' + ast.dump(n))

    def ite(self, c, a, b):
        if isinstance(a, D) or isinstance(b, D):
            if not isinstance(a, D):
                a = D(z3.BoolVal(False), toreal(self.num(a)))
            if not isinstance(b, D):
                b = D(z3.BoolVal(False), toreal(self.num(b)))
            return D(z3.If(c, a.nan, b.nan), z3.If(c, a.val, b.val))
        if z3.is_bool(a) or isinstance(a, BI):
            return z3.If(c, self.tobool(a), self.tobool(b))
        a = self.num(a); b = self.num(b)
        if a.sort() != b.sort():
            a = toreal(a); b = toreal(b)
        return z3.If(c, a, b)

    def quant(self, n, universal):
        # nested quantifiers of the same kind are flattened into one multi-variable quantifier
        # (E-matching cannot find triggers across nested binders)
        vs = []; rngs = []; e2 = self; cur = n; fname = 'forall' if universal else 'exists'
        while True:
            var = cur.args[0].id
            v = z3.Int('%s!q%d' % (var, next(_cnt)))
            e2 = e2.sub(**{var: v}); vs.append(v)
            rngs.append(e2.tobool(e2.e(cur.args[1])))
            pats_src = cur.args[3:]
            body_n = cur.args[2]
            if isinstance(body_n, ast.Call) and isinstance(body_n.func, ast.Name) and body_n.func.id == fname and not pats_src:
                cur = body_n; continue
            break
        body = e2.tobool(e2.e(body_n))
        pats = []
        for p in pats_src:
            if isinstance(p, ast.Call) and isinstance(p.func, ast.Name) and p.func.id == 'mp':
                ts = [e2.e(a) for a in p.args]
                pats.append(z3.MultiPattern(*[t.val if isinstance(t, D) else t for t in ts]))
            else:
                t = e2.e(p)
                pats.append(t.val if isinstance(t, D) else t)
        kw = dict(patterns=pats) if pats else {}
        rng = z3.And(*rngs) if len(rngs) > 1 else rngs[0]
        if universal:
            return z3.ForAll(vs, z3.Implies(rng, body), **kw)
        return z3.Exists(vs, z3.And(rng, body), **kw)

    def call(self, n):
        f = n.func.id; A = n.args
        if f == 'forall':
            return self.quant(n, True)
        if f == 'exists':
            return self.quant(n, False)
        if f == 'old':
            if self.old is None:
                raise ContractError('old() without entry state')
            return SymEnv(self.g, self.old, self.b, self.old, self.result, self.goal).e(A[0])
        if f == 'at_iter_start':
            if 'iter' not in self.labels:
                raise ContractError('at_iter_start() is only available in loop hints')
            e2 = SymEnv(self.g, self.labels['iter'], self.b, self.old, self.result, self.goal)
            return e2.e(A[0])
        if f == 'at_loop_entry':
            if 'loop' not in self.labels:
                raise ContractError('at_loop_entry() outside a loop invariant')
            e2 = SymEnv(self.g, self.labels['loop'], self.b, self.old, self.result, self.goal)
            return e2.e(A[0])
        if f == 'implies':
            return z3.Implies(self.tobool(self.e(A[0])), self.tobool(self.e(A[1])))
        if f == 'iff':
            return self.tobool(self.e(A[0])) == self.tobool(self.e(A[1]))
        if f == 'ite':
            return self.ite(self.tobool(self.e(A[0])), self.e(A[1]), self.e(A[2]))
        if f == 'valid':
            p = self.e(A[0]); nn = self.num(self.e(A[1]))
            return z3.And(z3.Not(p.null), p.off >= 0, p.region.length >= p.off + nn)
        if f == 'len':
            p = self.e(A[0]); return p.region.length - p.off
        if f == 'separated':
            ps = [self.e(a) for a in A]
            names = [p.region.name for p in ps]
            return z3.BoolVal(len(set(names)) == len(names))
        if f == 'isnan':
            v = self.e(A[0])
            if not isinstance(v, D):
                raise ContractError('isnan of non-double')
            return v.nan
        if f == 'floor':
            v = self.num(self.e(A[0]))
            return v if v.sort() == I else z3.ToInt(v)
        if f == 'real':
            return toreal(self.num(self.e(A[0])))
        if f == 'abs':
            v = self.num(self.e(A[0])); return z3.If(v >= 0, v, -v)
        if f in ('min', 'max'):
            a = self.num(self.e(A[0])); b = self.num(self.e(A[1]))
            if a.sort() != b.sort():
                a = toreal(a); b = toreal(b)
            return z3.If(a <= b, a, b) if f == 'min' else z3.If(a >= b, a, b)
        if f in ('sqrt', 'exp', 'log'):
            return self.g.math(f, toreal(self.num(self.e(A[0]))))
        if f in self.g.ghostfuns:
            fns, gh = self.g.ghostfuns[f]
            args = [self.num(self.e(a)) for a in A]
            lvl = self.g.ghost_level.get(f)
            if lvl is None:
                lvl = 2 if self.goal else 1
            fn = fns[min(lvl, len(fns) - 1)]
            return fn(*args)
        if f in self.g.specs:
            params, body = self.g.specs[f]
            if len(params) != len(A):
                raise ContractError('arity of %s' % f)
            binds = {p: self.e(a) for p, a in zip(params, A)}
            e2 = SymEnv(self.g, self.st, dict(self.b, **binds), self.old, self.result, self.goal)
            e2.labels = self.labels
            return e2.eval(body)
        raise ContractError('unknown function %s' % f)


# ---------------------------------------------------------------------------------------
NAN = float('nan')


def isnan_c(v):
    return isinstance(v, float) and v != v


class CPtr:
    __slots__ = ('region', 'off')

    def __init__(self, region, off=0):
        self.region = region; self.off = off


def cnum(v):
    """exact number from a concrete value"""
    if isinstance(v, bool):
        raise ContractError('bool as number')
    if isinstance(v, float):
        if v != v:
            raise ContractError('NaN used as number in contract')
        if v in (math.inf, -math.inf):
            raise ContractError('inf in contract arithmetic')
        return Fraction(v)
    return v


def close(a, b, rel=1e-9, abs_=1e-12):
    a = float(a); b = float(b)
    return a == b or abs(a - b) <= max(rel * max(abs(a), abs(b)), abs_)


class TooLarge(ContractError):
    """the clause cannot be evaluated concretely on this input within the work limit (not a verdict)"""


QUANT_RANGE_MAX = 200000
WORK_MAX = 3000000
WORK = [0]          # quantifier steps of the current evaluation (reset by vf.judge before each judgement)


class ConcEnv:
    """vars: name -> int | float | Fraction | CPtr ; mem: region -> list ; ghost: name -> python callable"""

    def __init__(self, specs, vars, mem, binds=None, old=None, result=None, ghosts=None, lens=None, consts=None):
        self.specs = specs; self.vars = vars; self.mem = mem; self.b = dict(binds or {})
        self.old = old; self.result = result; self.ghosts = ghosts or {}; self.lens = lens; self.consts = consts or {}

    def sub(self, **kw):
        e = ConcEnv(self.specs, self.vars, self.mem, self.b, self.old, self.result, self.ghosts, self.lens, self.consts)
        e.b.update(kw); return e

    def eval(self, txt):
        return self.e(parsec(txt))

    def truth(self, txt):
        v = self.eval(txt)
        if not isinstance(v, bool):
            raise ContractError('clause is not boolean: ' + txt)
        return v

    def eq(self, a, b):
        if isinstance(a, bool) or isinstance(b, bool):
            return bool(a) == bool(b)
        an = isnan_c(a); bn = isnan_c(b)
        if an or bn:
            fa = isinstance(a, float); fb = isinstance(b, float)
            return an and bn
        a = cnum(a); b = cnum(b)
        if isinstance(a, int) and isinstance(b, int):
            return a == b
        return close(a, b)

    def e(self, n):
        if isinstance(n, ast.Constant):
            v = n.value
            if isinstance(v, float):
                return Fraction(repr(v))
            return v
        if isinstance(n, ast.Name):
            if n.id in self.b:
                return self.b[n.id]
            if n.id == 'result':
                return self.result
            if n.id in self.vars:
                return self.vars[n.id]
            if n.id in self.consts:
                return self.consts[n.id]
            raise ContractError('unknown name %s' % n.id)
        if isinstance(n, ast.BoolOp):
            if isinstance(n.op, ast.And):
                for v in n.values:
                    if not self.e(v):
                        return False
                return True
            for v in n.values:
                if self.e(v):
                    return True
            return False
        if isinstance(n, ast.UnaryOp):
            v = self.e(n.operand)
            if isinstance(n.op, ast.Not):
                return not v
            if isinstance(n.op, ast.USub):
                return -cnum(v)
            return cnum(v)
        if isinstance(n, ast.BinOp):
            a = cnum(self.e(n.left)); b = cnum(self.e(n.right))
            if isinstance(n.op, ast.Pow):
                return a ** b
            if isinstance(n.op, ast.FloorDiv):
                return a // b
            if isinstance(n.op, ast.Mod):
                return a % b
            if isinstance(n.op, ast.Add):
                return a + b
            if isinstance(n.op, ast.Sub):
                return a - b
            if isinstance(n.op, ast.Mult):
                return a * b
            if isinstance(n.op, ast.Div):
                if b == 0:
                    return Fraction(0)      # SMT total division: unconstrained; callers guard
                return Fraction(a) / Fraction(b)
        if isinstance(n, ast.Compare):
            items = [self.e(n.left)] + [self.e(c) for c in n.comparators]
            for op, a, b in zip(n.ops, items, items[1:]):
                if isinstance(op, ast.Eq):
                    r = self.eq(a, b)
                elif isinstance(op, ast.NotEq):
                    r = not self.eq(a, b)
                else:
                    if isnan_c(a) or isnan_c(b):
                        r = False
                    else:
                        a_ = cnum(a); b_ = cnum(b)
                        r = {ast.Lt: a_ < b_, ast.LtE: a_ <= b_, ast.Gt: a_ > b_, ast.GtE: a_ >= b_}[type(op)]
                if not r:
                    return False
            return True
        if isinstance(n, ast.Subscript):
            p = self.e(n.value); idx = cnum(self.e(n.slice))
            arr = self.mem[p.region]
            k = p.off + idx
            if not (0 <= k < len(arr)):
                raise IndexError('contract reads %s[%d] outside its region of %d' % (p.region, k, len(arr)))
            return arr[k]
        if isinstance(n, ast.IfExp):
            return self.e(n.body) if self.e(n.test) else self.e(n.orelse)
        if isinstance(n, ast.Call):
            return self.call(n)
        raise ContractError('unsupported expression ' + ast.dump(n))

    def call(self, n):
        f = n.func.id; A = n.args
        if f in ('forall', 'exists'):
            var = A[0].id; rng = A[1]
            lo, hi = self.range_of(var, rng)
            # concrete evaluation is for small witnesses: a solver model with a huge dimension (grids of 2**30 rows are admissible) must not
            # turn into an endless enumeration; the caller treats the error as "cannot be evaluated on this input"
            if hi - lo > QUANT_RANGE_MAX:
                raise TooLarge('quantifier range of %d values is too large for concrete evaluation' % (hi - lo))
            for k in range(lo, hi):
                WORK[0] += 1
                if WORK[0] > WORK_MAX:
                    raise TooLarge('concrete evaluation needs more than %d quantifier steps' % WORK_MAX)
                e2 = self.sub(**{var: k})
                if not e2.e(rng):
                    continue
                v = bool(e2.e(A[2]))
                if f == 'forall' and not v:
                    return False
                if f == 'exists' and v:
                    return True
            return f == 'forall'
        if f == 'old':
            o = self.old
            return ConcEnv(self.specs, o.vars, o.mem, self.b, o, self.result, self.ghosts, self.lens, self.consts).e(A[0])
        if f == 'implies':
            return (not self.e(A[0])) or bool(self.e(A[1]))
        if f == 'iff':
            return bool(self.e(A[0])) == bool(self.e(A[1]))
        if f == 'ite':
            return self.e(A[1]) if self.e(A[0]) else self.e(A[2])
        if f == 'valid':
            p = self.e(A[0]); nn = cnum(self.e(A[1]))
            return p.off >= 0 and len(self.mem[p.region]) >= p.off + nn
        if f == 'len':
            p = self.e(A[0]); return len(self.mem[p.region]) - p.off
        if f == 'separated':
            ps = [self.e(a).region for a in A]; return len(set(ps)) == len(ps)
        if f == 'isnan':
            return isnan_c(self.e(A[0]))
        if f == 'floor':
            return math.floor(cnum(self.e(A[0])))
        if f == 'real':
            return Fraction(cnum(self.e(A[0])))
        if f == 'abs':
            return abs(cnum(self.e(A[0])))
        if f == 'min':
            return min(cnum(self.e(A[0])), cnum(self.e(A[1])))
        if f == 'max':
            return max(cnum(self.e(A[0])), cnum(self.e(A[1])))
        if f == 'sqrt':
            return math.sqrt(cnum(self.e(A[0])))
        if f == 'exp':
            return math.exp(cnum(self.e(A[0])))
        if f == 'log':
            return math.log(cnum(self.e(A[0])))
        if f in self.ghosts:
            return self.ghosts[f](*[cnum(self.e(a)) for a in A])
        if f in self.specs:
            params, body = self.specs[f]
            binds = {p: self.e(a) for p, a in zip(params, A)}
            return ConcEnv(self.specs, self.vars, self.mem, dict(self.b, **binds), self.old, self.result, self.ghosts, self.lens, self.consts).eval(body)
        raise ContractError('unknown function %s' % f)

    def range_of(self, var, rng):
        """extract integer bounds lo <= var < hi from the range expression (conjunction of comparisons)"""
        lo = None; hi = None
        parts = rng.values if isinstance(rng, ast.BoolOp) and isinstance(rng.op, ast.And) else [rng]
        for p in parts:
            if not isinstance(p, ast.Compare):
                continue
            items = [p.left] + p.comparators
            for op, a, b in zip(p.ops, items, items[1:]):
                an = isinstance(a, ast.Name) and a.id == var; bn = isinstance(b, ast.Name) and b.id == var
                try:
                    if bn and not an:
                        v = cnum(self.e(a))
                        if isinstance(op, ast.LtE): lo = max(lo, v) if lo is not None else v
                        if isinstance(op, ast.Lt): lo = max(lo, v + 1) if lo is not None else v + 1
                        if isinstance(op, ast.GtE): hi = min(hi, v + 1) if hi is not None else v + 1
                        if isinstance(op, ast.Gt): hi = min(hi, v) if hi is not None else v
                    if an and not bn:
                        v = cnum(self.e(b))
                        if isinstance(op, ast.Lt): hi = min(hi, v) if hi is not None else v
                        if isinstance(op, ast.LtE): hi = min(hi, v + 1) if hi is not None else v + 1
                        if isinstance(op, ast.Gt): lo = max(lo, v + 1) if lo is not None else v + 1
                        if isinstance(op, ast.GtE): lo = max(lo, v) if lo is not None else v
                        if isinstance(op, ast.Eq): lo = v; hi = v + 1
                except (ContractError, IndexError, KeyError):
                    pass
        if lo is None or hi is None:
            raise ContractError('quantifier range of %s is not bounded: %s' % (var, ast.unparse(rng)))
        return int(math.ceil(lo)), int(math.ceil(hi))
