"""Per-property run: collects discharged obligations, bounded clauses and violations; writes the evidence
file and the replay files; prints VIOLATION / KNOWN-FINDING lines; computes the exit code (DESIGN.md 7)."""
import json, os, sys, time, hashlib, random, traceback, collections
from . import VERIF, REPO, cproof, solve, judge, contract
from .harness import Harness, group_of

EXIT_OK, EXIT_VIOLATION, EXIT_UNDECIDED, EXIT_BROKEN = 0, 1, 2, 3


def _jsonable(x):
    from fractions import Fraction
    if isinstance(x, float):
        if x != x:
            return 'nan'
        if x in (float('inf'), float('-inf')):
            return 'inf' if x > 0 else '-inf'
        return x
    if isinstance(x, Fraction):
        return float(x)
    if isinstance(x, (list, tuple)):
        return [_jsonable(y) for y in x]
    if isinstance(x, dict):
        return {str(k): _jsonable(v) for k, v in x.items()}
    if isinstance(x, (set, frozenset)):
        return sorted(_jsonable(y) for y in x)
    try:
        import numpy as np
        if isinstance(x, np.generic):
            return _jsonable(x.item())
        if isinstance(x, np.ndarray):
            return _jsonable(x.tolist())
    except ImportError:
        pass
    if isinstance(x, (int, str, bool)) or x is None:
        return x
    return repr(x)


def contract_error():
    from .cexpr import ContractError
    return ContractError


class Run:
    def __init__(self, prop, tier='quick', seed=None, level='other'):
        self.prop = prop; self.tier = tier
        self.seed = int(seed if seed is not None else os.environ.get('VERIF_SEED', '0') or 0)
        self.rng = random.Random(self.seed)
        self.level = level
        self.t0 = time.time()
        self.vcs = []; self.functions = []; self.covers = []
        self.bounded = []            # bounded clauses (never counted as proved)
        self.violations = []         # dict(key, what, replay, noinput)
        self.undecided = []; self.broken = []
        self.trusted = set(); self.assumptions = []
        self.samples = []
        self.notes = []
        self.harnesses = {}
        self.refuter_hits = {}       # (file, fn) -> list of (args, failures)
        self.known = self._load_known()
        self.known_hit = []
        self.checker_cmd = './vcheck %s %s' % (prop, tier)
        self.explanation = ''
        self.extra = {}
        self.solver_time = 0.0
        self.by_backend = collections.Counter()

    # ------------------------------------------------------------------ known findings
    def _load_known(self):
        p = os.path.join(VERIF, 'known_findings.json')
        if not os.path.exists(p):
            return []
        return [k for k in json.load(open(p)).get('findings', []) if k.get('property') == self.prop and k.get('status') == 'known']

    def _known_match(self, key):
        for k in self.known:
            if k.get('match') and all(str(key.get(f)) == str(v) for f, v in k['match'].items()):
                return k
        return None

    # ------------------------------------------------------------------ violations
    def violation(self, key, what, witness=None, solver=None, noinput=False):
        """key: dict identifying the failing obligation / monitor (function, kind, clause ...)"""
        k = self._known_match(key)
        if k is not None:
            if k not in self.known_hit:
                self.known_hit.append(k)
                print('KNOWN-FINDING: property=%s %s' % (self.prop, k.get('what', what)))
            return
        # many inputs failing the same clause of the same function: keep the first few replay files, count the rest
        grp = (str(key.get('function', key.get('obligation'))), str(key.get('kind')), str(key.get('clause', key.get('text', ''))))
        self._per_clause = getattr(self, '_per_clause', collections.Counter())
        self._per_clause[grp] += 1
        if self._per_clause[grp] > 5 and key.get('function') is not None:
            self.extra['suppressed_similar_violations'] = self.extra.get('suppressed_similar_violations', 0) + 1
            return
        os.makedirs(os.path.join(VERIF, 'replays'), exist_ok=True)
        h = hashlib.sha1(json.dumps(_jsonable(key), sort_keys=True).encode()).hexdigest()[:10]
        path = os.path.join(VERIF, 'replays', '%s_%s.json' % (self.prop, h))
        if any(v['replay'] == path for v in self.violations):
            return
        doc = dict(property=self.prop, obligation=key, what=what, witness=_jsonable(witness), solver=_jsonable(solver),
                   no_failing_input_found=bool(noinput), tier=self.tier, seed=self.seed,
                   replay_cmd='cd /verif && ./vcheck --replay %s' % path)
        json.dump(doc, open(path, 'w'), indent=1)
        self.violations.append(dict(key=key, what=what, replay=path, noinput=noinput))
        print('VIOLATION property=%s replay=%s %s%s' % (self.prop, path, what.replace('\n', ' ')[:300], ' no-failing-input-found' if noinput else ''))
        sys.stdout.flush()

    # ------------------------------------------------------------------ harness
    def harness(self, group):
        if group not in self.harnesses:
            self.harnesses[group] = Harness(group)
        return self.harnesses[group]

    def run_kernel_cases(self, relpath, fname, cases, consts=None, label=None):
        """bounded differential check of one kernel: real compiled code (ASan/UBSan) against its contract.
        cases: list of argument lists.  Returns (n_admissible, failures)."""
        cf = contract.REGISTRY[relpath]; K = cf.kernels[fname]
        base = fname.split('#')[0]
        h = self.harness(group_of(relpath)); sig = h.sigs[base]
        adm = [a for a in cases if judge.admissible(K, cf.specs, sig, a, consts)]
        seen = set(); uniq = []
        for a in adm:
            key = repr(a)
            if key not in seen:
                seen.add(key); uniq.append(a)
        res = h.run([(base, a) for a in uniq]) if uniq else []
        fails = []
        for a, r in zip(uniq, res):
            if r is None:
                continue
            try:
                bad = judge.judge(K, cf.specs, sig, a, r, consts)
            except contract_error() as ex:
                msg = 'contract of %s names something the current code does not have (%s): the sidecar has drifted from the code; no verdict' % (fname, str(ex)[:160])
                if msg not in self.undecided:
                    self.undecided.append(msg)
                break
            if bad:
                fails.append((a, bad, r))
        self.refuter_hits[(relpath, fname)] = fails
        self.bounded.append(dict(name=label or ('%s: real kernel (clang ASan+UBSan) vs contract on enumerated inputs' % fname), function=fname,
                                 evaluations=len(cases), admissible=len(adm), distinct_nontrivial=len(uniq), failures=len(fails), exhaustive=False))
        if uniq and len(self.samples) < 12:
            self.samples.append(dict(kind='kernel-case', function=fname, args=_jsonable(uniq[len(uniq) // 2])))
        return len(uniq), fails

    # ------------------------------------------------------------------ Engine C
    def c_proofs(self, tasks, timeout_ms=None, consts=None, generators=None):
        """tasks: [(relpath, fn)].  generators: {(relpath, fn): callable(rng, tier) -> list of arg lists} for the refuter."""
        timeout_ms = timeout_ms or (10000 if self.tier == 'quick' else 60000)
        # bounded differential runs first (they are also the refuter for failed obligations): a function whose real code
        # already violates its contract on a concrete input gets short solver budgets (the witness exists)
        generators = generators or {}
        # the ASTs are loaded first: renamed parameters / locals are mapped onto the names the sidecar uses before anything reads the contracts
        try:
            cproof.load_tus(sorted({r for r, _ in tasks}))
        except Exception:
            self.broken.append('loading the C sources failed: ' + traceback.format_exc()[-1500:]); return
        for (relpath, fn) in tasks:
            g = generators.get((relpath, fn))
            if g is None:
                continue
            try:
                cases = g(self.rng, self.tier)
                self.run_kernel_cases(relpath, fn, cases, consts)
            except Exception:
                self.broken.append('refuter for %s crashed: %s' % (fn, traceback.format_exc()[-1500:]))
        short = {(rel, fn) for (rel, fn), fails in self.refuter_hits.items() if fails}
        R = cproof.prove(tasks, timeout_ms=timeout_ms, consts=consts, short=short)
        self.solver_time += R['solve_s']
        for f in R['failed']:
            msg = '%s/%s: %s: %s' % (f['file'], f['fn'], f['error'], f['detail'][-1500:])
            (self.broken if f['error'] == 'crash' else self.undecided).append(msg)
        L = cproof.prove_lemmas(sorted({r for r, _ in tasks}), timeout_ms=timeout_ms, consts=consts)
        R['vcs'] += L['vcs']; R['failed'] += L['failed']
        for f in L['failed']:
            self.broken.append('%s/%s: %s' % (f['file'], f['fn'], f['detail'][-1500:]))
        self.functions += R['functions']; self.vcs += R['vcs']; self.covers += R['covers']
        for fi in R['functions']:
            self.trusted.update(fi['trusted'])
            for n in fi['nonterminating']:
                self.notes.append('termination not proved: ' + n)
        for c in R['covers']:
            # fatal: contradictory requires / unreachable function exit.  A point after a loop may legitimately be
            # unreachable (loop left only by return); those are reported in the evidence only.
            if c['status'] == 'unsat' and (c['what'] in ('function exit', 'requires satisfiable')):
                self.broken.append('vacuity guard: %s (%s) is unreachable / contradictory' % (c['id'], c['what']))
        # verdict per failed obligation
        groups = collections.OrderedDict()
        for v in R['vcs']:
            self.by_backend[v.get('backend', '?')] += 1 if v['status'] == 'unsat' else 0
            if v['status'] == 'unsat':
                continue
            groups.setdefault((v['file'], v['fn'], v['kind'], v.get('text') or v['note']), []).append(v)
        for (relpath, fn, kind, text), vs in groups.items():
            self._verdict(relpath, fn, kind, text, vs, consts)
        # bounded failures that no obligation explains are violations of their own
        for (relpath, fn), fails in self.refuter_hits.items():
            if not fails or any(g[0] == relpath and g[1] == fn for g in groups):
                continue
            a, bad, r = fails[0]
            key = dict(function=fn, file=relpath, kind=bad[0][0], clause=bad[0][1])
            self.violation(key, '%s: real kernel violates its contract on a concrete input: %s (%s)' % (fn, bad[0][1][:160], bad[0][2][:200]),
                           witness=dict(function=fn, file=relpath, args=a, observed=dict(ret=r.get('ret'), arrays=r.get('arrays'), sanitizer=r.get('san', '')[:1500]), failed=bad))
        return R

    def _verdict(self, relpath, fn, kind, text, vs, consts):
        cf = contract.REGISTRY[relpath]
        key = dict(function=fn, file=relpath, kind=kind, clause=text)
        if kind == 'lemma':
            statuses = sorted({v['status'] for v in vs})
            what = 'lemma %s (over spec functions only) is not discharged (%s): %s' % (fn, '/'.join(statuses), (text or '')[:200])
            if 'sat' in statuses:
                self.violation(key, what, witness=None, solver=[dict(id=v['id'], status=v['status']) for v in vs], noinput=True)
            else:
                self.undecided.append(what)
            return
        K = cf.kernels[fn]
        statuses = sorted({v['status'] for v in vs})
        solver = [dict(id=v['id'], status=v['status'], backend=v.get('backend'), reason=v.get('reason', ''), note=v['note'], line=v['line']) for v in vs[:8]]
        if any(s == 'error' for s in statuses):
            self.broken.append('solver error on %s' % vs[0]['id']); return
        # 1. replay the solver's counter-model on the real code
        try:
            h = self.harness(group_of(relpath)); sig = h.sigs.get(fn.split('#')[0])
        except Exception:
            self.broken.append('harness build failed: ' + traceback.format_exc()[-1500:]); return
        witness = None
        if sig is not None:
            cands = []
            for v in vs:
                if v['status'] == 'sat' and v.get('model'):
                    try:
                        cands.append(judge.case_from_model(sig, v['model']))
                    except Exception:
                        pass
            cands = [a for a in cands if judge.admissible(K, cf.specs, sig, a, consts)][:6]
            if cands:
                res = h.run([(fn.split('#')[0], a) for a in cands])
                for a, r in zip(cands, res):
                    if r is None:
                        continue
                    try:
                        bad = judge.judge(K, cf.specs, sig, a, r, consts)
                    except contract_error():
                        bad = None
                    if bad:
                        witness = dict(function=fn, file=relpath, args=a, source='solver counter-model replayed on the real kernel (clang ASan+UBSan)',
                                       observed=dict(ret=r.get('ret'), arrays=r.get('arrays'), sanitizer=r.get('san', '')[:1500]), failed=bad)
                        break
        # 2. refuter: enumerated concrete inputs (prefer a failure of the same nature as the obligation)
        if witness is None:
            fails = self.refuter_hits.get((relpath, fn)) or []
            functional = kind in ('post', 'inv-init', 'inv-pres', 'hint', 'lemma-base', 'lemma-step', 'assigns')
            pref = [f for f in fails if (f[1][0][0] in ('post', 'assigns')) == functional]
            fails = pref or fails
            if fails:
                a, bad, r = fails[0]
                witness = dict(function=fn, file=relpath, args=a, source='bounded refuter on the real kernel (clang ASan+UBSan)',
                               observed=dict(ret=r.get('ret'), arrays=r.get('arrays'), sanitizer=r.get('san', '')[:1500]), failed=bad)
        what = '%s obligation %s of %s fails (%s): %s' % (kind, vs[0]['id'], fn, '/'.join(statuses), (text or '')[:200])
        if witness is not None:
            self.violation(key, what, witness=witness, solver=solver)
        elif 'sat' in statuses:
            self.violation(key, what, witness=None, solver=solver, noinput=True)
        else:
            self.undecided.append('%s: %s [%s]' % (vs[0]['id'], what, '; '.join('%s:%s' % (v.get('backend'), v.get('reason')) for v in vs[:3])))

    # ------------------------------------------------------------------ bounded monitors (python level)
    def bounded_clause(self, name, bound, evaluations, distinct, exhaustive, failures=0, extra=None):
        d = dict(name=name, bound=bound, evaluations=evaluations, distinct_nontrivial=distinct, exhaustive=exhaustive, failures=failures)
        if extra:
            d.update(extra)
        self.bounded.append(d)

    # ------------------------------------------------------------------ finish
    def finish(self):
        for h in self.harnesses.values():
            h.close()
        solve.close_pool()
        n_ob = len(self.vcs); n_dis = sum(1 for v in self.vcs if v['status'] == 'unsat')
        kinds = collections.Counter(v['kind'] for v in self.vcs)
        ev_total = sum(b.get('evaluations', 0) for b in self.bounded)
        dn_total = sum(b.get('distinct_nontrivial', 0) for b in self.bounded)
        slow = sorted(self.vcs, key=lambda v: -v.get('time', 0))[:5]
        samples = list(self.samples)
        for v in self.vcs[:3]:
            samples.append(dict(kind='obligation', id=v['id'], status=v['status'], backend=v.get('backend'), note=v['note'][:200]))
        cov = dict(
            functions_under_contract=sorted({'%s:%s' % (f['file'].split('/')[-1], f['fn']) for f in self.functions}),
            obligations=n_ob, discharged=n_dis, obligations_by_kind=dict(kinds), discharged_by_backend=dict(self.by_backend),
            solver_time_s=round(self.solver_time, 2), slowest=[dict(id=v['id'], time=round(v.get('time', 0), 2)) for v in slow],
            checker_cmd=self.checker_cmd, trusted_base=sorted(self.trusted) + list(self.assumptions),
            vacuity=dict(covers=len(self.covers), reachable=sum(1 for c in self.covers if c['status'] in ('sat', 'sat-relaxed')),
                         undetermined=sum(1 for c in self.covers if c['status'] not in ('sat', 'sat-relaxed', 'unsat')),
                         contradictory=sum(1 for c in self.covers if c['status'] == 'unsat')),
            loops=dict(cut_by_invariant=sum(f['cutloops'] for f in self.functions), fully_unrolled=sum(f['unrolled'] for f in self.functions),
                       termination_proved=sum(f['terminating'] for f in self.functions),
                       termination_not_proved=[n for f in self.functions for n in f['nonterminating']]),
            bounded_clauses=self.bounded, evaluations=max(ev_total, n_ob), distinct_nontrivial=max(dn_total, len({v['id'] for v in self.vcs})),
            rule='evaluations = obligations generated + inputs enumerated by the bounded clauses; distinct = distinct admissible inputs (bounded) or distinct obligation ids',
            samples=samples[:20], explanation=self.explanation, notes=self.notes, exhaustive=False,
            known_findings_reported=[k.get('what') for k in self.known_hit],
            undecided=self.undecided, checker_problems=self.broken,
        )
        cov.update(self.extra)
        ev = dict(property_id=self.prop, tier=self.tier, seed=self.seed, level=self.level, coverage=_jsonable(cov),
                  assumptions=sorted(self.trusted) + list(self.assumptions), wall_s=round(time.time() - self.t0, 2), violations=len(self.violations))
        # trial runs against a deliberately modified tree (tools/tryseed.sh, tools/allseeds.sh) must not replace the evidence of the real tree
        if not os.environ.get('VERIF_NO_EVIDENCE'):
            os.makedirs(os.path.join(VERIF, 'evidence'), exist_ok=True)
            json.dump(ev, open(os.path.join(VERIF, 'evidence', '%s.json' % self.prop), 'w'), indent=1)
        if self.broken:
            for b in self.broken:
                print('CHECKER-BROKEN property=%s %s' % (self.prop, b[:2000]))
            code = EXIT_BROKEN
        elif self.violations:
            code = EXIT_VIOLATION
        elif self.undecided:
            for u in self.undecided:
                print('UNDECIDED property=%s %s' % (self.prop, u[:1500]))
            code = EXIT_UNDECIDED
        else:
            code = EXIT_OK
        if self.violations:
            # a violation with its replay file stands even when another part of the check could not run (the broken parts are printed above)
            code = EXIT_VIOLATION
        print('%s %s: %d obligations, %d discharged, %d bounded clauses (%d evaluations), %d violations, %d undecided, %.1fs -> exit %d'
              % (self.prop, self.tier, n_ob, n_dis, len(self.bounded), ev_total, len(self.violations), len(self.undecided), time.time() - self.t0, code))
        return code
