"""Runs a piece of a check in a child process, so that a native crash of the code under test (heap corruption, SIGSEGV, abort) is
contained and reported instead of taking the checker down.  The child records calls made on a stand-in for the check's Run object;
the parent replays them on the real one."""
import sys, os, json, subprocess, importlib, random, pickle, tempfile, traceback, signal

VERIF = os.path.dirname(os.path.dirname(os.path.abspath(__file__)))


class Recorder:
    """stand-in for check.Run inside the child: same reporting interface, calls are recorded"""

    def __init__(self, prop, tier, seed):
        self.prop = prop; self.tier = tier; self.seed = seed; self.rng = random.Random(seed)
        self.calls = []; self.notes = []; self.assumptions = []; self.broken = []; self.extra = {}; self.samples = []; self.undecided = []

    def violation(self, *a, **k):
        self.calls.append(('violation', a, k))

    def bounded_clause(self, *a, **k):
        self.calls.append(('bounded_clause', a, k))


def progress(label):
    """remember what the child is doing (read by the parent when the child dies)"""
    p = os.environ.get('VF_PROGRESS')
    if not p:
        return
    global _PF
    try:
        f = _PF
    except NameError:
        f = _PF = open(p, 'w')
    f.seek(0); f.write(label[:300].ljust(300)); f.flush()


def run(module, func, prop, tier, seed, args=None, timeout=3600):
    """-> dict(rc, signal, recorder-or-None, payload, progress, stderr)"""
    d = tempfile.mkdtemp(prefix='vfchild_', dir=os.path.join(VERIF, '.cache'))
    inp = os.path.join(d, 'in.pkl'); out = os.path.join(d, 'out.pkl'); prog = os.path.join(d, 'progress.txt')
    pickle.dump(dict(module=module, func=func, prop=prop, tier=tier, seed=seed, args=args or {}), open(inp, 'wb'))
    env = dict(os.environ, VF_PROGRESS=prog)
    try:
        cp = subprocess.run([sys.executable, '-m', 'vf.child', inp, out], cwd=VERIF, env=env, stdout=subprocess.PIPE, stderr=subprocess.PIPE, timeout=timeout)
        rc = cp.returncode; err = cp.stderr.decode(errors='replace')[-3000:]; so = cp.stdout.decode(errors='replace')[-1500:]
    except subprocess.TimeoutExpired as e:
        rc = 'timeout'; err = (e.stderr or b'').decode(errors='replace')[-3000:]; so = ''
    res = dict(rc=rc, signal=(-rc if isinstance(rc, int) and rc < 0 else None), stderr=err, stdout=so, recorder=None, payload=None, progress='')
    try:
        res['progress'] = open(prog).read().strip()
    except Exception:
        pass
    if os.path.exists(out):
        try:
            o = pickle.load(open(out, 'rb')); res['recorder'] = o['recorder']; res['payload'] = o['payload']
        except Exception:
            pass
    for f in (inp, out, prog):
        try:
            os.remove(f)
        except OSError:
            pass
    try:
        os.rmdir(d)
    except OSError:
        pass
    return res


def merge(run, rec):
    """replay the calls the child recorded on the real Run"""
    if rec is None:
        return
    for name, a, k in rec['calls']:
        getattr(run, name)(*a, **k)
    for nm in ('notes', 'assumptions', 'broken', 'samples', 'undecided'):
        for x in rec.get(nm, []):
            if x not in getattr(run, nm):
                getattr(run, nm).append(x)
    run.extra.update(rec['extra'])


def signame(n):
    try:
        return signal.Signals(n).name
    except Exception:
        return 'signal %s' % n


def _main(inp, out):
    job = pickle.load(open(inp, 'rb'))
    rec = Recorder(job['prop'], job['tier'], job['seed'])
    payload = None
    try:
        mod = importlib.import_module(job['module'])
        payload = getattr(mod, job['func'])(rec, **job['args'])
    except Exception:
        rec.broken.append('%s.%s crashed in the child process: %s' % (job['module'], job['func'], traceback.format_exc()[-2000:]))
    pickle.dump(dict(recorder=dict(calls=rec.calls, notes=rec.notes, assumptions=rec.assumptions, broken=rec.broken, extra=rec.extra, samples=rec.samples[:12], undecided=getattr(rec, 'undecided', [])), payload=payload), open(out, 'wb'))
    sys.stdout.flush()
    os._exit(0)          # skip interpreter tear-down (a corrupted heap that did not crash yet must not turn a finished run into a crash report twice)


if __name__ == '__main__':
    _main(sys.argv[1], sys.argv[2])


class Distinct:
    """counts the DISTINCT argument tuples the functions under test receive (evidence: distinct_nontrivial is measured, not assumed):
    the real function is wrapped, a digest of its arguments is recorded, the call goes through unchanged"""

    def __init__(self):
        import collections
        self.seen = collections.defaultdict(set); self.saved = []

    def digest(self, x):
        import hashlib
        import numpy as np
        try:
            import pandas as pd
        except Exception:
            pd = None
        if isinstance(x, np.ndarray):
            try:
                return ('nd', x.shape, str(x.dtype), hashlib.sha1(np.ascontiguousarray(x).tobytes()).hexdigest())
            except Exception:
                return ('nd', x.shape, repr(x)[:200])
        if pd is not None and isinstance(x, (pd.Series, pd.DataFrame, pd.Index)):
            return ('pd', type(x).__name__, self.digest(np.asarray(x)), self.digest(np.asarray(getattr(x, 'index', []))))
        if isinstance(x, (list, tuple)):
            return tuple(self.digest(e) for e in x)
        if isinstance(x, dict):
            return tuple(sorted((str(k), self.digest(v)) for k, v in x.items()))
        if hasattr(x, 'data') and hasattr(x, 'ncols'):
            return ('grid', int(x.nrows), int(x.ncols), float(x.cellsize), float(x.xllcorner), float(x.yllcorner), self.digest(x.data))
        return repr(x)[:300]

    def wrap(self, obj, name, label=None):
        real = getattr(obj, name); label = label or name; outer = self

        def w(*a, **k):
            outer.seen[label].add(outer.digest((a, k)))
            return real(*a, **k)
        w.__wrapped__ = real
        self.saved.append((obj, name, real))
        setattr(obj, name, w)
        return self

    def restore(self):
        for obj, name, real in reversed(self.saved):
            setattr(obj, name, real)
        self.saved = []

    def n(self, *labels):
        return sum(len(self.seen[l]) for l in labels)
