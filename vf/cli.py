import sys, os, importlib, traceback, json


def main(argv):
    if len(argv) >= 2 and argv[0] == '--replay':
        from . import replay
        return replay.main(argv[1])
    if not argv:
        print(__doc__ or 'usage: vcheck <Cxx> <quick|thorough>'); return 3
    prop = argv[0]
    tier = argv[1] if len(argv) > 1 else os.environ.get('VERIF_TIER', 'quick')
    if tier not in ('quick', 'thorough'):
        tier = 'quick'
    try:
        mod = importlib.import_module('props.' + prop)
        return mod.run(tier)
    except SystemExit:
        raise
    except Exception:
        print('CHECKER-BROKEN property=%s %s' % (prop, traceback.format_exc()[-3000:]))
        return 3


if __name__ == '__main__':
    sys.exit(main(sys.argv[1:]))
