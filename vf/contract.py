"""Sidecar contract language (DESIGN.md 2.3).  Contracts are data; expressions are
Python-syntax strings that cexpr.py turns into z3 terms (proof) and into a concrete
evaluator (refuter / replay).  No file of /repo is edited."""
import re

REGISTRY = {}      # relpath -> CFile


class Loop:
    def __init__(self, n, var=None, invariant=(), variant=None, unroll=None, assigns=None, hints=(), assume=()):
        self.n = n; self.var = var; self.invariant = list(invariant); self.variant = variant
        self.unroll = unroll; self.assigns = assigns
        self.hints = list(hints)      # intermediate assertions at the end of the body: proved, then assumed
        self.assume = list(assume)    # [(lemma name, expression)]: instances of EXTERNAL lemmas (Lean), assumed at the loop head, listed as trusted


class Ghost:
    """recursive spec function over integer arguments, closing over the kernel's entry state"""
    def __init__(self, sig, sort, body, decreases, lemmas=()):
        m = re.match(r'\s*(\w+)\s*\(([^)]*)\)\s*$', sig)
        self.name = m.group(1); self.params = [p.strip() for p in m.group(2).split(',') if p.strip()]
        self.sort = sort; self.body = body; self.decreases = decreases; self.concrete = None


class Lemma:
    def __init__(self, name, stmt, var=None, lo=None, fixed=(), pre='True', trigger=None, hints=(), instance=None):
        self.name = name; self.stmt = stmt; self.var = var; self.lo = lo
        self.fixed = list(fixed); self.pre = pre; self.trigger = trigger; self.hints = list(hints)
        self.instance = instance      # expression substituted for the induction variable in the assumed form


class Kernel:
    def __init__(self, cfile, name):
        self.cfile = cfile; self.name = name
        self.requires_ = []; self.ensures_ = []; self.assigns_ = []; self.loops = {}
        self.ghosts = []; self.lemmas = []; self.param_types = {}
        self.behaviors = []; self.bounded_ = []; self.options = {}
        self.props = {}          # clause text -> set of property ids it serves
        self.trusted = []        # assumed external facts (strings), always listed
        self.ret_unconstrained = False

    # every clause may be tagged with the properties it carries (for per-property reports)
    def requires(self, e, why=None):
        self.requires_.append(e); return self

    def assigns(self, *items):
        self.assigns_ += list(items); return self

    def ensures(self, e, props=()):
        self.ensures_.append(e); self.props[e] = set(props); return self

    def bounded(self, e, props=(), assumes=None):
        """a clause of the contract that is NOT turned into proof obligations: it is only evaluated concretely on
        the executions of the real kernel (bounded differential runs) and reported as a bounded clause"""
        t = e if assumes is None else 'implies(%s, %s)' % (assumes, e)
        self.bounded_.append(t); self.props[t] = set(props); return self

    def behavior(self, name, assumes, ensures, props=()):
        for e in ([ensures] if isinstance(ensures, str) else ensures):
            t = 'implies(%s, %s)' % (assumes, e)
            self.ensures_.append(t); self.props[t] = set(props)
        return self

    def loop(self, n, **kw):
        self.loops[n] = Loop(n, **kw); return self

    def ghost(self, sig, sort, body, decreases=None, concrete=None):
        g = Ghost(sig, sort, body, decreases); g.concrete = concrete
        self.ghosts.append(g); return self

    def lemma(self, name, stmt, **kw):
        self.lemmas.append(Lemma(name, stmt, **kw)); return self

    def option(self, **kw):
        self.options.update(kw); return self

    def param_type(self, name, ctype):
        self.param_types[name] = ctype; return self

    def assume_external(self, text):
        self.trusted.append(text); return self


class CFile:
    def __init__(self, relpath):
        self.relpath = relpath; self.kernels = {}; self.specs = {}; self.lemmas = []

    def kernel(self, name):
        k = Kernel(self, name); self.kernels[name] = k; return k

    def spec(self, sig, body):
        m = re.match(r'\s*(\w+)\s*\(([^)]*)\)\s*$', sig)
        self.specs[m.group(1)] = ([p.strip() for p in m.group(2).split(',') if p.strip()], body)
        return self

    def lemma(self, name, decl, stmt, pre='True', props=()):
        """file-level lemma about spec functions only (no code): proved as a standalone VC.
        decl: 'x:real, c:int, ...'"""
        self.lemmas.append(dict(name=name, decl=[tuple(d.strip().split(':')) for d in decl.split(',')], stmt=stmt, pre=pre, props=set(props)))
        return self

    def use(self, other):
        """import the specs and kernels (callee contracts) of another file"""
        for k, v in other.specs.items():
            self.specs.setdefault(k, v)
        for k, v in other.kernels.items():
            self.kernels.setdefault(k, v)
        return self


def cfile(relpath):
    if relpath not in REGISTRY:
        REGISTRY[relpath] = CFile(relpath)
    return REGISTRY[relpath]


# ------------------------------------------------------------------------------------------------ renamed locals / parameters
def _sub_names(text, mp):
    if not isinstance(text, str) or not mp:
        return text
    return re.sub(r'\b(%s)\b' % '|'.join(re.escape(k) for k in sorted(mp, key=len, reverse=True)), lambda m: mp[m.group(1)], text)


def rename_kernel(K, mp):
    """apply a rename of C identifiers (old -> new) to every expression of a kernel contract, in place"""
    if not mp:
        return
    K.requires_ = [_sub_names(e, mp) for e in K.requires_]
    newprops = {}
    for lst in ('ensures_', 'bounded_', 'assigns_'):
        new = []
        for e in getattr(K, lst):
            e2 = _sub_names(e, mp); new.append(e2)
            if e in K.props:
                newprops[e2] = K.props[e]
        setattr(K, lst, new)
    K.props.update(newprops)
    for lp in K.loops.values():
        lp.var = mp.get(lp.var, lp.var)
        lp.invariant = [_sub_names(e, mp) for e in lp.invariant]
        lp.variant = _sub_names(lp.variant, mp)
        lp.hints = [_sub_names(e, mp) for e in lp.hints]
        lp.assume = [(n, _sub_names(e, mp)) for (n, e) in lp.assume]
        if lp.assigns:
            lp.assigns = [_sub_names(e, mp) for e in lp.assigns] if isinstance(lp.assigns, (list, tuple)) else _sub_names(lp.assigns, mp)
    for g in K.ghosts:
        # ghost parameters shadow C names: leave a ghost alone when one of its own parameters has the old name
        if not (set(g.params) & set(mp)):
            g.body = _sub_names(g.body, mp); g.decreases = _sub_names(g.decreases, mp); g.concrete = _sub_names(g.concrete, mp)
    for lm in K.lemmas:
        if not ((set(lm.fixed) | {lm.var}) & set(mp)):
            lm.stmt = _sub_names(lm.stmt, mp); lm.pre = _sub_names(lm.pre, mp); lm.lo = _sub_names(lm.lo, mp); lm.trigger = _sub_names(lm.trigger, mp)
            lm.hints = [_sub_names(e, mp) for e in lm.hints]; lm.instance = _sub_names(lm.instance, mp)
    K.param_types = {mp.get(k, k): v for k, v in K.param_types.items()}
    K.renamed = dict(getattr(K, 'renamed', {}), **mp)
