"""Driver of Engine C: load the real C files, generate the obligations of the functions under
contract (in worker processes), discharge them, run the vacuity guards."""
import time, threading, importlib, concurrent.futures as cf, traceback
import z3
from . import cast, engc, solve, contract

_TUS = {}


def decl_list(fn):
    """parameters then local variables of a function, in declaration order: [[name, type], ...]"""
    out = [[n, t] for n, t in cast.params_of(fn)]

    def scan(n):
        if isinstance(n, dict):
            if n.get('kind') == 'VarDecl':
                out.append([n.get('name'), n.get('type', {}).get('qualType') if isinstance(n.get('type'), dict) else n.get('type')])
            for x in n.get('inner', []):
                scan(x)
    scan(cast.body_of(fn))
    return out


RENAMES = {}      # (relpath, function) -> {recorded name: current name}
LOOPKINDS = {}    # relpath -> {function: [kind of loop 0, kind of loop 1, ...]} as recorded when the contracts were written


def loop_kinds(fn):
    out = []

    def scan(n):
        if isinstance(n, dict):
            if n.get('kind') in ('ForStmt', 'WhileStmt', 'DoStmt'):
                out.append(n['kind'])
            for x in n.get('inner', []):
                scan(x)
    scan(cast.body_of(fn))
    return out


def apply_renames(relpath, tu):
    """contracts name parameters and loop-carried locals.  A version of the code that only renames some of them (same number of declarations,
    same types, same positions as recorded in contracts/locals.json) is mapped onto the recorded names; anything else is left to fail as drift."""
    import json, os
    p = os.path.join(os.path.dirname(os.path.dirname(os.path.abspath(__file__))), 'contracts', 'locals.json')
    if not os.path.exists(p) or relpath not in contract.REGISTRY:
        return
    allrec = json.load(open(p))
    rec = allrec.get(relpath, {})
    LOOPKINDS[relpath] = allrec.get('#loops', {}).get(relpath, {})
    cfile = contract.REGISTRY[relpath]
    for kname, K in cfile.kernels.items():
        f = kname.split('#')[0]
        if f not in rec or f not in tu['functions'] or getattr(K, '_renames_done', False):
            continue
        K._renames_done = True
        old = rec[f]; cur = decl_list(tu['functions'][f])
        fn_node = tu['functions'][f]
        npar_cur = len(cast.params_of(fn_node))
        npar_old = sum(1 for _ in old[:npar_cur]) if len(old) >= npar_cur else None
        mp = {}
        # parameters: by position, whenever their number and types are unchanged (the recorded list starts with the parameters)
        rec_par = rec.get('#npar:' + f)
        if rec_par is None:
            rec_par = npar_cur          # older snapshot: assume the number of parameters did not change
        if rec_par == npar_cur and all(str(a[1]) == str(b[1]) for a, b in zip(old[:rec_par], cur[:npar_cur])):
            mp.update({a[0]: b[0] for a, b in zip(old[:rec_par], cur[:npar_cur]) if a[0] != b[0]})
            oldl, curl = old[rec_par:], cur[npar_cur:]
        else:
            oldl, curl = None, None
        # locals: aligned on (name, type); a block of old declarations replaced by a block of the same length and types is a renaming, new
        # declarations (temporaries) in between are ignored, removed ones are not mapped
        if oldl is not None:
            import difflib
            sm = difflib.SequenceMatcher(a=[(x[0], str(x[1])) for x in oldl], b=[(x[0], str(x[1])) for x in curl], autojunk=False)
            for tag, i1, i2, j1, j2 in sm.get_opcodes():
                if tag == 'replace':
                    ob = oldl[i1:i2]; nb = curl[j1:j2]
                    # pair declarations of the same type in order (extra new declarations are temporaries)
                    k = 0
                    for o in ob:
                        while k < len(nb) and str(nb[k][1]) != str(o[1]):
                            k += 1
                        if k < len(nb):
                            mp[o[0]] = nb[k][0]; k += 1
        if not mp:
            continue
        # a pure renaming: injective, and no new name may capture an identifier the contract already uses for something else
        if len(set(mp.values())) != len(mp) or (set(mp.values()) & {a[0] for a in old if a[0] not in mp}):
            continue
        contract.rename_kernel(K, mp)
        RENAMES[(relpath, kname)] = mp


def load_tus(relpaths):
    todo = [r for r in relpaths if r not in _TUS]
    if todo:
        solve.close_pool()      # workers are forked after the ASTs are loaded
    with cf.ThreadPoolExecutor(8) as ex:
        for r, tu in zip(todo, ex.map(cast.load, todo)):
            _TUS[r] = tu
    for r in todo:
        apply_renames(r, _TUS[r])
    return _TUS


def _gen(task):
    relpath, fname, consts, budget = task
    t0 = time.time()
    try:
        tu = _TUS[relpath]; cfile = contract.REGISTRY[relpath]
        g = engc.VCGen(tu, cfile, consts)
        g.loopkinds = LOOPKINDS.get(relpath, {})
        obls = g.function(fname)
        vcs = []
        # fast pass: one incremental solver per function holding the quantifier-free hypotheses (they only grow along the
        # function); each goal is tried there first with a small budget.  Fewer hypotheses: sound for proving.
        fast = z3.Solver(); fast.set('timeout', 1500)
        nfast = 0
        t_fast = 0.0
        for o in obls:
            parts = solve.split_goal(o.goal)
            pre = o.hyp[:-1]; guard = o.hyp[-1]
            if len(pre) >= nfast and all(a is b for a, b in zip(pre[:nfast], g.assumes[:nfast])):
                for h in pre[nfast:]:
                    if not solve.has_quantifier(h) and h.get_id() not in g.math_axioms:
                        fast.add(h)
                nfast = len(pre)
                usable = True
            else:
                usable = False
            for i, p in enumerate(parts):
                sp = z3.simplify(p)
                vid = o.id if len(parts) == 1 else '%s#%d' % (o.id, i)
                base = dict(id=vid, kind=o.kind, fn=o.fn, line=o.line, note=o.note, text=o.text, file=relpath)
                if z3.is_true(sp):
                    base.update(status='unsat', backend='simplifier', time=0.0, smt2=None)
                else:
                    hyp2, p2 = solve.skolemize(o.hyp, p)
                    if usable and t_fast < 60:
                        tf = time.time()
                        fast.push()
                        try:
                            fast.add(guard)
                            for h in hyp2[len(o.hyp):]:
                                if not solve.has_quantifier(h):
                                    fast.add(h)
                            fast.add(z3.Not(p2))
                            # z3 does not always honour its own timeout (nonlinear preprocessing): a watchdog interrupts the context
                            wd = threading.Timer(4.0, fast.ctx.interrupt); wd.daemon = True; wd.start()
                            try:
                                rf = fast.check()
                            finally:
                                wd.cancel()
                        except z3.Z3Exception:
                            rf = z3.unknown
                        fast.pop()
                        t_fast += time.time() - tf
                        if rf == z3.unsat:
                            base.update(status='unsat', backend='z3-%s (incremental, quantifier-free relaxation)' % z3.get_version_string(), time=time.time() - tf, smt2=None)
                            vcs.append(base)
                            continue
                    base['smt2'] = solve.to_smt2(hyp2, p2)
                    qf = [h for h in hyp2 if not solve.has_quantifier(h)]
                    qf0 = [h for h in qf if h.get_id() not in g.math_axioms]
                    rel = []
                    if len(qf0) < len(qf):
                        rel.append(solve.to_smt2(qf0, p2))      # without the axioms of sqrt/exp/log (nonlinear)
                    if len(qf) < len(hyp2):
                        rel.append(solve.to_smt2(qf, p2))
                    base['smt2_relaxed'] = rel or None
                vcs.append(base)
        covers = []
        for c in g.covers:
            s = z3.Solver()
            for h in c['hyp']:
                s.add(h)
            s2 = z3.Solver()
            for h in c['hyp']:
                if not solve.has_quantifier(h):
                    s2.add(h)
            covers.append(dict(id=c['id'], what=c['what'], smt2=s.to_smt2(), smt2_relaxed=s2.to_smt2(), fn=fname, file=relpath))
        # vacuity guard (a): requires satisfiable
        s = z3.Solver()
        for h in g.assumes[:g.n_requires_hyp]:
            s.add(h)
        reqsat = dict(id='%s/%s/requires-sat' % (relpath.split('/')[-1], fname), smt2=s.to_smt2(), fn=fname, file=relpath, what='requires satisfiable')
        info = dict(fn=fname, file=relpath, called=sorted(g.called), trusted=sorted(g.trusted), axioms=list(g.axioms_listed),
                    cutloops=g.cutloops, unrolled=g.unrolled, terminating=g.terminating, nonterminating=list(g.nonterminating),
                    loops=g.loopno, gen_time=time.time() - t0, sha=tu['sha'])
        return dict(ok=True, fn=fname, file=relpath, vcs=vcs, covers=covers, reqsat=reqsat, info=info)
    except engc.Unsupported as e:
        return dict(ok=False, fn=fname, file=relpath, error='unsupported', detail=str(e))
    except engc.Drift as e:
        return dict(ok=False, fn=fname, file=relpath, error='drift', detail=str(e))
    except Exception as e:
        return dict(ok=False, fn=fname, file=relpath, error='crash', detail=traceback.format_exc())


def _gen_lemmas(task):
    """file-level lemmas over spec functions: standalone VCs"""
    relpath, consts = task
    from .cexpr import SymEnv, I, R
    cfile = contract.REGISTRY[relpath]
    out = []
    for lm in cfile.lemmas:
        try:
            g = engc.VCGen(dict(functions={}, protos={}, relpath=relpath), cfile, consts)
            g.assumes = []; g.ghostfuns = {}; g.ghost_level = {}; g.uf_mul = False; g._rmul = None; g._rmul_seen = set()
            binds = {}
            for nm, srt in lm['decl']:
                nm = nm.strip(); srt = srt.strip()
                binds[nm] = z3.Int(nm) if srt == 'int' else z3.Real(nm)
            st = engc.State()
            env = SymEnv(g, st, binds)
            pre = env.boolean(lm['pre']); goal = env.boolean(lm['stmt'])
            for i, p in enumerate(solve.split_goal(goal)):
                vid = '%s/lemma/%s#%d' % (relpath.split('/')[-1], lm['name'], i)
                out.append(dict(id=vid, kind='lemma', fn='(lemma) ' + lm['name'], line=0, note='lemma %s: %s' % (lm['name'], lm['stmt']), text=lm['stmt'],
                                file=relpath, smt2=solve.to_smt2(list(g.assumes) + [pre], p), smt2_relaxed=None))
        except Exception:
            return dict(ok=False, fn='(lemma) ' + lm['name'], file=relpath, error='crash', detail=traceback.format_exc())
    return dict(ok=True, vcs=out)


def prove_lemmas(relpaths, timeout_ms=10000, consts=None):
    vcs = []; failed = []
    for r in relpaths:
        g = _gen_lemmas((r, consts or {}))
        if not g['ok']:
            failed.append(g)
        else:
            vcs += g['vcs']
    res = {r['id']: r for r in solve.solve_all([(v['id'], v['smt2'], timeout_ms, False, None) for v in vcs])}
    for v in vcs:
        r = res[v['id']]
        v.update(status=r['status'], backend=r['backend'], time=r['time'], model=None, reason=r.get('reason', ''))
        v.pop('smt2', None)
    return dict(vcs=vcs, failed=failed)


def prove(tasks, timeout_ms=10000, consts=None, short=()):
    """tasks: list of (relpath, function).  Returns dict(functions=[...], vcs=[...], covers=[...])"""
    load_tus(sorted({r for r, _ in tasks}))
    jobs = [(r, f, consts or {}, timeout_ms) for r, f in tasks]
    t0 = time.time()
    gens = solve.pool().map(_gen, jobs, chunksize=1) if solve.NPROC > 1 else [_gen(j) for j in jobs]
    tgen = time.time() - t0
    vcs = []; covers = []; failed = []
    for g in gens:
        if not g['ok']:
            failed.append(g); continue
        vcs += g['vcs']; covers += g['covers'] + [g['reqsat']]
    todo = [(v['id'], v['smt2'], (min(timeout_ms, 4000) if (v['file'], v['fn']) in short else timeout_ms), True, v.get('smt2_relaxed')) for v in vcs if v.get('smt2')]
    t1 = time.time()
    res = {r['id']: r for r in solve.solve_all(todo)}
    for v in vcs:
        if v['id'] in res:
            r = res[v['id']]
            v.update(status=r['status'], backend=r['backend'], time=r['time'], model=r.get('model'), reason=r.get('reason', ''))
    # covers: must be satisfiable (reachable); `unknown` is tolerated (quantified hypotheses), `unsat` is a broken contract
    cres = solve.solve_all([('cover', c['id'], c['smt2'], c.get('smt2_relaxed')) for c in covers])
    for c, r in zip(covers, cres):
        c['status'] = r['status']; c['time'] = r['time']; c.pop('smt2', None); c.pop('smt2_relaxed', None)
    tsolve = time.time() - t1
    return dict(functions=[g['info'] for g in gens if g['ok']], failed=failed, vcs=vcs, covers=covers, gen_s=tgen, solve_s=tsolve)
