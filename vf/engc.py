"""Engine C: verification-condition generator over the clang AST of the real C kernels.

Symbolic execution with ite-merging of branches (weakest-precondition style), loops cut by
sidecar invariants or fully unrolled, calls replaced by callee contracts.  See DESIGN.md 2.
Obligations are returned as standalone problems (hypotheses + goal) for solve.py.
"""
import ast, itertools, re
import z3
from .cexpr import (I, R, B, D, BI, Ptr, Region, SymEnv, ContractError, dconst, toint, toreal, fresh, parsec)
from . import cast

RANGE = {'int': (-2**31, 2**31 - 1), 'long long': (-2**63, 2**63 - 1), 'unsigned long': (0, 2**64 - 1),
         'long': (-2**63, 2**63 - 1), 'unsigned int': (0, 2**32 - 1)}
SIZEOF = {'int': 4, 'long long': 8, 'double': 8, 'long': 8, 'unsigned long': 8}
NANV = D(z3.BoolVal(True), z3.RealVal(0))
_splitcnt = itertools.count()


class Unsupported(Exception):
    """construct outside the supported subset -> undecided (exit 2), never a pass"""


class Drift(Exception):
    """sidecar contract no longer matches the code (loop ordinal / anchor / signature)"""


def ctype(q):
    q = q.replace('const ', '').replace(' const', '').strip()
    q = re.sub(r'\s+', ' ', q)
    if q in ('int', 'long long', 'double', 'unsigned long', 'long', 'void', 'unsigned int'):
        return q
    if q == 'size_t':
        return 'unsigned long'
    m = re.match(r'^(.*)\(\*\)\[(\d+)\]$', q)
    if m:
        return ('ptr', ('arr', ctype(m.group(1)), int(m.group(2))))
    if q.endswith('*'):
        return ('ptr', ctype(q[:-1]))
    m = re.match(r'^(.*)\[(\d+)\]$', q)
    if m:
        return ('arr', ctype(m.group(1)), int(m.group(2)))
    raise Unsupported('type ' + q)


def base_elt(t):
    while isinstance(t, tuple):
        t = t[1]
    return t


class State:
    __slots__ = ('vars', 'mem', 'guard', 'alive')

    def __init__(self):
        self.vars = {}; self.mem = {}; self.guard = z3.BoolVal(True); self.alive = {}

    def copy(self):
        t = State(); t.vars = dict(self.vars); t.mem = dict(self.mem); t.guard = self.guard
        t.alive = dict(self.alive); return t


def ite_val(c, a, b):
    if a is b:
        return a
    if isinstance(a, D) or isinstance(b, D):
        return D(z3.If(c, a.nan, b.nan), z3.If(c, a.val, b.val))
    if isinstance(a, Ptr) or isinstance(b, Ptr):
        if not (isinstance(a, Ptr) and isinstance(b, Ptr)) or a.region is not b.region:
            raise Unsupported('pointer merge across regions')
        return Ptr(a.region, z3.If(c, a.off, b.off), z3.If(c, a.null, b.null), a.inner)
    if isinstance(a, BI) and isinstance(b, BI):
        return BI(z3.If(c, a.c, b.c))
    return z3.If(c, toint(a), toint(b))


def merge(states):
    states = [s for s in states if s is not None]
    if not states:
        return None
    out = states[0]
    for s in states[1:]:
        n = State(); n.guard = z3.Or(out.guard, s.guard)
        for k in out.vars:
            if k not in s.vars:
                continue
            a = out.vars[k]; b = s.vars[k]
            if (isinstance(a, tuple) or isinstance(b, tuple)) and a is not b:
                continue            # pointer variable not yet assigned on one side: unusable after the merge
            try:
                n.vars[k] = ite_val(out.guard, a, b)
            except Unsupported:
                continue
        for k in out.mem:
            a = out.mem[k]; b = s.mem.get(k)
            if b is None:
                continue
            if isinstance(a, tuple):
                n.mem[k] = a if (a[0] is b[0] and a[1] is b[1]) else (z3.If(out.guard, a[0], b[0]), z3.If(out.guard, a[1], b[1]))
            else:
                n.mem[k] = a if a is b else z3.If(out.guard, a, b)
        for k in out.alive:
            if k in s.alive:
                a = out.alive[k]; b = s.alive[k]
                n.alive[k] = a if a is b else z3.If(out.guard, a, b)
        out = n
    return out


def fresh_mem(name, elt):
    if elt == 'double':
        return (fresh(name + '!n', z3.ArraySort(I, B)), fresh(name + '!v', z3.ArraySort(I, R)))
    return fresh(name + '!m', z3.ArraySort(I, I))


class Obligation:
    __slots__ = ('id', 'kind', 'fn', 'line', 'hyp', 'goal', 'note', 'text')

    def __init__(self, id, kind, fn, line, hyp, goal, note='', text=''):
        self.id = id; self.kind = kind; self.fn = fn; self.line = line; self.hyp = hyp; self.goal = goal
        self.note = note; self.text = text


class VCGen:
    """one instance per C file; .function(name) generates the obligations of one function"""

    def __init__(self, tu, cf, consts=None):
        self.tu = tu; self.funcs = tu['functions']; self.protos = tu['protos']
        self.cf = cf; self.contracts = cf.kernels; self.specs = cf.specs
        self.consts = dict(consts or {})
        self.relpath = tu['relpath']
        self.ghostfuns = {}
        self.mathfuns = {}
        self.mathterms = []

    # ------------------------------------------------------------------ math
    def math(self, name, x):
        f = self.mathfuns.get(name)
        if f is None:
            f = self.mathfuns[name] = z3.Function('m_' + name, R, R)
        t = f(x)
        key = (name, x.sexpr())
        if key not in [k for k, _, _ in self.mathterms]:
            self.mathterms.append((key, x, t))
            ax = []
            if name == 'sqrt':
                # linear facts (always available) and the defining nonlinear one (left out of the first, cheapest attempt)
                self.assumes.append(z3.Implies(x >= 0, z3.And(t >= 0, (x == 0) == (t == 0), (x == 1) == (t == 1), (x < 1) == (t < 1))))
                ax.append(z3.Implies(x >= 0, t * t == x))
                for (k2, x2, t2) in self.mathterms:
                    if k2[0] == 'sqrt' and k2 != key:
                        self.assumes.append(z3.Implies(z3.And(x >= 0, x2 >= 0), z3.And((x <= x2) == (t <= t2), (x == x2) == (t == t2))))
            if name == 'exp':
                ax.append(t > 0)
                ax.append((x == 0) == (t == 1))
                ax.append((x < 0) == (t < 1))
            if name == 'log':
                ax.append(z3.Implies(x > 0, z3.And((x == 1) == (t == 0), (x < 1) == (t < 0))))
            for a in ax:
                self.assumes.append(a); self.math_axioms.add(a.get_id())
        return t

    def rmul(self, a, b):
        """real product; with the kernel option uf_mul, a product of two non-constant terms is an uninterpreted
        function application (only congruence is known about it: sound, weaker, much cheaper than nonlinear arithmetic)"""
        if not getattr(self, 'uf_mul', False):
            return a * b
        sa = z3.simplify(a); sb = z3.simplify(b)
        if z3.is_rational_value(sa) or z3.is_rational_value(sb) or z3.is_int_value(sa) or z3.is_int_value(sb):
            return a * b
        if self._rmul is None:
            self._rmul = z3.Function('rmul', R, R, R)
            x_, y_ = z3.Reals('x!rm y!rm')
            self.assumes.append(z3.ForAll([x_, y_], self._rmul(x_, y_) == self._rmul(y_, x_), patterns=[self._rmul(x_, y_)]))   # commutative
        t = self._rmul(a, b)
        # the arithmetic facts kept about products: a square is non-negative; a product with a zero factor is zero
        key = t.get_id()
        if key not in self._rmul_seen:
            self._rmul_seen.add(key)
            if a.eq(b):
                self.assumes.append(t >= 0)
        return t

    def rdiv(self, a, b):
        """real quotient; with the kernel option uf_mul, a quotient by a non-constant term is an uninterpreted function
        application (only congruence is known about it)"""
        if not getattr(self, 'uf_mul', False):
            return a / b
        sb = z3.simplify(b)
        if z3.is_rational_value(sb) or z3.is_int_value(sb):
            return a / b
        if getattr(self, '_rdiv', None) is None:
            self._rdiv = z3.Function('rdiv', R, R, R)
        return self._rdiv(a, b)

    # ------------------------------------------------------------------ obligations
    def oblige(self, st, kind, goal, node=None, note='', text=''):
        line = node.get('line') if isinstance(node, dict) else node
        if isinstance(goal, bool):
            goal = z3.BoolVal(goal)
        n = self.counter[(kind, line)] = self.counter.get((kind, line), 0) + 1
        oid = '%s/%s/%s/L%s.%d' % (self.relpath.split('/')[-1], self.fname, kind, line, n)
        self.obls.append(Obligation(oid, kind, self.fname, line, list(self.assumes) + [st.guard], goal, note, text))

    def assume(self, st, f):
        self.assumes.append(z3.Implies(st.guard, f) if st is not None else f)

    # ------------------------------------------------------------------ memory
    def check_access(self, st, p, node, write):
        r = p.region
        ok = z3.And(z3.Not(p.null), p.off >= 0, p.off < r.length)
        if r.name in st.alive:
            ok = z3.And(ok, st.alive[r.name])
        self.oblige(st, 'bounds', ok, node, note='%s %s' % ('write' if write else 'read', r.name))
        if write and r.kind == 'param':
            self.oblige(st, 'assigns', self.in_assigns(r, p.off), node, note='write %s' % r.name)

    def rd(self, st, p, node):
        self.check_access(st, p, node, False)
        return self.rd_nocheck(st, p)

    def rd_nocheck(self, st, p):
        r = p.region
        m = st.mem[r.name]
        if r.elt == 'double':
            return D(z3.Select(m[0], p.off), z3.Select(m[1], p.off))
        v = z3.Select(m, p.off)
        lo, hi = RANGE[r.elt]
        self.assumes.append(z3.And(v >= lo, v <= hi))
        return v

    def wr(self, st, p, v, node):
        self.check_access(st, p, node, True)
        r = p.region
        m = st.mem[r.name]
        if r.elt == 'double':
            v = self.todouble(v)
            st.mem[r.name] = (z3.Store(m[0], p.off, v.nan), z3.Store(m[1], p.off, v.val))
        else:
            st.mem[r.name] = z3.Store(m, p.off, toint(v))

    def in_assigns(self, r, off):
        cs = [z3.And(off >= lo, off < hi) for (rn, lo, hi) in self.assigns if rn == r.name]
        return z3.Or(*cs) if cs else z3.BoolVal(False)

    def todouble(self, v):
        if isinstance(v, D):
            return v
        return D(z3.BoolVal(False), toreal(v))

    # ------------------------------------------------------------------ lvalues
    def strip(self, n):
        while n['kind'] in ('ParenExpr',) or (n['kind'] in ('ImplicitCastExpr', 'CStyleCastExpr') and n.get('castKind') in ('NoOp',)):
            n = n['inner'][0]
        return n

    def lval(self, st, n):
        k = n['kind']
        if k == 'ParenExpr':
            return self.lval(st, n['inner'][0])
        if k == 'DeclRefExpr':
            return ('var', n['ref'])
        if k == 'ArraySubscriptExpr':
            base = self.ev(st, n['inner'][0]); idx = toint(self.ev(st, n['inner'][1]))
            if not isinstance(base, Ptr):
                raise Unsupported('subscript of non-pointer')
            return ('mem', Ptr(base.region, base.off + idx * base.inner, base.null, 1))
        if k == 'UnaryOperator' and n['opcode'] == '*':
            p = self.ev(st, n['inner'][0])
            if not isinstance(p, Ptr):
                raise Unsupported('deref of non-pointer')
            return ('mem', Ptr(p.region, p.off, p.null, 1))
        raise Unsupported('lvalue ' + k)

    def load(self, st, lv, node):
        if lv[0] == 'var':
            if lv[1] not in st.vars:
                if lv[1] in ('stdout', 'stderr'):
                    return ('file', lv[1])
                raise Unsupported('unknown variable ' + lv[1])
            return st.vars[lv[1]]
        return self.rd(st, lv[1], node)

    # ------------------------------------------------------------------ expressions
    def chk_int(self, st, v, t, n, kind='overflow'):
        if t in RANGE:
            lo, hi = RANGE[t]
            s = z3.simplify(v)
            if z3.is_int_value(s) and lo <= s.as_long() <= hi:
                return v
            self.oblige(st, kind, z3.And(v >= lo, v <= hi), n, note='%s result in %s' % (kind, t))
        return v

    def truth(self, v):
        if isinstance(v, BI):
            return v.c
        if isinstance(v, D):
            return z3.Or(v.nan, v.val != 0)
        if isinstance(v, Ptr):
            return z3.Not(v.null)
        return v != 0

    def cdiv(self, a, b):
        """C truncating division on mathematical ints"""
        return z3.If(b > 0, z3.If(a >= 0, a / b, -((-a) / b)), z3.If(a >= 0, -(a / (-b)), (-a) / (-b)))

    def is_static_zero(self, n):
        n = self.strip(n)
        while n['kind'] == 'ImplicitCastExpr' and n.get('castKind') == 'LValueToRValue':
            n = self.strip(n['inner'][0])
        return n['kind'] == 'DeclRefExpr' and n['ref'] in self.static_zero

    def is_literal(self, n):
        n = self.strip(n)
        while n['kind'] == 'ImplicitCastExpr' and n.get('castKind') in ('IntegralToFloating',):
            n = self.strip(n['inner'][0])
        return n['kind'] in ('FloatingLiteral', 'IntegerLiteral')

    def nan_idiom(self, n):
        """zero/zero  and  c/zero*zero  on a never-assigned `static double zero = 0.0`"""
        n = self.strip(n)
        if n['kind'] != 'BinaryOperator':
            return False
        a, b = n['inner']
        if n['opcode'] == '/':
            return self.is_static_zero(a) and self.is_static_zero(b)
        if n['opcode'] == '*' and self.is_static_zero(b):
            a = self.strip(a)
            return a['kind'] == 'BinaryOperator' and a['opcode'] == '/' and self.is_literal(a['inner'][0]) and self.is_static_zero(a['inner'][1])
        return False

    def arith(self, st, op, a, b, t, n):
        """binary arithmetic/comparison on evaluated operands; t = C result type"""
        if isinstance(a, Ptr) or isinstance(b, Ptr):
            if op in ('==', '!=') and isinstance(a, Ptr) and isinstance(b, Ptr):
                if a.region is b.region:
                    c = z3.Or(z3.And(a.null, b.null), z3.And(z3.Not(a.null), z3.Not(b.null), a.off == b.off))
                else:
                    c = z3.And(a.null, b.null)
                return BI(c if op == '==' else z3.Not(c))
            if op in ('+', '-') and isinstance(a, Ptr) and not isinstance(b, Ptr):
                b = toint(b) * a.inner
                return Ptr(a.region, a.off + b if op == '+' else a.off - b, a.null, a.inner)
            raise Unsupported('pointer arithmetic ' + op)
        if isinstance(a, D) or isinstance(b, D):
            a = self.todouble(a); b = self.todouble(b)
            nan = z3.Or(a.nan, b.nan)
            if op == '+':
                return D(nan, a.val + b.val)
            if op == '-':
                return D(nan, a.val - b.val)
            if op == '*':
                return D(nan, self.rmul(a.val, b.val))
            if op == '/':
                # IEEE division by zero does not trap: x/0 = +-inf, 0/0 = NaN.  There is no infinity in the model, so the
                # result is then an ARBITRARY double (any real or NaN): everything downstream must hold for any value.
                hv = fresh('fdivz', R); hn = fresh('fdivz!n', B)
                self.trusted.add('x/0.0 (+-inf) is modelled as an arbitrary double, not as an infinity')
                return D(z3.Or(nan, z3.And(b.val == 0, z3.Or(a.val == 0, hn))), z3.If(b.val == 0, hv, self.rdiv(a.val, b.val)))
            cmp = {'<': lambda x, y: x < y, '>': lambda x, y: x > y, '<=': lambda x, y: x <= y,
                   '>=': lambda x, y: x >= y, '==': lambda x, y: x == y}
            if op in cmp:
                return BI(z3.And(z3.Not(nan), cmp[op](a.val, b.val)))
            if op == '!=':
                return BI(z3.Or(nan, a.val != b.val))
            raise Unsupported('double operator ' + op)
        if op in ('|', '&') and isinstance(a, BI) and isinstance(b, BI):
            return BI(z3.Or(a.c, b.c) if op == '|' else z3.And(a.c, b.c))
        a = toint(a); b = toint(b)
        if op == '+':
            return self.chk_int(st, a + b, t, n)
        if op == '-':
            return self.chk_int(st, a - b, t, n)
        if op == '*':
            return self.chk_int(st, a * b, t, n)
        if op in ('/', '%'):
            self.oblige(st, 'divzero', b != 0, n, note='integer division by zero')
            q = self.cdiv(a, b)
            r = a - b * q
            # valid consequences of truncating division, stated explicitly to spare the solver nonlinear search
            # (remainder has the sign of the dividend and is smaller than the divisor; quotient no larger than the dividend)
            self.assumes.append(z3.Implies(b > 0, z3.And(z3.Implies(a >= 0, z3.And(r >= 0, r < b, q >= 0, q <= a)),
                                                         z3.Implies(a < 0, z3.And(r <= 0, r > -b, q <= 0, q >= a)))))
            self.assumes.append(z3.Implies(b < 0, z3.And(z3.Implies(a >= 0, z3.And(r >= 0, r < -b, q <= 0, q >= -a)),
                                                         z3.Implies(a < 0, z3.And(r <= 0, r > b, q >= 0, q <= -a)))))
            self.trusted.add('C integer division truncates toward zero: sign and size of quotient and remainder stated as facts')
            if op == '/':
                return self.chk_int(st, q, t, n)
            return r
        cmp = {'<': a < b, '>': a > b, '<=': a <= b, '>=': a >= b, '==': a == b, '!=': a != b}
        if op in cmp:
            return BI(cmp[op])
        raise Unsupported('int operator ' + op)

    def ev(self, st, n):
        k = n['kind']; t = n.get('type')
        if k == 'ParenExpr':
            return self.ev(st, n['inner'][0])
        if k == 'IntegerLiteral':
            return z3.IntVal(int(n['value']))
        if k == 'FloatingLiteral':
            return dconst(n['value'])
        if k == 'DeclRefExpr':
            name = n['ref']
            if name not in st.vars:
                if n.get('refkind') == 'FunctionDecl':
                    return ('func', name)
                if name in ('stdout', 'stderr'):
                    return ('file', name)
                raise Unsupported('unknown variable ' + name)
            return st.vars[name]
        if k in ('ImplicitCastExpr', 'CStyleCastExpr'):
            ck = n['castKind']; sub = n['inner'][0]
            if ck == 'LValueToRValue':
                return self.load(st, self.lval(st, sub), n)
            if ck in ('FunctionToPointerDecay', 'BuiltinFnToFnPtr'):
                return self.ev(st, sub)
            if ck == 'NullToPointer':
                return ('null',)
            v = self.ev(st, sub)
            if ck == 'NoOp':
                return v
            if ck == 'IntegralCast':
                tt = ctype(t)
                if isinstance(v, BI):
                    return v
                st_t = ctype(sub['type'])
                if tt in RANGE and st_t in RANGE:
                    lo, hi = RANGE[tt]; slo, shi = RANGE[st_t]
                    if slo < lo or shi > hi:
                        self.chk_int(st, v, tt, n, 'narrow')
                return v
            if ck == 'IntegralToFloating':
                return D(z3.BoolVal(False), toreal(toint(v)))
            if ck == 'FloatingToIntegral':
                tt = ctype(t); lo, hi = RANGE[tt]
                tr = z3.If(v.val >= 0, z3.ToInt(v.val), -z3.ToInt(-v.val))
                ok = z3.And(z3.Not(v.nan), v.val > lo - 1, v.val < hi + 1)
                self.oblige(st, 'fcast', ok, n, note='float-to-%s cast: operand not NaN and in range' % tt)
                hv = fresh('fcast', I); self.assumes.append(z3.And(hv >= lo, hv <= hi))
                return z3.If(ok, tr, hv)
            if ck == 'ArrayToPointerDecay':
                return v
            if ck == 'BitCast':
                if isinstance(v, Ptr) and v.region.elt == 'void' and v.region.kind == 'heap':
                    return self.fix_malloc_type(st, v, t)
                return v
            if ck == 'FloatingCast':
                return v
            if ck == 'PointerToBoolean':
                return BI(z3.Not(v.null))
            if ck == 'IntegralToBoolean':
                return BI(self.truth(v))
            raise Unsupported('cast ' + ck)
        if k == 'ArraySubscriptExpr':
            tt = ctype(t) if t else None
            if isinstance(tt, tuple) and tt[0] == 'arr':
                base = self.ev(st, n['inner'][0]); idx = toint(self.ev(st, n['inner'][1]))
                return Ptr(base.region, base.off + idx * base.inner, base.null, 1)
            return self.load(st, self.lval(st, n), n)
        if k == 'UnaryExprOrTypeTraitExpr':
            if n.get('name') != 'sizeof':
                raise Unsupported('type trait ' + str(n.get('name')))
            ty = n.get('argType') or n['inner'][0]['type']
            return z3.IntVal(self.sizeof(ctype(ty)))
        if k == 'UnaryOperator':
            op = n['opcode']
            if op == '-':
                v = self.ev(st, n['inner'][0])
                if isinstance(v, D):
                    return D(v.nan, -v.val)
                return self.chk_int(st, -toint(v), ctype(t), n)
            if op == '+':
                return self.ev(st, n['inner'][0])
            if op == '!':
                return BI(z3.Not(self.truth(self.ev(st, n['inner'][0]))))
            if op == '~':
                v = toint(self.ev(st, n['inner'][0]))
                return -v - 1
            if op in ('++', '--'):
                lv = self.lval(st, n['inner'][0]); old = self.load(st, lv, n)
                if isinstance(old, D):
                    new = D(old.nan, old.val + (1 if op == '++' else -1))
                elif isinstance(old, Ptr):
                    raise Unsupported('pointer increment')
                else:
                    new = self.chk_int(st, toint(old) + (1 if op == '++' else -1), ctype(t), n)
                self.store(st, lv, new, n)
                return old if n.get('isPostfix') else new
            if op == '&':
                lv = self.lval(st, n['inner'][0])
                if lv[0] != 'mem':
                    raise Unsupported('address of a scalar variable')
                return lv[1]
            if op == '*':
                tt = ctype(t) if t else None
                if isinstance(tt, tuple) and tt[0] == 'arr':
                    p = self.ev(st, n['inner'][0]); return Ptr(p.region, p.off, p.null, 1)
                return self.load(st, self.lval(st, n), n)
            raise Unsupported('unary ' + op)
        if k == 'BinaryOperator':
            op = n['opcode']
            if op == '=':
                v = self.ev(st, n['inner'][1])
                if isinstance(v, tuple) and v[0] == 'null':
                    raise Unsupported('assignment of NULL')
                self.store(st, self.lval(st, n['inner'][0]), v, n)
                return v
            if op == ',':
                self.ev(st, n['inner'][0]); return self.ev(st, n['inner'][1])
            if op in ('&&', '||'):
                a = self.truth(self.ev(st, n['inner'][0]))
                g0 = st.guard
                st.guard = z3.And(g0, a if op == '&&' else z3.Not(a))
                try:
                    b = self.truth(self.ev(st, n['inner'][1]))    # right operand evaluated under the short-circuit guard
                finally:
                    st.guard = g0
                return BI(z3.And(a, b) if op == '&&' else z3.Or(a, b))
            if op == '*' or op == '/':
                if self.nan_idiom(n):
                    return NANV
            a = self.ev(st, n['inner'][0]); b = self.ev(st, n['inner'][1])
            if isinstance(a, tuple) or isinstance(b, tuple):
                # comparison with NULL
                p = a if isinstance(a, Ptr) else b
                if op == '==':
                    return BI(p.null)
                if op == '!=':
                    return BI(z3.Not(p.null))
                raise Unsupported('NULL in ' + op)
            return self.arith(st, op, a, b, ctype(t), n)
        if k == 'CompoundAssignOperator':
            op = n['opcode'][:-1]
            lv = self.lval(st, n['inner'][0]); old = self.load(st, lv, n)
            rhs = self.ev(st, n['inner'][1])
            ct = ctype(n.get('computeResultType') or t)
            if ct == 'double':
                old_c = self.todouble(old); rhs = self.todouble(rhs)
            else:
                old_c = old
            v = self.arith(st, op, old_c, rhs, ct, n)
            if isinstance(v, D) and not isinstance(old, D):
                raise Unsupported('compound assignment converting double to int')
            self.store(st, lv, v, n)
            return v
        if k == 'ConditionalOperator':
            c = self.truth(self.ev(st, n['inner'][0]))
            g0 = st.guard
            # both arms are evaluated symbolically under their guards (side effects would be merged: reject)
            st.guard = z3.And(g0, c); m0 = dict(st.mem); v0 = dict(st.vars)
            a = self.ev(st, n['inner'][1])
            st.guard = z3.And(g0, z3.Not(c))
            b = self.ev(st, n['inner'][2])
            st.guard = g0
            if any(st.mem[x] is not m0[x] for x in m0) or any(st.vars.get(x) is not v0[x] for x in v0):
                raise Unsupported('side effect inside ?:')
            if isinstance(a, D) or isinstance(b, D):
                a = self.todouble(a); b = self.todouble(b)
            return ite_val(c, a, b)
        if k == 'CallExpr':
            return self.call(st, n)
        if k == 'StringLiteral':
            return ('str',)
        if k == 'InitListExpr':
            return ('initlist', [self.ev(st, c) for c in n.get('inner', [])])
        raise Unsupported('expression ' + k)

    def sizeof(self, t):
        if isinstance(t, tuple):
            if t[0] == 'arr':
                return t[2] * self.sizeof(t[1])
            return 8
        return SIZEOF[t]

    # ------------------------------------------------------------------ calls
    def callee_name(self, n):
        c = n['inner'][0]
        while c['kind'] != 'DeclRefExpr':
            c = c['inner'][0]
        return c['ref']

    def call(self, st, n):
        name = self.callee_name(n)
        argn = n['inner'][1:]
        if name in ('fprintf', 'printf'):
            for a in argn:
                self.ev(st, a)          # evaluation safety of the arguments is still checked
            return z3.IntVal(0)
        if name == '__builtin_isnan' or name == 'isnan':
            v = self.ev(st, argn[0]); return BI(self.todouble(v).nan)
        if name in ('fabs', 'sqrt', 'exp', 'log', 'pow', 'fmin', 'fmax', 'floor', 'ceil'):
            args = [self.todouble(self.ev(st, a)) for a in argn]
            return self.libm(st, name, args, n)
        if name == 'abs':
            v = toint(self.ev(st, argn[0]))
            return self.chk_int(st, z3.If(v >= 0, v, -v), 'int', n)
        if name == 'malloc':
            return self.malloc(st, n)
        if name == 'free':
            p = self.ev(st, argn[0])
            if not isinstance(p, Ptr):
                raise Unsupported('free of non-pointer')
            rn = p.region.name
            if rn not in st.alive:
                self.oblige(st, 'free', z3.BoolVal(False), n, note='free of memory not obtained from malloc')
                return z3.IntVal(0)
            self.oblige(st, 'free', z3.Or(p.null, z3.And(p.off == 0, st.alive[rn])), n, note='free: NULL or live malloc block, once')
            st.alive[rn] = z3.And(st.alive[rn], p.null)
            return z3.IntVal(0)
        if name == 'qsort':
            return self.qsort(st, n)
        if name not in self.contracts or name not in (self.funcs.keys() | self.protos.keys()):
            raise Unsupported('call of %s: no contract' % name)
        return self.call_contract(st, n, name)

    def libm(self, st, name, args, n):
        a = args[0]
        if name == 'fabs':
            return D(a.nan, z3.If(a.val >= 0, a.val, -a.val))
        if name == 'floor':
            return D(a.nan, z3.ToReal(z3.ToInt(a.val)))
        if name == 'ceil':
            return D(a.nan, -z3.ToReal(z3.ToInt(-a.val)))
        if name == 'fmin' or name == 'fmax':
            b = args[1]
            pick = (a.val <= b.val) if name == 'fmin' else (a.val >= b.val)
            return D(z3.And(a.nan, b.nan), z3.If(a.nan, b.val, z3.If(b.nan, a.val, z3.If(pick, a.val, b.val))))
        if name == 'pow':
            b = args[1]
            e = z3.simplify(b.val)
            if z3.is_rational_value(e) and e.denominator_as_long() == 1 and 0 <= e.numerator_as_long() <= 4:
                r = z3.RealVal(1)
                for _ in range(e.numerator_as_long()):
                    r = r * a.val
                return D(a.nan, r)
            raise Unsupported('pow with non-literal exponent')
        if name == 'sqrt':
            # sqrt of a negative number is NaN (no trap)
            return D(z3.Or(a.nan, a.val < 0), self.math('sqrt', a.val))
        if name == 'exp':
            # overflow to +inf is outside the model (reals for doubles): listed in the trusted base
            return D(a.nan, self.math('exp', a.val))
        if name == 'log':
            hv = fresh('logz', R)      # log(0) = -inf: arbitrary double, see '/'
            return D(z3.Or(a.nan, a.val < 0), z3.If(a.val == 0, hv, self.math('log', a.val)))
        raise Unsupported(name)

    def malloc(self, st, n):
        size = toint(self.ev(st, n['inner'][1]))
        self.mallocs += 1
        rn = 'malloc!%d' % self.mallocs
        self.oblige(st, 'narrow', size >= 0, n, note='malloc size is non-negative')
        reg = Region(rn, 'void', fresh(rn + '!len', I), kind='heap')
        reg.bytes = size
        self.regions[rn] = reg
        null = fresh(rn + '!null', B)
        st.alive[rn] = z3.Not(null)
        self.pending_malloc = reg
        return Ptr(reg, z3.IntVal(0), null, 1)

    def fix_malloc_type(self, st, p, t):
        """called when a fresh malloc pointer is cast/assigned to a typed pointer"""
        reg = p.region
        if reg.elt != 'void':
            return p
        tt = ctype(t)
        inner = 1
        if isinstance(tt, tuple) and tt[0] == 'ptr':
            pt = tt[1]
            if isinstance(pt, tuple) and pt[0] == 'arr':
                inner = pt[2]
            elt = base_elt(pt)
        else:
            raise Unsupported('malloc result type ' + str(t))
        if elt == 'void':
            return p
        reg.elt = elt
        sz = SIZEOF[elt]
        self.assumes.append(z3.And(reg.length >= 0, reg.length * sz <= reg.bytes, reg.length * sz + sz > reg.bytes))
        st.mem[reg.name] = fresh_mem(reg.name, elt)
        return Ptr(reg, p.off, p.null, inner)

    def qsort(self, st, n):
        argn = n['inner'][1:]
        base = self.ev(st, argn[0]); cnt = toint(self.ev(st, argn[1])); size = toint(self.ev(st, argn[2]))
        cmpf = self.ev(st, argn[3])
        if not isinstance(base, Ptr):
            raise Unsupported('qsort base')
        reg = base.region
        esz = SIZEOF[reg.elt]
        sz = z3.simplify(size)
        if not z3.is_int_value(sz) or sz.as_long() % esz:
            raise Unsupported('qsort element size')
        stride = sz.as_long() // esz
        self.oblige(st, 'narrow', cnt >= 0, n, note='qsort count converted to size_t')
        ok = z3.And(z3.Not(base.null), base.off >= 0, base.off + cnt * stride <= reg.length)
        if reg.name in st.alive:
            ok = z3.And(ok, st.alive[reg.name])
        self.oblige(st, 'bounds', ok, n, note='qsort range inside %s' % reg.name)
        if reg.kind == 'param':
            j = z3.Int('j!qs')
            self.oblige(st, 'assigns', z3.Implies(cnt > 0, z3.And(self.in_assigns(reg, base.off), self.in_assigns(reg, base.off + cnt * stride - 1))), n, note='qsort writes ' + reg.name)
        old = st.mem[reg.name]
        new = fresh_mem(reg.name, reg.elt)
        j = fresh('j!qs', I)
        lo = base.off; hi = base.off + cnt * stride
        outside = z3.Or(j < lo, j >= hi)
        if reg.elt == 'double':
            self.assume(st, z3.ForAll([j], z3.Implies(outside, z3.And(new[0][j] == old[0][j], new[1][j] == old[1][j]))))
        else:
            self.assume(st, z3.ForAll([j], z3.Implies(outside, new[j] == old[j])))
        st.mem[reg.name] = new
        self.qsort_contract(st, reg, old, new, lo, cnt, stride, cmpf)
        return z3.IntVal(0)

    def qsort_contract(self, st, reg, old, new, lo, cnt, stride, cmpf):
        """ASSUMED contract of libc qsort (listed in the trusted base): the range is a permutation of its old
        content, non-decreasing w.r.t. the comparator (for the plain `compare` functions: by value, when no NaN)."""
        self.trusted.add('libc qsort: result is a permutation of the input range and non-decreasing w.r.t. the comparator')
        k = fresh('k!qs', I)
        if reg.elt == 'double' and stride == 1:
            nonan_old = z3.ForAll([k], z3.Implies(z3.And(k >= lo, k < lo + cnt), z3.Not(old[0][k])))
            self.assume(st, z3.Implies(nonan_old, z3.ForAll([k], z3.Implies(z3.And(k >= lo, k < lo + cnt), z3.Not(new[0][k])))))
            self.assume(st, z3.Implies(nonan_old, z3.ForAll([k], z3.Implies(z3.And(k >= lo, k + 1 < lo + cnt), new[1][k] <= new[1][k + 1]))))
            # permutation: every new element is an old element and conversely (set-level statement)
            k2 = fresh('k2!qs', I)
            self.assume(st, z3.ForAll([k], z3.Implies(z3.And(k >= lo, k < lo + cnt), z3.Exists([k2], z3.And(k2 >= lo, k2 < lo + cnt, new[1][k] == old[1][k2], new[0][k] == old[0][k2])))))
            k3 = fresh('k3!qs', I); k4 = fresh('k4!qs', I)
            self.assume(st, z3.ForAll([k3], z3.Implies(z3.And(k3 >= lo, k3 < lo + cnt), z3.Exists([k4], z3.And(k4 >= lo, k4 < lo + cnt, new[1][k4] == old[1][k3], new[0][k4] == old[0][k3])))))
        elif reg.elt in ('long long', 'int') and stride == 1:
            self.assume(st, z3.ForAll([k], z3.Implies(z3.And(k >= lo, k + 1 < lo + cnt), new[k] <= new[k + 1])))
            k2 = fresh('k2!qs', I)
            self.assume(st, z3.ForAll([k], z3.Implies(z3.And(k >= lo, k < lo + cnt), z3.Exists([k2], z3.And(k2 >= lo, k2 < lo + cnt, new[k] == old[k2])))))
        elif reg.elt == 'double' and stride == 2:
            # rows (value, index): rows are permuted as units
            k2 = fresh('k2!qs', I)
            self.assume(st, z3.ForAll([k], z3.Implies(z3.And(k >= 0, k < cnt), z3.Exists([k2], z3.And(k2 >= 0, k2 < cnt,
                        new[1][lo + 2 * k] == old[1][lo + 2 * k2], new[0][lo + 2 * k] == old[0][lo + 2 * k2],
                        new[1][lo + 2 * k + 1] == old[1][lo + 2 * k2 + 1], new[0][lo + 2 * k + 1] == old[0][lo + 2 * k2 + 1])))))
        else:
            raise Unsupported('qsort on %s stride %d' % (reg.elt, stride))

    def call_contract(self, st, n, name):
        c = self.contracts[name]
        if name in self.funcs:
            params = cast.params_of(self.funcs[name]); rett = cast.ret_type(self.funcs[name])
        else:
            params = self.protos[name]['params']; rett = self.protos[name]['ret']
        args = [self.ev(st, a) for a in n['inner'][1:]]
        if len(args) != len(params):
            raise Drift('call of %s: arity' % name)
        binds = {}
        for (pn, pt), a in zip(params, args):
            t = ctype(pt)
            if t == 'double':
                a = self.todouble(a)
            elif not isinstance(t, tuple):
                a = toint(a)
            binds[pn] = a
        self.called.add(name)
        env = SymEnv(self, st, binds, goal=True)
        for r in c.requires_:
            self.oblige(st, 'call-pre', env.boolean(r), n, note='%s requires %s' % (name, r), text=r)
        old = st.copy()
        for a in c.assigns_:
            rn, lo, hi = env.assigns_spec(a)
            reg = self.regions[rn]
            if reg.kind == 'param':
                self.oblige(st, 'assigns', z3.Implies(hi > lo, z3.And(self.in_assigns(reg, lo), self.in_assigns(reg, hi - 1))), n, note='%s assigns %s' % (name, a))
            newm = fresh_mem(rn, reg.elt)
            j = fresh('j!fr', I)
            out = z3.Or(j < lo, j >= hi)
            if reg.elt == 'double':
                self.assume(st, z3.ForAll([j], z3.Implies(out, z3.And(newm[0][j] == old.mem[rn][0][j], newm[1][j] == old.mem[rn][1][j]))))
            else:
                self.assume(st, z3.ForAll([j], z3.Implies(out, newm[j] == old.mem[rn][j])))
            st.mem[rn] = newm
        rt = ctype(rett)
        if rt == 'double':
            res = D(fresh(name + '!retn', B), fresh(name + '!ret', R))
        elif rt == 'void':
            res = None
        else:
            res = fresh(name + '!ret', I); lo, hi = RANGE[rt]; self.assumes.append(z3.And(res >= lo, res <= hi))
        env2 = SymEnv(self, st, binds, old=old, result=res)
        # in the callee's ensures, parameter names denote entry values = the actual arguments (binds)
        env2.old = self._old_with_binds(old, binds)
        callee_ghosts = set(g.name for g in getattr(c, 'ghosts', []))
        for e in c.ensures_:
            if callee_ghosts and any(re.search(r'\b%s\s*\(' % g, e) for g in callee_ghosts):
                # a clause over ghost functions private to the callee cannot be read at the call site: it is not assumed (sound: fewer hypotheses)
                continue
            self.assume(st, env2.boolean(e))
        return res

    def _old_with_binds(self, old, binds):
        o = old.copy(); o.vars = dict(old.vars); o.vars.update(binds); return o

    # ------------------------------------------------------------------ statements
    def ex(self, st, n):
        """execute statement; returns {'normal'|'return'|'break'|'continue': State}"""
        if st is None:
            return {}
        k = n.get('kind')
        if k is None:
            return {'normal': st}
        if k == 'CompoundStmt':
            out = {}; cur = st
            for c in n.get('inner', []):
                r = self.ex(cur, c); cur = r.pop('normal', None)
                for kk, v in r.items():
                    out[kk] = merge([out.get(kk), v])
                if cur is None:
                    break
            if cur is not None:
                out['normal'] = cur
            return out
        if k == 'DeclStmt':
            for d in n['inner']:
                self.decl(st, d)
            return {'normal': st}
        if k == 'NullStmt':
            return {'normal': st}
        if k == 'ReturnStmt':
            if n.get('inner'):
                v = self.ev(st, n['inner'][0])
                if self.rett == 'double':
                    v = self.todouble(v)
                st.vars['!ret'] = v
            self.return_states.append((st.copy(), n.get('line'), self.loop_ctx[-1] if self.loop_ctx else None))
            return {'return': st}
        if k == 'BreakStmt':
            return {'break': st}
        if k == 'ContinueStmt':
            return {'continue': st}
        if k == 'IfStmt':
            c = self.truth(self.ev(st, n['inner'][0]))
            a = st.copy(); a.guard = z3.And(st.guard, c)
            b = st.copy(); b.guard = z3.And(st.guard, z3.Not(c))
            ra = self.ex(a, n['inner'][1])
            rb = self.ex(b, n['inner'][2]) if len(n['inner']) > 2 else {'normal': b}
            if set(ra) == {'normal'} and set(rb) == {'normal'}:
                x = ra['normal']; y = rb['normal']
                same = (all(x.vars.get(k) is v for k, v in st.vars.items()) and all(y.vars.get(k) is v for k, v in st.vars.items())
                        and all(x.mem.get(k) is v for k, v in st.mem.items()) and all(y.mem.get(k) is v for k, v in st.mem.items())
                        and all(x.alive.get(k) is v for k, v in st.alive.items()) and all(y.alive.get(k) is v for k, v in st.alive.items())
                        and len(x.vars) == len(st.vars) and len(y.vars) == len(st.vars))
                if same:
                    return {'normal': st}      # an `if` without effect on the state (progress messages): keep the guard simple
            return {kk: merge([ra.get(kk), rb.get(kk)]) for kk in set(ra) | set(rb)}
        if k == 'ForStmt':
            init, _, cond, inc, body = n['inner']
            if init:
                if init.get('kind') == 'DeclStmt':
                    self.ex(st, init)
                else:
                    self.ev(st, init)
            return self.loop(st, n, cond, inc, body)
        if k == 'WhileStmt':
            cond, body = n['inner'][0], n['inner'][1]
            return self.loop(st, n, cond, None, body)
        if k in ('DoStmt', 'SwitchStmt', 'GotoStmt', 'LabelStmt'):
            raise Unsupported('statement ' + k)
        self.ev(st, n)
        return {'normal': st}

    def decl(self, st, d):
        if d.get('kind') != 'VarDecl':
            raise Unsupported('declaration ' + str(d.get('kind')))
        t = ctype(d['type']); name = d['name']
        init = d['inner'][0] if d.get('inner') else None
        if d.get('storageClass') == 'static':
            if name in self.static_zero:
                st.vars[name] = dconst(0); return
            raise Unsupported('static local ' + name)
        if isinstance(t, tuple) and t[0] == 'arr':
            elt = base_elt(t)
            total = 1; tt = t; inner = 1
            dims = []
            while isinstance(tt, tuple) and tt[0] == 'arr':
                dims.append(tt[2]); tt = tt[1]
            for dd in dims:
                total *= dd
            if len(dims) > 1:
                inner = total // dims[0]
            rn = 'local!' + name
            reg = Region(rn, elt, z3.IntVal(total), kind='local'); self.regions[rn] = reg
            st.mem[rn] = fresh_mem(rn, elt)
            st.vars[name] = Ptr(reg, z3.IntVal(0), None, inner)
            if init is not None:
                v = self.ev(st, init)
                if not (isinstance(v, tuple) and v[0] == 'initlist'):
                    raise Unsupported('array initialiser')
                vals = v[1] + [z3.IntVal(0)] * (total - len(v[1]))
                for i, x in enumerate(vals):
                    m = st.mem[rn]
                    if elt == 'double':
                        x = self.todouble(x); st.mem[rn] = (z3.Store(m[0], i, x.nan), z3.Store(m[1], i, x.val))
                    else:
                        st.mem[rn] = z3.Store(m, i, toint(x))
            return
        if isinstance(t, tuple) and t[0] == 'ptr':
            if init is not None:
                v = self.ev(st, init)
                if isinstance(v, Ptr):
                    v = self.fix_malloc_type(st, v, d['type']) if v.region.elt == 'void' and v.region.kind == 'heap' else v
                    st.vars[name] = v
                    st.vars[name + '!type'] = d['type']
                    return
                raise Unsupported('pointer initialiser')
            st.vars[name] = ('uninit-ptr', d['type'])
            return
        if init is not None:
            v = self.ev(st, init)
            st.vars[name] = self.todouble(v) if t == 'double' else v
        else:
            st.vars[name] = D(fresh(name + '!n', B), fresh(name, R)) if t == 'double' else self.fresh_int(name, t)

    def fresh_int(self, name, t):
        v = fresh(name, I); lo, hi = RANGE[t]; self.assumes.append(z3.And(v >= lo, v <= hi)); return v

    def store(self, st, lv, v, node, t=None):
        if lv[0] == 'var':
            old = st.vars.get(lv[1])
            if isinstance(old, tuple) and old and old[0] == 'uninit-ptr':
                if not isinstance(v, Ptr):
                    raise Unsupported('pointer variable assigned a non-pointer')
                if v.region.elt == 'void' and v.region.kind == 'heap':
                    v = self.fix_malloc_type(st, v, old[1])
                st.vars[lv[1]] = v
                return
            if isinstance(old, Ptr):
                if not isinstance(v, Ptr):
                    raise Unsupported('pointer variable assigned a non-pointer')
                st.vars[lv[1]] = v
                return
            if isinstance(old, D):
                v = self.todouble(v)
            elif isinstance(v, D):
                raise Unsupported('double stored to int variable without cast')
            elif isinstance(v, Ptr):
                raise Unsupported('pointer stored to scalar')
            st.vars[lv[1]] = v
        else:
            self.wr(st, lv[1], v, node)

    # ------------------------------------------------------------------ loops
    def assigned(self, n, acc_v, acc_m, decls=True):
        """syntactic over-approximation of what a statement assigns: variables, regions (by base variable), callees"""
        if not isinstance(n, dict):
            return
        k = n.get('kind')
        if k == 'BinaryOperator' and n.get('opcode') == '=':
            self.tgt(n['inner'][0], acc_v, acc_m)
        if k == 'CompoundAssignOperator':
            self.tgt(n['inner'][0], acc_v, acc_m)
        if k == 'UnaryOperator' and n['opcode'] in ('++', '--'):
            self.tgt(n['inner'][0], acc_v, acc_m)
        if k == 'DeclStmt' and decls:
            for d in n.get('inner', []):
                acc_v.add(d['name'])
        if k == 'CallExpr':
            acc_m.append(('call', n))
        for c in n.get('inner', []):
            self.assigned(c, acc_v, acc_m, decls)

    def tgt(self, n, acc_v, acc_m):
        n = self.strip(n)
        if n['kind'] == 'DeclRefExpr':
            acc_v.add(n['ref'])
        elif n['kind'] == 'ArraySubscriptExpr' or (n['kind'] == 'UnaryOperator' and n['opcode'] == '*'):
            b = n['inner'][0]
            while b['kind'] != 'DeclRefExpr':
                if b['kind'] == 'ArraySubscriptExpr' or b['kind'] in ('ImplicitCastExpr', 'ParenExpr', 'CStyleCastExpr', 'UnaryOperator'):
                    b = b['inner'][0]
                else:
                    raise Unsupported('assignment target')
            acc_m.append(('arr', b['ref']))
        else:
            raise Unsupported('assignment target ' + n['kind'])

    def havoc_for_loop(self, st, body_nodes):
        """fresh values for everything the loop body may assign"""
        av = set(); am = []
        for b in body_nodes:
            if b:
                self.assigned(b, av, am)
        h = st.copy()
        for v in sorted(av):
            if v not in h.vars:
                continue
            o = h.vars[v]
            if isinstance(o, D):
                h.vars[v] = D(fresh(v + '!n', B), fresh(v, R))
            elif isinstance(o, Ptr):
                raise Unsupported('pointer variable %s assigned inside a loop' % v)
            elif isinstance(o, tuple):
                raise Unsupported('pointer variable %s assigned inside a loop' % v)
            else:
                h.vars[v] = self.fresh_int(v, self.vartypes.get(v, 'long long'))
        regs = set()
        for m in am:
            if m[0] == 'arr':
                p = st.vars.get(m[1])
                if not isinstance(p, Ptr):
                    raise Unsupported('array write through %s' % m[1])
                regs.add(p.region.name)
            else:
                cn = m[1]; name = self.callee_name(cn)
                if name in ('fprintf', 'printf', '__builtin_isnan', 'fabs', 'sqrt', 'exp', 'log', 'pow', 'fmin', 'fmax', 'abs', 'floor', 'ceil'):
                    continue
                if name == 'malloc':
                    raise Unsupported('malloc inside a cut loop')
                if name == 'free':
                    continue        # allowed on paths that leave the loop: checked by the `free-in-loop` obligation below
                if name == 'qsort':
                    b = cn['inner'][1]
                    while b['kind'] != 'DeclRefExpr':
                        b = b['inner'][0]
                    regs.add(st.vars[b['ref']].region.name); continue
                c = self.contracts.get(name)
                if c is None:
                    raise Unsupported('call of %s inside loop: no contract' % name)
                fnode = self.funcs.get(name)
                params = [p for p, _ in (cast.params_of(fnode) if fnode else self.protos[name]['params'])]
                for a in c.assigns_:
                    pn = parsec(a).value.id
                    argnode = cn['inner'][1 + params.index(pn)]
                    b = argnode
                    while b['kind'] != 'DeclRefExpr':
                        b = b['inner'][0]
                    p = st.vars.get(b['ref'])
                    if not isinstance(p, Ptr):
                        raise Unsupported('callee assigns through %s' % b['ref'])
                    regs.add(p.region.name)
        for rn in sorted(regs):
            reg = self.regions[rn]
            old = h.mem[rn]; new = fresh_mem(rn, reg.elt)
            if reg.kind == 'param':
                # writes are individually proved to stay inside `assigns`: the rest of the region is unchanged
                j = fresh('j!lf', I)
                inside = self.in_assigns(reg, j)
                ent = self.entry.mem[rn]
                if reg.elt == 'double':
                    self.assumes.append(z3.ForAll([j], z3.Implies(z3.Not(inside), z3.And(new[0][j] == ent[0][j], new[1][j] == ent[1][j]))))
                else:
                    self.assumes.append(z3.ForAll([j], z3.Implies(z3.Not(inside), new[j] == ent[j])))
            h.mem[rn] = new
        return h, av, regs

    def _is_step_of(self, stmt, var):
        """stmt is `var++`, `++var`, `var += 1` or `var = var + 1`"""
        try:
            s = self.strip(stmt)
            def isvar(x):
                x = self.strip(x)
                return x.get('kind') == 'DeclRefExpr' and (x.get('referencedDecl', {}).get('name') == var or x.get('ref') == var)
            def isone(x):
                x = self.strip(x)
                return x.get('kind') == 'IntegerLiteral' and str(x.get('value')) == '1'
            if s.get('kind') == 'UnaryOperator' and s.get('opcode') == '++':
                return isvar(s['inner'][0])
            if s.get('kind') == 'CompoundAssignOperator' and s.get('opcode') == '+=':
                return isvar(s['inner'][0]) and isone(s['inner'][1])
            if s.get('kind') == 'BinaryOperator' and s.get('opcode') == '=' and isvar(s['inner'][0]):
                r = self.strip(s['inner'][1])
                return r.get('kind') == 'BinaryOperator' and r.get('opcode') == '+' and ((isvar(r['inner'][0]) and isone(r['inner'][1])) or (isvar(r['inner'][1]) and isone(r['inner'][0])))
        except Exception:
            pass
        return False

    def _has_continue(self, n):
        if isinstance(n, dict):
            if n.get('kind') == 'ContinueStmt':
                return True
            if n.get('kind') in ('ForStmt', 'WhileStmt', 'DoStmt'):
                return False          # a continue in an inner loop belongs to that loop
            return any(self._has_continue(x) for x in n.get('inner', []))
        return False

    def loop(self, st, n, cond, inc, body):
        ordinal = self.loop_ordinals[id(n)]          # source order (stable under unrolling of enclosing loops)
        spec = self.contract.loops.get(ordinal)
        line = n.get('line')
        # The sidecar was written against a `for` or a `while` loop (recorded in contracts/locals.json); intermediate assertions (hints) sit
        # "before the step of the induction variable".  An equivalent rewriting for <-> while (step as last statement of the body, no `continue`)
        # is brought back to the recorded shape, so that the hints keep their meaning.
        rec = (getattr(self, 'loopkinds', None) or {}).get(self.fname.split('#')[0])
        if spec is not None and spec.var and rec and ordinal < len(rec) and rec[ordinal] != n.get('kind'):
            b = body if isinstance(body, dict) else None
            if rec[ordinal] == 'ForStmt' and n.get('kind') == 'WhileStmt' and inc is None and b and b.get('kind') == 'CompoundStmt' and b.get('inner') \
                    and self._is_step_of(b['inner'][-1], spec.var) and not self._has_continue(dict(kind='CompoundStmt', inner=b['inner'][:-1])):
                inc = b['inner'][-1]; body = dict(b, inner=b['inner'][:-1])
            elif rec[ordinal] == 'WhileStmt' and n.get('kind') == 'ForStmt' and inc is not None and self._is_step_of(inc, spec.var) and not self._has_continue(b):
                body = dict(kind='CompoundStmt', inner=(b['inner'] if b and b.get('kind') == 'CompoundStmt' else [b]) + [inc]); inc = None
        if spec is None or spec.unroll is not None or not spec.invariant:
            return self.unroll(st, n, cond, inc, body, spec.unroll if spec else None)
        # drift anchor: induction variable named in the sidecar must be assigned in the loop
        av = set(); am = []
        self.assigned(body, av, am)
        if inc:
            self.assigned(inc, av, am)
        if spec.var and spec.var not in av:
            raise Drift('%s loop %d (line %s): anchor variable %s is not assigned in this loop' % (self.fname, ordinal, line, spec.var))
        self.cutloops += 1
        env = SymEnv(self, st, {}, old=self.entry, goal=True); env.labels = {'loop': st}
        for iv in spec.invariant:
            self.oblige(st, 'inv-init', env.boolean(iv), line, note='loop %d invariant holds on entry: %s' % (ordinal, iv), text=iv)
        h, hv, hregs = self.havoc_for_loop(st, [body, inc])
        envh = SymEnv(self, h, {}, old=self.entry); envh.labels = {'loop': st}
        for iv in spec.invariant:
            self.assumes.append(z3.Implies(h.guard, envh.boolean(iv)))
        for (lname, ltxt) in spec.assume:
            self.assumes.append(z3.Implies(h.guard, envh.boolean(ltxt)))
            self.trusted.add('external lemma %s (Lean file lean/%s.lean, checked in the thorough tier), instance: %s' % (lname, lname, ltxt))
        hc = h.copy()
        c = self.truth(self.ev(hc, cond)) if cond else z3.BoolVal(True)
        b = hc.copy(); b.guard = z3.And(hc.guard, c)
        var0 = None
        if spec.variant:
            var0 = SymEnv(self, b, {}, old=self.entry, goal=True).num(SymEnv(self, b, {}, old=self.entry, goal=True).eval(spec.variant))
            self.oblige(b, 'variant', var0 >= 0, line, note='loop %d variant non-negative when the loop continues: %s' % (ordinal, spec.variant), text=spec.variant)
        self.loop_ctx.append(hc.vars.get(spec.var) if spec.var else None)
        try:
            r = self.ex(b, body)
        finally:
            self.loop_ctx.pop()
        nxt = merge([r.get('normal'), r.get('continue')])
        if nxt is not None:
            for rn, al in h.alive.items():
                if nxt.alive.get(rn) is not al:
                    self.oblige(nxt, 'free', nxt.alive[rn] == al, line, note='loop %d: memory freed in the body only on paths that leave the loop (%s)' % (ordinal, rn))
            if spec.hints:
                envb = SymEnv(self, nxt, {}, old=self.entry, goal=True); envb.labels = {'loop': st, 'iter': h}
                envb2 = SymEnv(self, nxt, {}, old=self.entry); envb2.labels = {'loop': st, 'iter': h}
                for ht in spec.hints:
                    self.oblige(nxt, 'hint', envb.boolean(ht), line, note='loop %d intermediate assertion at the end of the body: %s' % (ordinal, ht), text=ht)
                    self.assumes.append(z3.Implies(nxt.guard, envb2.boolean(ht)))
            if inc:
                self.ev(nxt, inc)
            envn = SymEnv(self, nxt, {}, old=self.entry, goal=True); envn.labels = {'loop': st}
            iv0 = hc.vars.get(spec.var) if spec.var else None
            for iv in spec.invariant:
                g = envn.boolean(iv)
                parts = self.split_at(g, iv0) if (iv0 is not None and z3.is_expr(iv0) and z3.is_int(iv0) and self.range_mentions(iv, spec.var)) else None
                if parts:
                    # quantified invariant: elements established by earlier iterations / the element of this iteration
                    self.oblige(nxt, 'inv-pres', parts[0], line, note='loop %d invariant preserved (earlier iterations): %s' % (ordinal, iv), text=iv)
                    self.oblige(nxt, 'inv-pres', parts[1], line, note='loop %d invariant preserved (this iteration): %s' % (ordinal, iv), text=iv)
                else:
                    self.oblige(nxt, 'inv-pres', g, line, note='loop %d invariant preserved: %s' % (ordinal, iv), text=iv)
            if spec.variant:
                var1 = envn.num(envn.eval(spec.variant))
                self.oblige(nxt, 'variant', var1 < var0, line, note='loop %d variant decreases: %s' % (ordinal, spec.variant), text=spec.variant)
            self.cover(nxt, 'loop %d body end' % ordinal, line)
        if not spec.variant:
            if self.syntactic_variant(cond, inc, body):
                self.terminating += 1
            else:
                self.nonterminating.append('%s loop %d (line %s)' % (self.fname, ordinal, line))
        else:
            self.terminating += 1
        ex_ = hc.copy(); ex_.guard = z3.And(hc.guard, z3.Not(c))
        out = {'normal': merge([ex_, r.get('break')])}
        if 'return' in r:
            out['return'] = r['return']
        if out['normal'] is not None:
            self.cover(out['normal'], 'after loop %d' % ordinal, line)
        return out

    def range_mentions(self, txt, var):
        """does the range of the outermost forall of this clause mention the induction variable?"""
        n = parsec(txt)
        while isinstance(n, ast.Call) and isinstance(n.func, ast.Name) and n.func.id == 'implies':
            n = n.args[1]
        if isinstance(n, ast.Call) and isinstance(n.func, ast.Name) and n.func.id == 'forall':
            return any(isinstance(x, ast.Name) and x.id == var for x in ast.walk(n.args[1]))
        return False

    def split_at(self, g, val):
        """ForAll k rest. B  ==  (ForAll k rest. k != val => B)  and  (ForAll rest. B[k := val])"""
        if z3.is_implies(g):
            sub = self.split_at(g.arg(1), val)
            if sub is None:
                return None
            return z3.Implies(g.arg(0), sub[0]), z3.Implies(g.arg(0), sub[1])
        if not (z3.is_quantifier(g) and g.is_forall()):
            return None
        n = g.num_vars()
        if g.var_sort(0) != I:
            return None
        vs = [z3.Const('%s!s%d' % (g.var_name(i), next(_splitcnt)), g.var_sort(i)) for i in range(n)]
        body = z3.substitute_vars(g.body(), *reversed(vs))
        k = vs[0]
        a = z3.ForAll(vs, z3.Implies(k != val, body))
        inst = z3.substitute(body, (k, val))
        b = z3.ForAll(vs[1:], inst) if n > 1 else inst
        return a, b

    def syntactic_variant(self, cond, inc, body):
        """for(...; i < N; i++) with i and N not assigned in the body"""
        if not cond or not inc:
            return False
        c = self.strip(cond)
        if c['kind'] != 'BinaryOperator' or c['opcode'] not in ('<', '<=', '>', '>='):
            return False
        i = self.strip(inc)
        if i['kind'] != 'UnaryOperator' or i['opcode'] not in ('++', '--'):
            return False
        iv = self.strip(i['inner'][0])
        if iv['kind'] != 'DeclRefExpr':
            return False
        up = i['opcode'] == '++'
        if up != (c['opcode'] in ('<', '<=')):
            return False
        av = set(); am = []
        self.assigned(body, av, am)
        names = set()

        def refs(n):
            if isinstance(n, dict):
                if n.get('kind') == 'DeclRefExpr':
                    names.add(n['ref'])
                for x in n.get('inner', []):
                    refs(x)
        refs(c)
        if names & av:
            return False
        # bound must not read memory written in the loop: only scalars allowed
        def hasmem(n):
            if isinstance(n, dict):
                if n.get('kind') in ('ArraySubscriptExpr', 'CallExpr') or (n.get('kind') == 'UnaryOperator' and n.get('opcode') == '*'):
                    return True
                return any(hasmem(x) for x in n.get('inner', []))
            return False
        return not hasmem(c)

    def unroll(self, st, n, cond, inc, body, limit):
        lim = limit if limit is not None else 16
        out = {}; cur = st; ordinal = self.loop_ordinals[id(n)]
        for it in range(lim + 1):
            cv = self.truth(self.ev(cur, cond)) if cond else z3.BoolVal(True)
            s = z3.simplify(cv)
            if z3.is_false(s):
                break
            if it == lim:
                if limit is None:
                    raise Unsupported('%s loop %d (line %s): no invariant in the sidecar and the trip count is not a literal' % (self.fname, ordinal, n.get('line')))
                # unwinding assertion: after `limit` iterations the loop condition is false
                self.oblige(cur, 'unwind', z3.Not(cv), n.get('line'), note='loop %d fully unrolled after %d iterations' % (ordinal, lim))
                break
            b = cur.copy(); b.guard = z3.And(cur.guard, cv)
            r = self.ex(b, body)
            nxt = merge([r.get('normal'), r.get('continue')])
            ex_ = cur.copy(); ex_.guard = z3.And(cur.guard, z3.Not(cv))
            out['normal'] = merge([out.get('normal'), ex_ if not z3.is_true(s) else None, r.get('break')])
            if 'return' in r:
                out['return'] = merge([out.get('return'), r['return']])
            if nxt is None:
                cur = None; break
            if inc:
                self.ev(nxt, inc)
            cur = nxt
        if cur is not None:
            out['normal'] = merge([out.get('normal'), cur])
        self.unrolled += 1
        self.terminating += 1
        return {k: v for k, v in out.items() if v is not None}

    def cover(self, st, what, line):
        self.covers.append(dict(id='%s/%s/cover/L%s.%d' % (self.relpath.split('/')[-1], self.fname, line, len(self.covers)),
                                what=what, hyp=list(self.assumes) + [st.guard]))

    # ------------------------------------------------------------------ ghost functions and lemmas
    def declare_ghosts(self):
        """three symbols per recursive ghost: f2 (goal terms), f1 (assumed terms), f0 (no unfolding): f2 -> f1 -> f0"""
        self.ghostfuns = {}; self.ghost_level = {}
        for gh in self.contract.ghosts:
            sort = {'int': I, 'real': R, 'bool': B}[gh.sort]
            sig = [I] * len(gh.params) + [sort]
            rec = gh.body is not None and re.search(r'\b%s\s*\(' % re.escape(gh.name), gh.body) is not None
            if rec:
                fns = [z3.Function('%s!%s!f%d' % (gh.name, self.fname, k), *sig) for k in range(3)]
            else:
                fns = [z3.Function('%s!%s' % (gh.name, self.fname), *sig)]
            self.ghostfuns[gh.name] = (fns, gh)

    def setup_ghosts(self, st):
        c = self.contract
        for gh in c.ghosts:
            fns, _ = self.ghostfuns[gh.name]
            if gh.body is None:
                # uninterpreted ghost (existential witness constrained only by `requires`, e.g. a height function)
                self.axioms_listed.append('ghost %s(%s): uninterpreted, constrained by requires only' % (gh.name, ','.join(gh.params)))
                continue
            # well-foundedness of the recursive definition first (consistency of the axiom), using only what
            # is already established: requires and the definitions of earlier ghosts
            self.check_decreases(gh)
            vs = [z3.Int('%s!g' % p) for p in gh.params]
            for lvl in range(len(fns) - 1, 0, -1) if len(fns) > 1 else [0]:
                # f_lvl(args) == body[f := f_(lvl-1)]
                self.ghost_level[gh.name] = max(lvl - 1, 0)
                env = SymEnv(self, self.entry, dict(zip(gh.params, vs)), old=self.entry)
                body = env.eval(gh.body)
                del self.ghost_level[gh.name]
                f = fns[lvl]
                if gh.sort == 'bool':
                    body = env.tobool(body); eq = f(*vs) == body
                elif gh.sort == 'real':
                    eq = f(*vs) == toreal(env.num(body))
                else:
                    eq = f(*vs) == env.num(body)
                self.assumes.append(z3.ForAll(vs, eq, patterns=[f(*vs)]))
                if lvl > 0:
                    self.assumes.append(z3.ForAll(vs, f(*vs) == fns[lvl - 1](*vs), patterns=[f(*vs)]))
            self.axioms_listed.append('definition of ghost %s(%s) := %s' % (gh.name, ','.join(gh.params), gh.body))
        for lm in c.lemmas:
            self.prove_lemma(lm)

    def check_decreases(self, gh):
        """every recursive call in the body has a smaller, non-negative measure under its path condition"""
        tree = parsec(gh.body)
        calls = []

        def walk(n, conds):
            if isinstance(n, ast.Call) and isinstance(n.func, ast.Name):
                f = n.func.id
                if f == 'ite':
                    walk(n.args[0], conds)
                    walk(n.args[1], conds + [(n.args[0], True)]); walk(n.args[2], conds + [(n.args[0], False)]); return
                if f == 'implies':
                    walk(n.args[0], conds); walk(n.args[1], conds + [(n.args[0], True)]); return
                if f in self.ghostfuns:
                    calls.append((n, list(conds)))
                for a in n.args:
                    walk(a, conds)
                return
            if isinstance(n, ast.BoolOp):
                acc = list(conds)
                for v in n.values:
                    walk(v, acc)
                    acc = acc + [(v, isinstance(n.op, ast.And))]
                return
            if isinstance(n, ast.IfExp):
                walk(n.test, conds); walk(n.body, conds + [(n.test, True)]); walk(n.orelse, conds + [(n.test, False)]); return
            for ch in ast.iter_child_nodes(n):
                walk(ch, conds)
        walk(tree, [])
        if not any(cn.func.id == gh.name for cn, _ in calls):
            for cn, _ in calls:
                order = [g.name for g in self.contract.ghosts]
                if order.index(cn.func.id) > order.index(gh.name):
                    raise ContractError('ghost %s calls later ghost %s' % (gh.name, cn.func.id))
            return
        if gh.decreases is None:
            raise ContractError('recursive ghost %s needs a decreases measure' % gh.name)
        vs = [z3.Int('%s!g' % p) for p in gh.params]
        env = SymEnv(self, self.entry, dict(zip(gh.params, vs)), old=self.entry)
        order = [g.name for g in self.contract.ghosts]
        m0 = env.num(env.eval(gh.decreases))
        st = State()
        for cn, conds in calls:
            callee = self.ghostfuns[cn.func.id][1]
            hyps = []
            for ce, pol in conds:
                v = env.tobool(env.e(ce)); hyps.append(v if pol else z3.Not(v))
            if callee.name != gh.name and order.index(callee.name) < order.index(gh.name):
                continue        # call of an earlier-defined ghost: no cycle
            if callee.name != gh.name:
                raise ContractError('ghost %s calls later ghost %s' % (gh.name, callee.name))
            args = [env.num(env.e(a)) for a in cn.args]
            env2 = SymEnv(self, self.entry, dict(zip(gh.params, args)), old=self.entry)
            m1 = env2.num(env2.eval(gh.decreases))
            st2 = State(); st2.guard = z3.And(*hyps) if hyps else z3.BoolVal(True)
            self.oblige(st2, 'ghost-wf', z3.And(m1 < m0, m1 >= 0), 0, note='recursive definition of %s is well-founded (measure %s)' % (gh.name, gh.decreases), text=gh.body)

    def prove_lemma(self, lm):
        st = State()
        fixed = {v: z3.Int('%s!l' % v) for v in lm.fixed}
        E = lambda binds, goal: SymEnv(self, self.entry, binds, old=self.entry, goal=goal)
        trig = [lm.trigger] if isinstance(lm.trigger, str) else (lm.trigger or [])
        if lm.var:
            v = z3.Int('%s!l' % lm.var)
            env = E(dict(fixed, **{lm.var: v}), False)
            lo = env.num(env.eval(lm.lo)); pre = env.boolean(lm.pre)
            st.guard = pre
            self.oblige(st, 'lemma-base', E(dict(fixed, **{lm.var: lo}), True).boolean(lm.stmt), 0, note='lemma %s, base case %s = %s' % (lm.name, lm.var, lm.lo), text=lm.stmt)
            st2 = State(); st2.guard = z3.And(pre, v >= lo, env.boolean(lm.stmt))
            self.oblige(st2, 'lemma-step', E(dict(fixed, **{lm.var: v + 1}), True).boolean(lm.stmt), 0, note='lemma %s, induction step on %s' % (lm.name, lm.var), text=lm.stmt)
            allv = list(fixed.values()) + [v]
            stmt = z3.Implies(z3.And(pre, v >= lo), env.boolean(lm.stmt))
            if lm.instance:
                # P(n) also holds below the base (usually vacuously): then every textual instance n := e is a
                # consequence, and only that instance is kept as an assumption
                st3 = State(); st3.guard = z3.And(pre, v < lo)
                self.oblige(st3, 'lemma-base', E(dict(fixed, **{lm.var: v}), True).boolean(lm.stmt), 0, note='lemma %s holds below the base %s < %s' % (lm.name, lm.var, lm.lo), text=lm.stmt)
                txt = re.sub(r'\b%s\b' % re.escape(lm.var), '(' + lm.instance + ')', lm.stmt)
                envi = E(dict(fixed), False)
                inst = envi.boolean(txt)
                fv = list(fixed.values())
                self.assumes.append(z3.ForAll(fv, z3.Implies(pre, inst)) if fv else z3.Implies(pre, inst))
                return
            pats = [self._pat(env, p) for p in trig]
        else:
            env = E(dict(fixed), False)
            pre = env.boolean(lm.pre); st.guard = pre
            self.oblige(st, 'lemma-base', E(dict(fixed), True).boolean(lm.stmt), 0, note='lemma %s' % lm.name, text=lm.stmt)
            allv = list(fixed.values())
            stmt = z3.Implies(pre, env.boolean(lm.stmt))
            pats = [self._pat(env, p) for p in trig]
        if allv:
            kw = {}
            if pats:
                kw['patterns'] = [z3.MultiPattern(*p) if len(p) > 1 else p[0] for p in pats]
            self.assumes.append(z3.ForAll(allv, stmt, **kw))
        else:
            self.assumes.append(stmt)

    def _pat(self, env, txt):
        terms = []
        for part in txt.split(';'):
            t = env.eval(part.strip())
            terms.append(t.val if isinstance(t, D) else t)
        return terms

    # ------------------------------------------------------------------ function
    def function(self, name):
        cname = name.split('#')[0]          # 'f#variant': a second contract (stronger requires) for the same function
        if cname not in self.funcs:
            raise Drift('function %s not found in %s' % (cname, self.relpath))
        if name not in self.contracts:
            raise Drift('no contract for %s' % name)
        self.fname = name; fn = self.funcs[cname]; c = self.contract = self.contracts[name]
        self.loopno = 0; self.assumes = []; self.regions = {}; self.obls = []; self.covers = []
        self.counter = {}; self.mallocs = 0; self.called = set(); self.trusted = set(); self.axioms_listed = []
        self.cutloops = 0; self.unrolled = 0; self.terminating = 0; self.nonterminating = []; self.return_states = []; self.loop_ctx = []
        self.mathterms = []; self.mathfuns = {}; self.ghost_level = {}; self.math_axioms = set()
        self.uf_mul = bool(c.options.get('uf_mul')); self._rmul = None; self._rmul_seen = set()
        self.rett = ctype(cast.ret_type(fn))
        body = cast.body_of(fn)
        # locals: types (for havoc ranges) and never-assigned `static double zero = 0.0`
        self.vartypes = {}; self.static_zero = set()
        statics = {}

        def scan(n):
            if isinstance(n, dict):
                if n.get('kind') == 'VarDecl':
                    try:
                        t = ctype(n['type'])
                    except Unsupported:
                        t = None
                    if not isinstance(t, tuple) and t:
                        self.vartypes[n['name']] = t
                    if n.get('storageClass') == 'static':
                        statics[n['name']] = n
                for x in n.get('inner', []):
                    scan(x)
        scan(body)
        self.loop_ordinals = {}

        def number(n):
            if isinstance(n, dict):
                if n.get('kind') in ('ForStmt', 'WhileStmt', 'DoStmt'):
                    self.loop_ordinals[id(n)] = len(self.loop_ordinals)
                for x in n.get('inner', []):
                    number(x)
        number(body)
        self.loopno = len(self.loop_ordinals)
        for k in c.loops:
            if k >= self.loopno:
                raise Drift('%s: the sidecar has a loop %d but the function has %d loops' % (name, k, self.loopno))
        av = set(); am = []
        self.assigned(body, av, am, decls=False)
        for sname, sn in statics.items():
            init = sn.get('inner', [None])[0]
            ok = (init is not None and self.strip(init)['kind'] in ('FloatingLiteral', 'IntegerLiteral')
                  and float(self.strip(init)['value']) == 0.0 and ctype(sn['type']) == 'double' and sname not in av)
            if ok:
                self.static_zero.add(sname)
        st = State()
        params = cast.params_of(fn)
        for pn, pt in params:
            pt = c.param_types.get(pn, pt)
            t = ctype(pt)
            self.vartypes[pn] = t if not isinstance(t, tuple) else 'ptr'
            if isinstance(t, tuple):
                elt = base_elt(t)
                reg = Region(pn, elt, z3.Int('len!' + pn), kind='param'); self.regions[pn] = reg
                self.assumes.append(reg.length >= 0)
                if elt == 'double':
                    st.mem[pn] = (z3.Const(pn + '!n0', z3.ArraySort(I, B)), z3.Const(pn + '!v0', z3.ArraySort(I, R)))
                elif elt == 'void':
                    raise Unsupported('void* parameter %s needs param_type' % pn)
                else:
                    st.mem[pn] = z3.Const(pn + '!m0', z3.ArraySort(I, I))
                st.vars[pn] = Ptr(reg, z3.IntVal(0), None, 1)
            elif t == 'double':
                st.vars[pn] = D(z3.Bool(pn + '!nan'), z3.Real(pn))
            else:
                v = z3.Int(pn); st.vars[pn] = v; lo, hi = RANGE[t]; self.assumes.append(z3.And(v >= lo, v <= hi))
        self.entry = st.copy()
        self.params = [p for p, _ in params]
        self.assigns = []
        env = SymEnv(self, st, {}, old=self.entry)
        self.declare_ghosts()
        self.requires_z3 = [env.boolean(r) for r in c.requires_]
        self.assumes += self.requires_z3
        self.assigns = [env.assigns_spec(a) for a in c.assigns_]
        self.setup_ghosts(st)
        self.n_requires_hyp = len(self.assumes)
        r = self.ex(st, body)
        fin = merge([r.get('return'), r.get('normal') if self.rett == 'void' else None])
        if r.get('normal') is not None and self.rett != 'void':
            # falling off the end of a non-void function
            self.oblige(r['normal'], 'post', z3.BoolVal(False), body.get('line'), note='control reaches the end of a non-void function')
        if fin is None:
            raise Unsupported('function %s never returns' % name)
        self.cover(fin, 'function exit', body.get('line'))
        # one group of postcondition obligations per return statement (states are not merged: simpler VCs)
        exits = list(self.return_states)
        if self.rett == 'void' and r.get('normal') is not None:
            exits.append((r['normal'], body.get('line'), None))
        for (fs, rline, ctx) in exits:
            post = fs.copy()
            for p in self.params:
                post.vars[p] = self.entry.vars[p]       # parameter names in `ensures` denote entry values
            res = fs.vars.get('!ret')
            envp = SymEnv(self, post, {}, old=self.entry, result=res, goal=True)
            for e in c.ensures_:
                g = envp.boolean(e)
                parts = None
                if ctx is not None and z3.is_expr(ctx) and z3.is_int(ctx):
                    # return from inside a cut loop: elements established by earlier iterations / by this one
                    parts = self.split_at(g, ctx)
                if parts:
                    self.oblige(fs, 'post', parts[0], 'ret%s' % rline, note='ensures (return at line %s, elements of earlier iterations) %s' % (rline, e), text=e)
                    self.oblige(fs, 'post', parts[1], 'ret%s' % rline, note='ensures (return at line %s, element of this iteration) %s' % (rline, e), text=e)
                else:
                    self.oblige(fs, 'post', g, 'ret%s' % rline, note='ensures (return at line %s) %s' % (rline, e), text=e)
        return self.obls
