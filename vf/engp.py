"""Engine P: the REAL Python source of hydrodiy executed by CPython on symbolic values (DESIGN.md 3).

Every float is a symbolic real with a NaN flag and an `inf` flag (value left the real model: x/0, log 0); every branch on a
symbolic condition forks; all feasible paths are enumerated; per path the contract's postcondition becomes a VC
`path condition and pre  =>  post`, discharged by z3/cvc5.  The code under analysis is the repository's own module object:
only the module-level names `np` and `math` are rebound (in this process) to thin proxies.

Derivatives: a symbolic value may carry its derivative with respect to one designated input (forward-mode differentiation by
the sum / product / quotient / chain rules, applied in the operator overloads) -- used for the Jacobian property C02.
"""
import math as _math, itertools, contextlib, types
import numpy as _np
import z3

R = z3.RealSort(); B = z3.BoolSort()
_cnt = itertools.count()


class PathLimit(Exception):
    pass


class Unsupported(Exception):
    pass


def rv(v):
    if isinstance(v, int):
        return z3.RealVal(v)
    return z3.RealVal(repr(float(v)))


# ------------------------------------------------------------------------------------------------ scheduler
class Ctx:
    def __init__(self, max_paths=4096):
        self.max_paths = max_paths
        self.dec = []; self.pos = 0; self.pc = []; self.both = {}
        self.base = []            # hypotheses common to all paths (preconditions)
        self.fun = {}             # uninterpreted math functions
        self.terms = []           # (name, arg, result) math applications of the current path
        self.axioms = []          # ground axiom instances of the current path
        self.domain = []          # (description, z3 Bool that must hold) implicit obligations of the current path
        self.solver_calls = 0

    def reset_path(self, dec):
        self.dec = list(dec); self.pos = 0; self.pc = []; self.both = {}; self.terms = []; self.axioms = []; self.domain = []

    def branch(self, cond):
        cond = z3.simplify(cond)
        if z3.is_true(cond):
            return True
        if z3.is_false(cond):
            return False
        if self.pos < len(self.dec):
            d = self.dec[self.pos]
        else:
            s = z3.Solver(); s.set('timeout', 4000)
            s.add(*self.base); s.add(*self.pc); s.add(*self.axioms)
            self.solver_calls += 2
            s.push(); s.add(cond); t = s.check() != z3.unsat; s.pop()
            s.push(); s.add(z3.Not(cond)); f = s.check() != z3.unsat; s.pop()
            if not t and not f:
                t = True          # infeasible path prefix (cannot happen for a feasible prefix): keep going, the VC will be vacuous
            d = True if t else False
            self.dec.append(d); self.both[self.pos] = (t and f)
        self.pos += 1
        self.pc.append(cond if d else z3.Not(cond))
        return d

    # ---- transcendental functions: uninterpreted + axiom instances on the ground terms that occur
    def app(self, name, x):
        f = self.fun.get(name)
        if f is None:
            f = self.fun[name] = z3.Function('m_' + name, R, R)
        x = z3.simplify(x)
        for (n2, x2, t2) in self.terms:
            if n2 == name and x2.eq(x):
                return t2
        t = f(x)
        self.terms.append((name, x, t))
        self.instantiate(name, x, t, depth=0)
        return t

    def instantiate(self, name, x, t, depth):
        A = self.axioms
        if name == 'exp':
            A.append(t > 0)
            A.append((x == 0) == (t == 1)); A.append((x > 0) == (t > 1))
            if depth < 2:
                lg = self._app_nodup('log', t, depth + 1)
                A.append(lg == x)                                  # log(exp x) = x
            for (n2, x2, t2) in list(self.terms):
                if n2 == 'exp' and not x2.eq(x):
                    A.append((x < x2) == (t < t2)); A.append((x == x2) == (t == t2))
                    if z3.simplify(x + x2).eq(z3.RealVal(0)):
                        A.append(t * t2 == 1)                      # exp(a) exp(-a) = 1
                    # exp(a) * exp(b) = exp(a+b) for pairs whose sum / difference already occurs
                    for (n3, x3, t3) in list(self.terms):
                        if n3 == 'exp' and z3.simplify(x3 - (x + x2)).eq(z3.RealVal(0)):
                            A.append(t3 == t * t2)
        if name == 'log':
            A.append(z3.Implies(x > 0, z3.And((x == 1) == (t == 0), (x > 1) == (t > 0))))
            if depth < 2:
                ex = self._app_nodup('exp', t, depth + 1)
                A.append(z3.Implies(x > 0, ex == x))               # exp(log x) = x for x > 0
            for (n2, x2, t2) in list(self.terms):
                if n2 == 'log' and not x2.eq(x):
                    A.append(z3.Implies(z3.And(x > 0, x2 > 0), z3.And((x < x2) == (t < t2), (x == x2) == (t == t2))))
        if name == 'sqrt':
            A.append(z3.Implies(x >= 0, z3.And(t >= 0, t * t == x)))
            for (n2, x2, t2) in list(self.terms):
                if n2 == 'sqrt' and not x2.eq(x):
                    A.append(z3.Implies(z3.And(x >= 0, x2 >= 0), z3.And((x < x2) == (t < t2), (x == x2) == (t == t2))))

    def linear_parts(self, x):
        """x as const + sum coeff_i * atom_i  (syntactic, after simplification)"""
        x = z3.simplify(x, som=True)
        terms = x.children() if z3.is_add(x) else [x]
        const = 0; parts = []
        from fractions import Fraction
        for t in terms:
            if z3.is_rational_value(t):
                const += t.as_fraction(); continue
            c = Fraction(1); a = t
            if z3.is_mul(t) and len(t.children()) == 2 and z3.is_rational_value(t.arg(0)):
                c = t.arg(0).as_fraction(); a = t.arg(1)
            parts.append((c, a))
        return const, parts

    def extra_axioms(self):
        """second round on the terms of the finished path: addition law of exp on linear combinations whose atoms' exponentials occur or are
        cheap to name, log of products / quotients.  Every instance is a valid real-analysis fact."""
        A = []
        fexp = self.fun.get('exp'); flog = self.fun.get('log')
        from fractions import Fraction
        if fexp is not None:
            for (n, x, t) in [q for q in self.terms if q[0] == 'exp']:
                const, parts = self.linear_parts(x)
                if len(parts) + (1 if const else 0) < 2 and not (len(parts) == 1 and parts[0][0] not in (1,)):
                    continue
                if any(c.denominator != 1 or abs(c) > 4 for c, _ in parts) or len(parts) > 4:
                    continue
                prod = z3.RealVal(1)
                ok = True
                for c, a in parts:
                    ea = fexp(a); A.append(ea > 0)
                    for _ in range(abs(int(c))):
                        prod = prod * ea if c > 0 else prod / ea
                if const:
                    ec = fexp(z3.RealVal(str(const))); A.append(ec > 0)
                    prod = prod * ec
                A.append(t == prod)
        if flog is not None:
            for (n, x, t) in [q for q in self.terms if q[0] == 'log']:
                xs = z3.simplify(x)
                if z3.is_mul(xs) and 2 <= len(xs.children()) <= 3:
                    fs = xs.children()
                    A.append(z3.Implies(z3.And(*[f > 0 for f in fs]), t == sum([flog(f) for f in fs][1:], flog(fs[0]))))
                if z3.is_div(xs):
                    u, v = xs.children()
                    A.append(z3.Implies(z3.And(u > 0, v > 0), t == flog(u) - flog(v)))
        return A

    def _app_nodup(self, name, x, depth):
        f = self.fun.get(name)
        if f is None:
            f = self.fun[name] = z3.Function('m_' + name, R, R)
        x = z3.simplify(x)
        for (n2, x2, t2) in self.terms:
            if n2 == name and x2.eq(x):
                return t2
        t = f(x)
        self.terms.append((name, x, t))
        self.instantiate(name, x, t, depth)
        return t


CTX = Ctx()


# ------------------------------------------------------------------------------------------------ symbolic values
class SymBool:
    __slots__ = ('e',)

    def __init__(self, e):
        self.e = e

    def __bool__(self):
        return CTX.branch(self.e)

    def __or__(self, o):
        if isinstance(o, _np.ndarray) and o.ndim > 0:
            return NotImplemented
        return SymBool(z3.Or(self.e, bl(o)))
    __ror__ = __or__

    def __and__(self, o):
        if isinstance(o, _np.ndarray) and o.ndim > 0:
            return NotImplemented
        return SymBool(z3.And(self.e, bl(o)))
    __rand__ = __and__

    def __invert__(self):
        return SymBool(z3.Not(self.e))

    def __repr__(self):
        return 'SymBool(%s)' % z3.simplify(self.e)


def bl(o):
    if isinstance(o, SymBool):
        return o.e
    if isinstance(o, (bool, _np.bool_)):
        return z3.BoolVal(bool(o))
    raise Unsupported('boolean operand %r' % (o,))


class SymReal:
    """val: z3 Real; nan: z3 Bool; inf: z3 Bool (the value left the real model: +-inf); d: derivative w.r.t. the designated input or None"""
    __slots__ = ('val', 'nan', 'inf', 'd')

    def __init__(self, val, nan=None, inf=None, d=None):
        self.val = val
        self.nan = z3.BoolVal(False) if nan is None else nan
        self.inf = z3.BoolVal(False) if inf is None else inf
        self.d = d

    # ---- helpers
    @staticmethod
    def lift(o):
        if isinstance(o, SymReal):
            return o
        if isinstance(o, (bool, _np.bool_)):
            o = float(o)
        if isinstance(o, (int, float, _np.integer, _np.floating)):
            o = float(o)
            if _math.isnan(o):
                return SymReal(rv(0), z3.BoolVal(True), None, rv(0))
            if _math.isinf(o):
                return SymReal(rv(1 if o > 0 else -1), None, z3.BoolVal(True), rv(0))
            return SymReal(rv(o), None, None, rv(0))
        if isinstance(o, _np.ndarray) and o.ndim == 0:
            return SymReal.lift(o.item())
        raise Unsupported('operand %r of type %s' % (o, type(o)))

    def _d(self):
        return self.d

    def _mk(self, o, val, d, extra_nan=None, extra_inf=None):
        nan = z3.Or(self.nan, o.nan) if o is not None else self.nan
        inf = z3.Or(self.inf, o.inf) if o is not None else self.inf
        if extra_nan is not None:
            nan = z3.Or(nan, extra_nan)
        if extra_inf is not None:
            inf = z3.Or(inf, extra_inf)
        return SymReal(val, z3.simplify(nan), z3.simplify(inf), d)

    @staticmethod
    def _dd(a, b, f):
        if a.d is None or b.d is None:
            return None
        return f(a.d, b.d)

    def __add__(self, o):
        if isinstance(o, _np.ndarray) and o.ndim > 0:
            return NotImplemented
        o = SymReal.lift(o); return self._mk(o, self.val + o.val, SymReal._dd(self, o, lambda x, y: x + y))
    __radd__ = __add__

    def __sub__(self, o):
        if isinstance(o, _np.ndarray) and o.ndim > 0:
            return NotImplemented
        o = SymReal.lift(o); return self._mk(o, self.val - o.val, SymReal._dd(self, o, lambda x, y: x - y))

    def __rsub__(self, o):
        if isinstance(o, _np.ndarray) and o.ndim > 0:
            return NotImplemented
        return SymReal.lift(o).__sub__(self)

    def __mul__(self, o):
        if isinstance(o, _np.ndarray) and o.ndim > 0:
            return NotImplemented
        o = SymReal.lift(o)
        d = SymReal._dd(self, o, lambda x, y: x * o.val + self.val * y)
        # inf * 0 is NaN in IEEE; with an `inf` operand the product stays flagged inf (never used unflagged)
        return self._mk(o, self.val * o.val, d)
    __rmul__ = __mul__

    def __truediv__(self, o):
        if isinstance(o, _np.ndarray) and o.ndim > 0:
            return NotImplemented
        o = SymReal.lift(o)
        d = SymReal._dd(self, o, lambda x, y: (x * o.val - self.val * y) / (o.val * o.val))
        zero = o.val == 0
        return self._mk(o, self.val / o.val, d, extra_nan=z3.And(zero, self.val == 0), extra_inf=z3.And(zero, self.val != 0))

    def __rtruediv__(self, o):
        if isinstance(o, _np.ndarray) and o.ndim > 0:
            return NotImplemented
        return SymReal.lift(o).__truediv__(self)

    def __neg__(self):
        return SymReal(-self.val, self.nan, self.inf, None if self.d is None else -self.d)

    def __pos__(self):
        return self

    def __abs__(self):
        return SymReal(z3.If(self.val >= 0, self.val, -self.val), self.nan, self.inf,
                       None if self.d is None else z3.If(self.val >= 0, self.d, -self.d))

    def __pow__(self, o):
        if isinstance(o, _np.ndarray) and o.ndim > 0:
            return NotImplemented
        o = SymReal.lift(o)
        e = z3.simplify(o.val)
        if z3.is_rational_value(e) and e.denominator_as_long() == 1 and abs(e.numerator_as_long()) <= 4 and z3.is_false(z3.simplify(o.nan)):
            n = e.numerator_as_long()
            r = SymReal(rv(1), None, None, rv(0))
            for _ in range(abs(n)):
                r = r * self
            return r if n >= 0 else (1.0 / r)
        # general power: a**b = exp(b*log a) for a > 0; negative base with a non-integer exponent is NaN; 0**b is 0 for b > 0
        lg = self.log()
        res = (o * lg).exp()
        zero_base = z3.And(self.val == 0, o.val > 0)
        val = z3.If(zero_base, rv(0), res.val)
        d = None
        if res.d is not None:
            d = z3.If(zero_base, rv(0), res.d)
        return SymReal(val, z3.simplify(z3.Or(self.nan, o.nan, self.val < 0)), z3.simplify(z3.Or(self.inf, o.inf, z3.And(self.val == 0, o.val < 0))), d)

    def __rpow__(self, o):
        if isinstance(o, _np.ndarray) and o.ndim > 0:
            return NotImplemented
        return SymReal.lift(o).__pow__(self)

    # ---- comparisons
    def _cmp(self, o, f):
        o = SymReal.lift(o)
        CTX.domain.append(('comparison operands are finite', z3.Not(z3.Or(self.inf, o.inf))))
        return SymBool(z3.And(z3.Not(self.nan), z3.Not(o.nan), f(self.val, o.val)))

    def __lt__(self, o): return self._cmp_inf(o, lambda a, b: a < b, 'lt')
    def __le__(self, o): return self._cmp_inf(o, lambda a, b: a <= b, 'le')
    def __gt__(self, o): return self._cmp_inf(o, lambda a, b: a > b, 'gt')
    def __ge__(self, o): return self._cmp_inf(o, lambda a, b: a >= b, 'ge')

    def _cmp_inf(self, o, f, kind):
        if isinstance(o, _np.ndarray) and o.ndim > 0:
            return NotImplemented
        # comparison with a CONCRETE infinity (parameter bounds) is decided without arithmetic
        if isinstance(o, (float, _np.floating)) and _math.isinf(float(o)):
            pos = float(o) > 0
            res = {'lt': pos, 'le': pos, 'gt': not pos, 'ge': not pos}[kind]
            return SymBool(z3.And(z3.Not(self.nan), z3.BoolVal(res)))
        return self._cmp(o, f)

    def __eq__(self, o):
        if isinstance(o, _np.ndarray) and o.ndim > 0:
            return NotImplemented
        o = SymReal.lift(o); return SymBool(z3.And(z3.Not(self.nan), z3.Not(o.nan), self.val == o.val))

    def __ne__(self, o):
        if isinstance(o, _np.ndarray) and o.ndim > 0:
            return NotImplemented
        o = SymReal.lift(o); return SymBool(z3.Or(self.nan, o.nan, self.val != o.val))

    __hash__ = None

    # ---- numpy object-dtype protocol: np.exp(obj) calls obj.exp() etc.
    def exp(self):
        t = CTX.app('exp', self.val)
        return SymReal(t, self.nan, self.inf, None if self.d is None else t * self.d)

    def log(self):
        t = CTX.app('log', self.val)
        return SymReal(t, z3.simplify(z3.Or(self.nan, self.val < 0)), z3.simplify(z3.Or(self.inf, self.val == 0)),
                       None if self.d is None else self.d / self.val)

    def sqrt(self):
        t = CTX.app('sqrt', self.val)
        return SymReal(t, z3.simplify(z3.Or(self.nan, self.val < 0)), self.inf, None if self.d is None else self.d / (2 * t))

    def expm1(self):
        return self.exp() - 1.0

    def log1p(self):
        return (self + 1.0).log()

    def sinh(self):
        e1 = self.exp(); e2 = (-self).exp()
        return (e1 - e2) / 2.0

    def cosh(self):
        e1 = self.exp(); e2 = (-self).exp()
        return (e1 + e2) / 2.0

    def tanh(self):
        return self.sinh() / self.cosh()

    def arcsinh(self):
        return (self + (self * self + 1.0).sqrt()).log()

    def __float__(self):
        raise Unsupported('a symbolic value was converted to a Python float (unsupported library call)')

    def __format__(self, spec):
        return repr(self)          # messages only

    def __bool__(self):
        # truth value of a float: non-zero (NaN is true); forks the path like any other test
        return CTX.branch(z3.Or(self.nan, self.val != 0))

    def astype(self, dt, *a, **k):
        # numpy scalars have astype; on a symbolic real a conversion to a float type is the identity
        if dt in (float, _np.float64, 'float64', 'f8') or (isinstance(dt, type) and issubclass(dt, _np.floating)):
            return self
        raise Unsupported('astype(%r) on a symbolic scalar' % (dt,))

    def __repr__(self):
        return 'SymReal(%s)' % z3.simplify(self.val)


def isnan1(x):
    if isinstance(x, SymReal):
        return SymBool(x.nan)
    return bool(_np.isnan(x))


def minmax(a, b, pick_max):
    a_s = isinstance(a, SymReal); b_s = isinstance(b, SymReal)
    if not a_s and not b_s:
        return _np.maximum(a, b) if pick_max else _np.minimum(a, b)
    for (x, y) in ((a, b), (b, a)):
        if not isinstance(x, SymReal) and isinstance(x, (float, _np.floating)) and _math.isinf(float(x)):
            # max(v, -inf) = v ; min(v, +inf) = v ; max(v, +inf) = +inf
            neutral = (float(x) < 0) if pick_max else (float(x) > 0)
            if neutral:
                return y
            return x          # the concrete infinity itself (kept as a float: bounds stay concrete)
    a = SymReal.lift(a); b = SymReal.lift(b)
    c = (a.val >= b.val) if pick_max else (a.val <= b.val)
    d = None
    if a.d is not None and b.d is not None:
        d = z3.If(c, a.d, b.d)
    return SymReal(z3.If(c, a.val, b.val), z3.Or(a.nan, b.nan), z3.Or(a.inf, b.inf), d)


# ------------------------------------------------------------------------------------------------ arrays
class SA(_np.ndarray):
    """object array of symbolic values: numpy does the shapes, broadcasting and views; element semantics are symbolic"""

    def astype(self, dt, *a, **k):
        if dt in (float, _np.float64, 'float64', 'f8', object) or (isinstance(dt, type) and issubclass(dt, _np.floating)):
            return self.copy()
        if isinstance(dt, _np.dtype) and dt in (_np.dtype('float64'), _np.dtype(object)):
            return self.copy()
        if dt in (int, _np.int64, _np.int32, 'int', 'int64') and all(isinstance(e, (SymBool, bool, _np.bool_)) for e in self.flat):
            # booleans to 0 / 1 (no fork: an if-then-else term)
            out = _np.empty(self.shape, dtype=object)
            out.flat = [SymReal(z3.If(e.e, rv(1), rv(0))) if isinstance(e, SymBool) else SymReal.lift(float(bool(e))) for e in self.flat]
            return out.view(SA)
        if dt in (bool, _np.bool_) and all(isinstance(e, (SymBool, bool, _np.bool_, int, float)) for e in self.flat):
            out = _np.empty(self.shape, dtype=object)
            out.flat = [e if isinstance(e, SymBool) else bool(e) for e in self.flat]
            return out.view(SA)
        raise Unsupported('astype(%r) on a symbolic array' % (dt,))

    def _mask(self, idx):
        if isinstance(idx, tuple):
            return tuple(self._mask(e) for e in idx)
        if isinstance(idx, _np.ndarray) and idx.dtype == object and idx.size and all(isinstance(e, (SymBool, bool, _np.bool_)) for e in idx.flat):
            return _np.array([bool(e) for e in idx.flat], dtype=bool).reshape(idx.shape)
        return idx

    def __getitem__(self, idx):
        r = _np.ndarray.__getitem__(self, self._mask(idx))
        return r

    def __setitem__(self, idx, v):
        _np.ndarray.__setitem__(self, self._mask(idx), v)

    def __array_ufunc__(self, ufunc, method, *inputs, **kw):
        ins = [i.view(_np.ndarray) if isinstance(i, SA) else i for i in inputs]
        if ufunc in UF and method == '__call__':
            f = UF[ufunc]
            b = _np.broadcast(*ins)
            out = _np.empty(b.shape, dtype=object)
            out.flat = [f(*vals) for vals in b]
            return out.view(SA) if out.ndim else out.item()
        r = getattr(ufunc, method)(*ins, **{k: v for k, v in kw.items() if k != 'out'})
        if isinstance(r, _np.ndarray) and r.dtype == object:
            return r.view(SA)
        return r


def _sign(x):
    if isinstance(x, SymReal):
        return SymReal(z3.If(x.val > 0, rv(1), z3.If(x.val < 0, rv(-1), rv(0))), x.nan, x.inf, rv(0) if x.d is not None else None)
    return _np.sign(x)


import operator as _op
UF = {_np.greater: _op.gt, _np.less: _op.lt, _np.greater_equal: _op.ge, _np.less_equal: _op.le, _np.equal: _op.eq, _np.not_equal: _op.ne,
      _np.isnan: isnan1, _np.maximum: lambda a, b: minmax(a, b, True), _np.minimum: lambda a, b: minmax(a, b, False),
      _np.sign: _sign, _np.absolute: lambda a: abs(a) if isinstance(a, SymReal) else _np.abs(a),
      _np.logical_or: lambda a, b: (a | b), _np.logical_and: lambda a, b: (a & b), _np.logical_not: lambda a: ~a if isinstance(a, SymBool) else (not a),
      _np.bitwise_or: lambda a, b: (a | b), _np.bitwise_and: lambda a, b: (a & b), _np.invert: lambda a: ~a if isinstance(a, SymBool) else (not a)}


def symbolic(x):
    if isinstance(x, (SymReal, SymBool)):
        return True
    if isinstance(x, _np.ndarray) and x.dtype == object:
        return any(isinstance(e, (SymReal, SymBool)) for e in x.flat)
    if isinstance(x, (list, tuple)):
        return any(symbolic(e) for e in x)
    return False


def toSA(x):
    a = _np.empty(_np.shape(x), dtype=object) if isinstance(x, _np.ndarray) else None
    arr = _np.array(x, dtype=object)
    return arr.view(SA)


class NPProxy:
    """stands for the module `numpy` inside the code under analysis: symbolic-aware versions of the few functions that numpy
    cannot apply to object arrays; everything else is numpy's own"""

    def __init__(self):
        self.float64 = _F64
        self.nan = _np.nan; self.inf = _np.inf; self.pi = _np.pi

    def __getattr__(self, k):
        real = getattr(_np, k)
        if not callable(real) or isinstance(real, type):
            return real

        def passthrough(*a, **kw):
            # numpy's own function (shapes, stacking, ...); when it cannot cope with symbolic elements the analysis stops as
            # "unsupported" instead of reporting a crash of the checker
            try:
                return real(*a, **kw)
            except (Unsupported, PathLimit):
                raise
            except Exception as e:
                if any(symbolic(x) for x in a) or any(symbolic(x) for x in kw.values()):
                    raise Unsupported('numpy.%s on symbolic values: %s: %s' % (k, type(e).__name__, str(e)[:120]))
                raise
        return passthrough

    @staticmethod
    def _elem(f, *xs):
        if not any(symbolic(x) for x in xs):
            return None
        arrs = [_np.asarray(x, dtype=object) if isinstance(x, (list, tuple)) else x for x in xs]
        b = _np.broadcast(*[a.view(_np.ndarray) if isinstance(a, _np.ndarray) else a for a in arrs])
        out = _np.empty(b.shape, dtype=object)
        out.flat = [f(*vals) for vals in b]
        return out.view(SA) if out.ndim else out.item()

    def isnan(self, x):
        r = NPProxy._elem(isnan1, x)
        return _np.isnan(x) if r is None else r

    def isinf(self, x):
        r = NPProxy._elem(lambda v: SymBool(v.inf) if isinstance(v, SymReal) else bool(_np.isinf(v)), x)
        return _np.isinf(x) if r is None else r

    def isfinite(self, x):
        r = NPProxy._elem(lambda v: SymBool(z3.And(z3.Not(v.nan), z3.Not(v.inf))) if isinstance(v, SymReal) else bool(_np.isfinite(v)), x)
        return _np.isfinite(x) if r is None else r

    def isclose(self, a, b, rtol=1e-05, atol=1e-08, equal_nan=False):
        if not (symbolic(a) or symbolic(b)):
            return _np.isclose(a, b, rtol, atol, equal_nan)

        def f(u, v):
            u = SymReal.lift(u); v = SymReal.lift(v)
            diff = abs(u - v); av = abs(v)
            return SymBool(z3.And(z3.Not(u.nan), z3.Not(v.nan), diff.val <= rv(atol) + rv(rtol) * av.val))
        return NPProxy._elem(f, a, b)

    def where(self, c, a=None, b=None):
        if a is None:
            return _np.where(c)
        if not (symbolic(c) or symbolic(a) or symbolic(b)):
            return _np.where(c, a, b)

        def f(cc, u, v):
            if isinstance(cc, SymBool):
                s = z3.simplify(cc.e)
                if z3.is_true(s):
                    return u
                if z3.is_false(s):
                    return v
                u = SymReal.lift(u); v = SymReal.lift(v)
                d = None
                if u.d is not None and v.d is not None:
                    d = z3.If(cc.e, u.d, v.d)
                return SymReal(z3.If(cc.e, u.val, v.val), z3.If(cc.e, u.nan, v.nan), z3.If(cc.e, u.inf, v.inf), d)
            return u if cc else v
        return NPProxy._elem(f, c, a, b)

    def maximum(self, a, b):
        r = NPProxy._elem(lambda u, v: minmax(u, v, True), a, b)
        return _np.maximum(a, b) if r is None else r

    def minimum(self, a, b):
        r = NPProxy._elem(lambda u, v: minmax(u, v, False), a, b)
        return _np.minimum(a, b) if r is None else r

    def clip(self, x, lo, hi):
        if not (symbolic(x) or symbolic(lo) or symbolic(hi)):
            return _np.clip(x, lo, hi)
        return self.minimum(self.maximum(x, lo), hi)

    def sign(self, x):
        r = NPProxy._elem(_sign, x)
        return _np.sign(x) if r is None else r

    def abs(self, x):
        r = NPProxy._elem(lambda v: abs(v), x)
        return _np.abs(x) if r is None else r
    absolute = abs

    def any(self, x, *a, **k):
        if not symbolic(x):
            return _np.any(x, *a, **k)
        r = None
        for e in _np.asarray(x, dtype=object).flat:
            ee = e if isinstance(e, SymBool) else SymBool(z3.BoolVal(bool(e)))
            r = ee if r is None else (r | ee)
        return r if r is not None else False

    def all(self, x, *a, **k):
        if not symbolic(x):
            return _np.all(x, *a, **k)
        r = None
        for e in _np.asarray(x, dtype=object).flat:
            ee = e if isinstance(e, SymBool) else SymBool(z3.BoolVal(bool(e)))
            r = ee if r is None else (r & ee)
        return r if r is not None else True

    def atleast_1d(self, x):
        if symbolic(x):
            # like numpy: an array that has a dimension already is returned as it is (no copy: aliasing is part of the semantics)
            a = x if isinstance(x, _np.ndarray) else _np.array(x, dtype=object)
            if a.ndim == 0:
                a = a.reshape(1)
            return a.view(SA)
        return _np.atleast_1d(x)

    def atleast_2d(self, x):
        if symbolic(x):
            a = x if isinstance(x, _np.ndarray) else _np.array(x, dtype=object)
            while a.ndim < 2:
                a = a[None]
            return a.view(SA)
        return _np.atleast_2d(x)

    def array(self, x, *a, **k):
        if symbolic(x):
            return _np.array(x, dtype=object).view(SA)
        return _np.array(x, *a, **k)

    def asarray(self, x, *a, **k):
        if symbolic(x) and isinstance(x, _np.ndarray):
            return x.view(SA)          # numpy.asarray does not copy an array
        return self.array(x, *a, **k)

    def ascontiguousarray(self, x, dtype=None, **k):
        if not symbolic(x):
            return _np.ascontiguousarray(x, dtype=dtype, **k)
        if dtype is not None and dtype not in (float, _np.float64, 'float64', object) and not (isinstance(dtype, type) and issubclass(dtype, _np.floating)):
            raise Unsupported('ascontiguousarray(dtype=%r) on symbolic values' % (dtype,))
        return _np.ascontiguousarray(_np.asarray(x, dtype=object)).view(SA)          # a conversion to a float type is the identity on reals

    def ones_like(self, x, *a, **k):
        if symbolic(x):
            out = _np.empty(_np.shape(x), dtype=object); out.flat = [SymReal.lift(1.0) for _ in range(out.size)]
            return out.view(SA) if out.ndim else out.item()
        return _np.ones_like(x, *a, **k)

    def zeros_like(self, x, *a, **k):
        if symbolic(x):
            out = _np.empty(_np.shape(x), dtype=object); out.flat = [SymReal.lift(0.0) for _ in range(out.size)]
            return out.view(SA) if out.ndim else out.item()
        return _np.zeros_like(x, *a, **k)

    def power(self, a, b):
        r = NPProxy._elem(lambda u, v: SymReal.lift(u) ** v, a, b)
        return _np.power(a, b) if r is None else r

    def _unary(name):
        def f(self, x):
            r = NPProxy._elem(lambda v: getattr(SymReal.lift(v), name)(), x)
            return getattr(_np, name)(x) if r is None else r
        return f
    expm1 = _unary('expm1'); log1p = _unary('log1p')
    log = _unary('log'); exp = _unary('exp'); sqrt = _unary('sqrt'); sinh = _unary('sinh'); arcsinh = _unary('arcsinh'); tanh = _unary('tanh'); cosh = _unary('cosh')

    def sum(self, x, axis=None, **k):
        if not symbolic(x):
            return _np.sum(x, axis=axis, **k)
        a = _np.asarray(x, dtype=object).view(_np.ndarray)
        if a.size and any(isinstance(e, SymBool) for e in a.flat):
            # counting booleans: each contributes 0 or 1 (an if-then-else term, no fork)
            b = _np.empty(a.shape, dtype=object)
            b.flat = [SymReal(z3.If(e.e, rv(1), rv(0))) if isinstance(e, SymBool) else SymReal.lift(float(e)) for e in a.flat]
            a = b
        r = _np.add.reduce(a, axis=axis) if axis is not None else _np.add.reduce(a.ravel())
        return r.view(SA) if isinstance(r, _np.ndarray) else r

    def _reduce_minmax(self, x, axis, pick_max, name):
        if not symbolic(x):
            return getattr(_np, name)(x, axis=axis)
        a = _np.asarray(x, dtype=object)
        for e in a.flat:
            if isinstance(e, SymReal) and not z3.is_false(z3.simplify(e.nan)):
                raise Unsupported('numpy.%s on values that may be NaN' % name)
        import functools
        red = lambda seq: functools.reduce(lambda u, v: minmax(u, v, pick_max), list(seq))
        if axis is None:
            return red(a.ravel())
        a = _np.moveaxis(a, axis, -1)
        out = _np.empty(a.shape[:-1], dtype=object)
        for idx in _np.ndindex(*a.shape[:-1]):
            out[idx] = red(a[idx])
        return out.view(SA) if out.ndim else out.item()

    def min(self, x, axis=None, **k): return self._reduce_minmax(x, axis, False, 'min')
    def max(self, x, axis=None, **k): return self._reduce_minmax(x, axis, True, 'max')
    def nanmin(self, x, axis=None, **k): return self._reduce_minmax(x, axis, False, 'nanmin')
    def nanmax(self, x, axis=None, **k): return self._reduce_minmax(x, axis, True, 'nanmax')
    amin = min; amax = max

    def prod(self, x, axis=None, **k):
        if not symbolic(x):
            return _np.prod(x, axis=axis, **k)
        a = _np.asarray(x, dtype=object).view(_np.ndarray)
        r = _np.multiply.reduce(a, axis=axis) if axis is not None else _np.multiply.reduce(a.ravel())
        return r.view(SA) if isinstance(r, _np.ndarray) else r


class _F64(_np.float64):
    """np.float64 used both as a constructor and as a dtype by the code under analysis"""
    def __new__(cls, v=0.0):
        if isinstance(v, SymReal):
            return v
        return _np.float64(v)


class MathProxy:
    def __getattr__(self, k):
        return getattr(_math, k)

    @staticmethod
    def exp(x):
        return x.exp() if isinstance(x, SymReal) else _math.exp(x)

    @staticmethod
    def log(x, *a):
        if isinstance(x, SymReal):
            if a:
                raise Unsupported('math.log with base on a symbolic value')
            return x.log()
        return _math.log(x, *a)

    @staticmethod
    def sqrt(x):
        return x.sqrt() if isinstance(x, SymReal) else _math.sqrt(x)

    @staticmethod
    def isnan(x):
        return isnan1(x)


@contextlib.contextmanager
def patched(*modules):
    """rebind `np` / `math` in the given real modules (in this process only) for the duration of the analysis"""
    saved = []
    npx = NPProxy(); mx = MathProxy()
    for m in modules:
        for nm, px in (('np', npx), ('math', mx)):
            if hasattr(m, nm):
                saved.append((m, nm, getattr(m, nm))); setattr(m, nm, px)
    # hydrodiy.data.dutils.cast(x, y) converts y to the type of x with `type(x)(y)`; for a symbolic y this would call
    # float(y).  It is replaced by the identity on symbolic values (ASSUMED stub, listed in the evidence; the real
    # function is unchanged for concrete values and is checked concretely by the bounded float monitors)
    for m in modules:
        if hasattr(m, 'cast') and getattr(m, '__name__', '').endswith('dutils'):
            real = m.cast
            saved.append((m, 'cast', real))
            setattr(m, 'cast', (lambda real: (lambda x, y: y if symbolic(y) else real(x, y)))(real))
    try:
        yield npx
    finally:
        for m, nm, v in saved:
            setattr(m, nm, v)


def sym(name, nan=False, d=None):
    """fresh symbolic real (optionally possibly-NaN); d: derivative w.r.t. the designated input (1 for the input itself, 0 for parameters)"""
    return SymReal(z3.Real(name), z3.Bool(name + '!nan') if nan else None, None, None if d is None else rv(d))


def symvec(names, nan=False, d=None):
    a = _np.empty(len(names), dtype=object)
    a[:] = [sym(n, nan, d) for n in names]
    return a.view(SA)


# ------------------------------------------------------------------------------------------------ exploration
class Path:
    def __init__(self, pc, axioms, domain, result, exc, terms=()):
        self.pc = pc; self.axioms = axioms; self.domain = domain; self.result = result; self.exc = exc; self.terms = list(terms)


def explore(run, base=(), allowed_exc=(ValueError,), max_paths=512):
    """enumerate all feasible paths of run() (depth-first over the branch decisions)"""
    global CTX
    CTX.base = list(base)
    paths = []; stack = [[]]
    while stack:
        dec = stack.pop()
        CTX.reset_path(dec)
        try:
            out = run(); exc = None
        except allowed_exc as e:
            out = None; exc = e
        paths.append(Path(list(CTX.pc), list(CTX.axioms) + CTX.extra_axioms(), list(CTX.domain), out, exc, list(CTX.terms)))
        if len(paths) > max_paths:
            raise PathLimit('more than %d paths' % max_paths)
        for i in range(len(dec), len(CTX.dec)):
            if CTX.both.get(i):
                stack.append(CTX.dec[:i] + [not CTX.dec[i]])
    return paths


def vc(base, path, goal, extra=()):
    """SMT-LIB text of  base and path condition and axioms |- goal"""
    s = z3.Solver()
    for h in list(base) + list(path.pc) + list(path.axioms) + list(extra):
        s.add(h)
    s.add(z3.Not(goal))
    return s.to_smt2()
