"""Replay / refuter harness: a generated C driver linked with the REAL kernel files of the working tree,
compiled with clang -fsanitize=address,undefined.  Cases are concrete argument lists; arrays are
allocated at their exact size so that any out-of-bounds access is reported by ASan."""
import os, subprocess, tempfile, shutil, atexit, math, re
from . import cast, REPO
from .engc import ctype, base_elt

GROUPS = {
    'gis': ['src/hydrodiy/gis/c_grid.c', 'src/hydrodiy/gis/c_catchment.c', 'src/hydrodiy/gis/c_points_inside_polygon.c'],
    'data': ['src/hydrodiy/data/c_dutils.c', 'src/hydrodiy/data/c_qualitycontrol.c', 'src/hydrodiy/data/c_var2h.c',
             'src/hydrodiy/data/c_baseflow.c', 'src/hydrodiy/data/c_dateutils.c'],
    'stat': ['src/hydrodiy/stat/c_crps.c', 'src/hydrodiy/stat/c_dscore.c', 'src/hydrodiy/stat/c_armodels.c',
             'src/hydrodiy/stat/c_paretofront.c', 'src/hydrodiy/stat/c_andersondarling.c', 'src/hydrodiy/stat/AnDarl.c',
             'src/hydrodiy/stat/ADinf.c', 'src/hydrodiy/stat/c_olsleverage.c'],
}


def group_of(relpath):
    for g, fs in GROUPS.items():
        if relpath in fs:
            return g
    raise KeyError(relpath)


_TMP = []


def _cleanup():
    for d in _TMP:
        shutil.rmtree(d, ignore_errors=True)


atexit.register(_cleanup)

CT = {'int': ('int', 'I'), 'long long': ('long long', 'L'), 'double': ('double', 'D')}

DRIVER_HEAD = r'''
#include <stdio.h>
#include <stdlib.h>
#include <string.h>
#include <math.h>
static FILE *IN, *OUT;
static long long rdL(void){ long long v; if(fscanf(IN, "%lld", &v)!=1){fprintf(stderr,"driver: bad int\n"); exit(9);} return v; }
static double rdD(void){ char b[128]; if(fscanf(IN, "%127s", b)!=1){fprintf(stderr,"driver: bad double\n"); exit(9);}
   if(!strcmp(b,"nan")) return NAN; if(!strcmp(b,"inf")) return INFINITY; if(!strcmp(b,"-inf")) return -INFINITY; return strtod(b,NULL); }
static void wrD(double v){ if(isnan(v)) fprintf(OUT," nan"); else if(isinf(v)) fprintf(OUT, v>0?" inf":" -inf"); else fprintf(OUT," %a",v); }
#define ARR(T, name, RD) long long n_##name = rdL(); T *name = (T*)malloc((n_##name>0?n_##name:0)*sizeof(T)); \
    for(long long q=0;q<n_##name;q++) name[q]=(T)RD();
'''


class Harness:
    def __init__(self, group, repo=None, sanitize=True):
        self.group = group; self.repo = repo or REPO
        self.files = GROUPS[group]
        self.dir = tempfile.mkdtemp(prefix='vfh_'); _TMP.append(self.dir)
        self.sigs = {}
        for rel in self.files:
            tu = cast.load(rel, self.repo)
            for name, fn in tu['functions'].items():
                if fn.get('storageClass') == 'static':
                    continue
                params = cast.params_of(fn); ret = cast.ret_type(fn)
                try:
                    ok = all(self._kind(t) for _, t in params) and ctype(ret) in CT
                except Exception:
                    ok = False
                if ok:
                    self.sigs[name] = (ret, params)
        self._build(sanitize)

    def _kind(self, t):
        tt = ctype(t)
        if isinstance(tt, tuple):
            return tt[0] == 'ptr' and tt[1] in CT
        return tt in CT

    def _build(self, sanitize):
        src = [DRIVER_HEAD]
        for name, (ret, params) in self.sigs.items():
            src.append('%s %s(%s);' % (ret, name, ', '.join('%s %s' % (t, p) for p, t in params)))
        src.append('int main(int argc, char **argv){ IN=fopen(argv[1],"r"); OUT=fopen(argv[2],"w"); char fn[128]; long long cid;')
        src.append(' while(fscanf(IN, "%lld %127s", &cid, fn)==2){ fprintf(OUT,"BEGIN %lld\\n",cid); fflush(OUT); fprintf(stderr,"@@CASE %lld\\n",cid); fflush(stderr);')
        first = True
        for name, (ret, params) in self.sigs.items():
            src.append('  %sif(!strcmp(fn,"%s")){' % ('' if first else 'else ', name)); first = False
            outs = []
            for p, t in params:
                tt = ctype(t)
                if isinstance(tt, tuple):
                    c, code = CT[tt[1]]
                    src.append('   ARR(%s, a_%s, %s)' % (c, p, 'rdD' if code == 'D' else 'rdL'))
                    outs.append((p, code))
                elif tt == 'double':
                    src.append('   double a_%s = rdD();' % p)
                else:
                    src.append('   %s a_%s = (%s)rdL();' % (CT[tt][0], p, CT[tt][0]))
            rc = ctype(ret)
            src.append('   %s r = %s(%s);' % (CT[rc][0], name, ', '.join('a_' + p for p, _ in params)))
            if rc == 'double':
                src.append('   fprintf(OUT,"RET"); wrD(r); fprintf(OUT,"\\n");')
            else:
                src.append('   fprintf(OUT,"RET %lld\\n",(long long)r);')
            for p, code in outs:
                if code == 'D':
                    src.append('   fprintf(OUT,"ARR %s %%lld", n_a_%s); for(long long q=0;q<n_a_%s;q++) wrD(a_%s[q]); fprintf(OUT,"\\n");' % (p, p, p, p))
                else:
                    src.append('   fprintf(OUT,"ARR %s %%lld", n_a_%s); for(long long q=0;q<n_a_%s;q++) fprintf(OUT," %%lld",(long long)a_%s[q]); fprintf(OUT,"\\n");' % (p, p, p, p))
            for p, code in outs:
                src.append('   free(a_%s);' % p)
            src.append('  }')
        src.append('  else { fprintf(stderr,"driver: unknown function %s\\n", fn); exit(8); }')
        src.append('  fprintf(OUT,"END %lld\\n",cid); fflush(OUT); }')
        src.append(' return 0; }')
        drv = os.path.join(self.dir, 'driver.c')
        open(drv, 'w').write('\n'.join(src))
        self.exe = os.path.join(self.dir, 'driver')
        flags = ['-g', '-O0', '-fno-omit-frame-pointer']
        if sanitize:
            flags += ['-fsanitize=address,undefined', '-fsanitize=float-cast-overflow', '-fno-sanitize-recover=undefined']
        cmd = ['clang'] + flags + [os.path.join(self.repo, f) for f in self.files] + [drv, '-lm', '-o', self.exe]
        p = subprocess.run(cmd, capture_output=True, text=True)
        if p.returncode != 0:
            raise RuntimeError('harness build failed: ' + p.stderr[-3000:])
        self.build_cmd = ' '.join(cmd)

    @staticmethod
    def fmt_d(v):
        v = float(v)
        if v != v:
            return 'nan'
        if v == math.inf:
            return 'inf'
        if v == -math.inf:
            return '-inf'
        return v.hex()

    def encode(self, cid, fn, args):
        ret, params = self.sigs[fn]
        toks = ['%d %s' % (cid, fn)]
        for (p, t), a in zip(params, args):
            tt = ctype(t)
            if isinstance(tt, tuple):
                toks.append(str(len(a)))
                if tt[1] == 'double':
                    toks += [self.fmt_d(x) for x in a]
                else:
                    toks += [str(int(x)) for x in a]
            elif tt == 'double':
                toks.append(self.fmt_d(a))
            else:
                toks.append(str(int(a)))
        return ' '.join(toks)

    def run(self, cases, timeout=120):
        """cases: list of (fn, args).  -> list of dict(ret, arrays, san (sanitizer text or ''), crashed, timeout)"""
        results = [None] * len(cases)
        start = 0
        while start < len(cases):
            inp = os.path.join(self.dir, 'in.txt'); outp = os.path.join(self.dir, 'out.txt')
            with open(inp, 'w') as f:
                for i in range(start, len(cases)):
                    f.write(self.encode(i, cases[i][0], cases[i][1]) + '\n')
            env = dict(os.environ, ASAN_OPTIONS='detect_leaks=0:abort_on_error=0:exitcode=77:allocator_may_return_null=1', UBSAN_OPTIONS='print_stacktrace=1:exitcode=78')
            try:
                p = subprocess.run([self.exe, inp, outp], stdout=subprocess.DEVNULL, stderr=subprocess.PIPE, text=True, timeout=timeout, env=env, errors='replace')
                err = p.stderr; rc = p.returncode; timed = False
            except subprocess.TimeoutExpired as e:
                err = (e.stderr.decode(errors='replace') if isinstance(e.stderr, bytes) else (e.stderr or '')); rc = -9; timed = True
            cur = None; last_begun = None
            for line in open(outp, errors='replace'):
                parts = line.split()
                if not parts:
                    continue
                if parts[0] == 'BEGIN':
                    cur = dict(ret=None, arrays={}, san='', crashed=True, timeout=False); last_begun = int(parts[1]); results[last_begun] = cur
                elif parts[0] == 'RET':
                    cur['ret'] = self._val(parts[1])
                elif parts[0] == 'ARR':
                    cur['arrays'][parts[1]] = [self._val(x) for x in parts[3:]]
                elif parts[0] == 'END':
                    cur['crashed'] = False
            if rc == 0:
                break
            # the case that was running when the process died
            if last_begun is None:
                raise RuntimeError('harness driver failed before the first case: rc=%s %s' % (rc, err[-2000:]))
            segs = err.split('@@CASE %d\n' % last_begun)
            results[last_begun]['san'] = segs[-1][-6000:] if len(segs) > 1 else err[-6000:]
            results[last_begun]['timeout'] = timed
            results[last_begun]['rc'] = rc
            if not results[last_begun]['crashed'] and rc not in (0,):
                # died after END of the last case: treat as harness problem
                raise RuntimeError('harness driver died between cases: rc=%s %s' % (rc, err[-2000:]))
            start = last_begun + 1
        return results

    @staticmethod
    def _val(tok):
        if tok == 'nan':
            return float('nan')
        if tok in ('inf', '-inf'):
            return float(tok)
        if 'x' in tok or 'p' in tok:
            return float.fromhex(tok)
        return int(tok)

    def close(self):
        shutil.rmtree(self.dir, ignore_errors=True)
