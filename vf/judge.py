"""Concrete judgement of one execution of a real kernel against its contract (refuter / replay oracle)."""
import math, functools, sys
from fractions import Fraction
from .cexpr import ConcEnv, CPtr, ContractError, isnan_c, parsec
from .engc import ctype

sys.setrecursionlimit(20000)


def same(a, b):
    if isinstance(a, float) and isinstance(b, float):
        if a != a or b != b:
            return a != a and b != b
        return a == b
    return a == b


class Entry:
    def __init__(self, vars, mem):
        self.vars = vars; self.mem = mem


def make_ghosts(K, specs, vars, mem, consts):
    ghosts = {}
    for gh in K.ghosts:
        def mk(gh):
            @functools.lru_cache(maxsize=None)
            def f(*args):
                env = ConcEnv(specs, vars, mem, dict(zip(gh.params, args)), None, None, ghosts, None, consts)
                env.old = env
                return env.eval(gh.body if gh.body is not None else gh.concrete)
            return f
        ghosts[gh.name] = mk(gh)
    return ghosts


def build_entry(sig, args):
    ret, params = sig
    vars = {}; mem = {}
    for (p, t), a in zip(params, args):
        tt = ctype(t)
        if isinstance(tt, tuple):
            mem[p] = list(a); vars[p] = CPtr(p, 0)
        elif tt == 'double':
            vars[p] = float(a)
        else:
            vars[p] = int(a)
    return vars, mem


def admissible(K, specs, sig, args, consts=None):
    """do the arguments satisfy the kernel's requires?  (evaluated exactly)"""
    from . import cexpr as _cx
    _cx.WORK[0] = 0
    vars, mem = build_entry(sig, args)
    ghosts = make_ghosts(K, specs, vars, mem, consts or {})
    env = ConcEnv(specs, vars, mem, None, None, None, ghosts, None, consts or {}); env.old = env
    for r in K.requires_:
        try:
            if not env.truth(r):
                return False
        except (IndexError, ContractError, ZeroDivisionError, OverflowError, ValueError):
            return False
    return True


def judge(K, specs, sig, args, res, consts=None):
    """-> list of (kind, clause text, detail) the execution violates; [] when the contract holds."""
    from . import cexpr as _cx
    _cx.WORK[0] = 0
    vars, mem = build_entry(sig, args)
    consts = consts or {}
    ghosts = make_ghosts(K, specs, vars, mem, consts)
    entry = ConcEnv(specs, vars, mem, None, None, None, ghosts, None, consts); entry.old = entry
    bad = []
    if res.get('timeout'):
        return [('termination', 'call returns', 'the call did not return within the harness time limit')]
    if res.get('crashed') or res.get('san'):
        first = [l for l in res.get('san', '').split('\n') if 'runtime error' in l or 'ERROR: AddressSanitizer' in l or 'SUMMARY' in l]
        return [('safety', 'no undefined behaviour / memory error', '; '.join(first[:3]) or res.get('san', '')[:400])]
    fin_mem = dict(mem)
    for p, arr in res['arrays'].items():
        fin_mem[p] = arr
    # frame: nothing outside `assigns` changes
    ranges = {}
    for a in K.assigns_:
        n = parsec(a)
        p = entry.e(n.value)
        import ast as _ast
        if isinstance(n.slice, _ast.Slice):
            lo = entry.e(n.slice.lower) if n.slice.lower else 0
            hi = entry.e(n.slice.upper)
        else:
            lo = entry.e(n.slice); hi = lo + 1
        ranges.setdefault(p.region, []).append((p.off + lo, p.off + hi))
    for p, arr in mem.items():
        new = fin_mem[p]
        for i, (x, y) in enumerate(zip(arr, new)):
            if not same(x, y) and not any(lo <= i < hi for lo, hi in ranges.get(p, [])):
                bad.append(('assigns', 'assigns ' + ', '.join(K.assigns_), '%s[%d] changed from %r to %r' % (p, i, x, y)))
                break
    post = ConcEnv(specs, vars, fin_mem, None, entry, res['ret'], ghosts, None, consts)
    for e in list(K.ensures_) + list(K.bounded_):
        try:
            ok = post.truth(e)
        except _cx.TooLarge:
            continue          # too large to evaluate on this input: no verdict from this clause
        except ContractError as ex:
            if 'unknown' in str(ex):
                # the clause names something the current code does not have (renamed / removed identifier): the contract has drifted from the
                # code - that is a problem of the check, never a verdict about the code
                raise
            bad.append(('post', e, 'clause could not be evaluated: %r' % (ex,)))
            continue
        except (IndexError, ZeroDivisionError, OverflowError, ValueError) as ex:
            bad.append(('post', e, 'clause could not be evaluated: %r' % (ex,)))
            continue
        if not ok:
            bad.append(('post', e, 'ret=%r' % (res['ret'],)))
    return bad


def case_from_model(sig, model, maxlen=64):
    """concrete arguments from a solver model of the entry state (None when it cannot be realised)"""
    ret, params = sig
    args = []
    for p, t in params:
        tt = ctype(t)
        if isinstance(tt, tuple):
            L = model.get('len!' + p)
            if L is None:
                L = 0
            L = max(0, min(int(L), maxlen))
            if tt[1] == 'double':
                vals = model.get(p + '!v0') or []; nans = model.get(p + '!n0') or []
                arr = []
                for i in range(L):
                    if i < len(nans) and nans[i] is True:
                        arr.append(float('nan'))
                    else:
                        v = vals[i] if i < len(vals) else 0
                        arr.append(_tofloat(v))
            else:
                vals = model.get(p + '!m0') or []
                arr = [int(vals[i]) if i < len(vals) and isinstance(vals[i], int) else 0 for i in range(L)]
            args.append(arr)
        elif tt == 'double':
            if model.get(p + '!nan') is True:
                args.append(float('nan'))
            else:
                args.append(_tofloat(model.get(p, 0)))
        else:
            v = model.get(p, 0)
            args.append(int(v) if isinstance(v, int) else 0)
    return args


def _tofloat(v):
    if isinstance(v, (int, float)):
        return float(v)
    try:
        return float(Fraction(str(v)))
    except Exception:
        return 0.0
