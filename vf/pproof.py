"""Driver of Engine P: turns explored paths + contract clauses into VCs, discharges them, reports verdicts into a check.Run."""
import time, traceback
import z3
from . import engp, solve


def model_values(m, names):
    out = {}
    for n in names:
        try:
            v = m.eval(n if isinstance(n, z3.ExprRef) else z3.Real(n), model_completion=True)
            n = str(n)
            if z3.is_int_value(v):
                out[n] = v.as_long()
            elif z3.is_rational_value(v):
                out[n] = float(v.as_fraction())
            elif z3.is_algebraic_value(v):
                out[n] = float(v.approx(15).as_fraction())
            else:
                out[n] = None
        except Exception:
            out[n] = None
    return out


class PObligation:
    def __init__(self, oid, kind, note, hyps, goal, names=()):
        self.id = oid; self.kind = kind; self.note = note; self.hyps = hyps; self.goal = goal; self.names = list(names)


def discharge(run, obligations, timeout_ms=None, replay=None, file='', fn_of=None):
    """obligations: list of PObligation.  replay(ob, model values) -> dict(witness) or None (native replay on the real code).
    Adds VC records to run.vcs, reports violations / undecided."""
    timeout_ms = timeout_ms or (20000 if run.tier == 'quick' else 90000)
    jobs = []
    for ob in obligations:
        s = z3.Solver()
        for h in ob.hyps:
            s.add(h)
        s.add(z3.Not(ob.goal))
        jobs.append((ob.id, s.to_smt2(), timeout_ms, False, None))
    t0 = time.time()
    res = solve.solve_all(jobs)
    run.solver_time += time.time() - t0
    for ob, r in zip(obligations, res):
        st = r['status']
        rec = dict(id=ob.id, kind=ob.kind, fn=(fn_of(ob) if fn_of else ob.id.split('/')[1]), line=0, note=ob.note, text=ob.note, file=file,
                   status=st, backend=r['backend'], time=r['time'], reason=r.get('reason', ''))
        run.vcs.append(rec)
        if st == 'unsat':
            run.by_backend[r['backend']] += 1
            continue
        if st == 'error':
            run.broken.append('solver error on %s: %s' % (ob.id, r.get('reason'))); continue
        # counter-model: solve again in-process to get values, then replay natively
        witness = None; model = None
        try:
            s = z3.Solver(); s.set('timeout', min(timeout_ms, 15000))
            for h in ob.hyps:
                s.add(h)
            s.add(z3.Not(ob.goal))
            if s.check() == z3.sat:
                model = model_values(s.model(), ob.names)
        except Exception:
            model = None
        if model is not None and replay is not None:
            try:
                witness = replay(ob, model)
            except Exception:
                witness = None
                run.notes.append('replay of %s crashed: %s' % (ob.id, traceback.format_exc()[-400:]))
        key = dict(obligation=ob.id.split('#')[0], kind=ob.kind)
        what = '%s obligation %s fails (%s): %s' % (ob.kind, ob.id, st, ob.note[:200])
        if witness is not None:
            run.violation(key, what, witness=dict(python=True, **witness), solver=dict(status=st, backend=r['backend'], model=model))
        elif st == 'sat':
            run.violation(key, what, witness=None, solver=dict(status=st, backend=r['backend'], model=model), noinput=True)
        else:
            run.undecided.append('%s: %s [%s %s]' % (ob.id, what, r['backend'], r.get('reason', '')))
