"""Rebuild the three extension modules from the CURRENT kernel sources of the working tree.

Cython is not installed, so the generated c_hydrodiy_*.c present in the tree are compiled (gcc) together
with the current hand-written kernel files.  Output goes to /verif/.cache/ext/<hash of all sources>/ ;
putting that directory first on sys.path makes `import hydrodiy` (python files straight from /repo/src)
use kernels compiled from the working tree, not the installed .so files."""
import os, hashlib, subprocess, sysconfig, sys, shutil, concurrent.futures as cf
from . import REPO, VERIF

MODS = {
    'c_hydrodiy_data': ('src/hydrodiy/data', ['c_hydrodiy_data.c', 'c_dateutils.c', 'c_qualitycontrol.c', 'c_dutils.c', 'c_var2h.c', 'c_baseflow.c']),
    'c_hydrodiy_stat': ('src/hydrodiy/stat', ['c_hydrodiy_stat.c', 'c_crps.c', 'c_dscore.c', 'c_olsleverage.c', 'c_armodels.c', 'ADinf.c', 'AnDarl.c', 'c_andersondarling.c', 'c_paretofront.c']),
    'c_hydrodiy_gis': ('src/hydrodiy/gis', ['c_hydrodiy_gis.c', 'c_grid.c', 'c_catchment.c', 'c_points_inside_polygon.c']),
}


def _hash(repo):
    h = hashlib.sha256()
    for mod, (d, files) in sorted(MODS.items()):
        dd = os.path.join(repo, d)
        for f in sorted(os.listdir(dd)):
            if f.endswith('.c') or f.endswith('.h'):
                h.update(f.encode()); h.update(open(os.path.join(dd, f), 'rb').read())
    return h.hexdigest()[:20]


def _build_one(args):
    mod, repo, out = args
    d, files = MODS[mod]
    import numpy
    inc = [sysconfig.get_paths()['include'], numpy.get_include(), os.path.join(repo, d)]
    target = os.path.join(out, mod + sysconfig.get_config_var('EXT_SUFFIX'))
    cmd = ['gcc', '-shared', '-fPIC', '-O1', '-fwrapv', '-w'] + ['-I' + i for i in inc] + [os.path.join(repo, d, f) for f in files] + ['-o', target, '-lm']
    p = subprocess.run(cmd, capture_output=True, text=True)
    if p.returncode != 0:
        raise RuntimeError('build of %s failed:\n%s' % (mod, p.stderr[-3000:]))
    return target


def build(repo=None):
    """-> directory holding the freshly built extension modules"""
    repo = repo or REPO
    out = os.path.join(VERIF, '.cache', 'ext', _hash(repo))
    done = os.path.join(out, '.done')
    if os.path.exists(done):
        return out
    os.makedirs(out, exist_ok=True)
    with cf.ThreadPoolExecutor(3) as ex:
        list(ex.map(_build_one, [(m, repo, out) for m in MODS]))
    open(done, 'w').write('ok')
    # keep the cache small: drop other builds
    root = os.path.dirname(out)
    for d in os.listdir(root):
        if d != os.path.basename(out):
            shutil.rmtree(os.path.join(root, d), ignore_errors=True)
    return out


def activate(repo=None):
    """make `import hydrodiy` use the working-tree python files and freshly compiled kernels"""
    repo = repo or REPO
    d = build(repo)
    src = os.path.join(repo, 'src')
    for p in (src, d):
        if p in sys.path:
            sys.path.remove(p)
    sys.path.insert(0, src)
    sys.path.insert(0, d)
    for m in list(sys.modules):
        if m.startswith('c_hydrodiy') or m == 'hydrodiy' or m.startswith('hydrodiy.'):
            del sys.modules[m]
    return d
