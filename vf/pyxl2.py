"""Layer L2/L3 of a kernel call (DESIGN.md 4): the Cython wrappers.

The .pyx files are parsed on every run (Cython-specific syntax stripped mechanically, the rest through `ast`):
for each `def` we get the typed parameters, the asserts and the call of the C kernel with its actual arguments.

* static (L2): facts implied by the wrapper (buffer type checks give valid regions of length prod(shape); asserts;
  scalar C types) |- each conjunct of the kernel's `requires`, decided by z3; conjuncts that are NOT implied are
  the caller obligations M.
* dynamic (L3 monitor): `monitor_module(mod, ...)` replaces every wrapper of the compiled module by a function that
  maps the actual numpy arguments to the kernel's parameters exactly as the .pyx does, evaluates the kernel's
  `requires` concretely BEFORE the kernel is entered, and raises KernelPreconditionViolated instead of entering
  the kernel when it does not hold (the witness is then replayed on the real kernel under ASan/UBSan).
"""
import ast, re, os
import numpy as np
from . import REPO

PYX = {'gis': 'src/hydrodiy/gis/c_hydrodiy_gis.pyx', 'data': 'src/hydrodiy/data/c_hydrodiy_data.pyx', 'stat': 'src/hydrodiy/stat/c_hydrodiy_stat.pyx'}
KERNEL_FILES = {}     # kernel name -> relpath, filled by props.common


class KernelPreconditionViolated(Exception):
    def __init__(self, wrapper, kernel, args, clause):
        Exception.__init__(self, 'call of %s would enter %s outside its requires: %s' % (wrapper, kernel, clause))
        self.wrapper = wrapper; self.kernel = kernel; self.kargs = args; self.clause = clause


def strip_pyx(src):
    """Cython -> Python syntax; returns (python source, {def name: {param: info}})"""
    src = src.replace('\t', '    ')
    lines = src.split('\n'); out = []; i = 0
    while i < len(lines):
        l = lines[i]
        if l.strip().startswith('cdef extern'):
            i += 1
            while i < len(lines) and (lines[i].startswith(' ') or lines[i].strip() == ''):
                i += 1
            continue
        if re.match(r'\s*cimport\b', l) or re.match(r'\s*from .* cimport', l):
            i += 1; continue
        m = re.match(r'(\s*)cdef\s+(.*)$', l)
        if m:
            # local C declaration: `cdef double polygon_xlim[2]` -> python list of that size; scalars dropped
            decl = m.group(2)
            am = re.match(r'(long long|double|int)\s+(\w+)\[(\d+)\]', decl)
            if am:
                out.append('%s%s = __carray__("%s", %s)' % (m.group(1), am.group(2), am.group(1), am.group(3)))
            else:
                out.append(m.group(1) + 'pass')
            i += 1; continue
        out.append(l); i += 1
    s = '\n'.join(out)
    params = {}     # (def name, ordinal of that def) -> [(param, info)] in order

    counter = {}

    def fix_header(hm):
        name = hm.group(1); inner = hm.group(2)
        k = counter.get(name, 0); counter[name] = k + 1
        plist = []; names = []
        # split on commas that are not inside brackets
        depth = 0; cur = ''; parts = []
        for ch in inner:
            if ch in '[(':
                depth += 1
            if ch in '])':
                depth -= 1
            if ch == ',' and depth == 0:
                parts.append(cur); cur = ''
            else:
                cur += ch
        if cur.strip():
            parts.append(cur)
        for part in parts:
            part = ' '.join(part.split())
            m = re.match(r"np\.ndarray\[\s*([\w ]+?)\s*,\s*ndim\s*=\s*(\d)\s*,\s*mode\s*=\s*'(\w)'\s*\]\s*(\w+)\s+not\s+None$", part)
            if m:
                plist.append((m.group(4), dict(kind='buffer', ctype=m.group(1).strip(), ndim=int(m.group(2))))); names.append(m.group(4)); continue
            m = re.match(r"(long long|double|int)\s+(\w+)$", part)
            if m:
                plist.append((m.group(2), dict(kind='scalar', ctype=m.group(1)))); names.append(m.group(2)); continue
            m = re.match(r"(\w+)$", part)
            if m:
                plist.append((m.group(1), dict(kind='object'))); names.append(m.group(1)); continue
            raise ValueError('pyx parameter not understood: ' + part)
        params[(name, k)] = plist
        return 'def %s(%s):' % (name, ', '.join(names))
    s = re.sub(r"def\s+(\w+)\s*\(([^)]*)\)\s*:", fix_header, s, flags=re.S)
    s = re.sub(r"<\s*[\w ]+\*\s*>\s*", "", s)
    return s, params


class Wrapper:
    def __init__(self, name, params, asserts, kernel, actuals, lineno):
        self.name = name; self.params = params; self.asserts = asserts; self.kernel = kernel; self.actuals = actuals; self.lineno = lineno


def parse(group, repo=None):
    """-> {wrapper name: Wrapper} (the last definition wins when a name is defined twice, as in Python)"""
    path = os.path.join(repo or REPO, PYX[group])
    py, pinfo = strip_pyx(open(path).read())
    tree = ast.parse(py)
    out = {}; seen = {}
    for node in tree.body:
        if not isinstance(node, ast.FunctionDef):
            continue
        k = seen.get(node.name, 0); seen[node.name] = k + 1
        if node.name.startswith('__'):
            continue
        params = pinfo[(node.name, k)]
        asserts = [n.test for n in ast.walk(node) if isinstance(n, ast.Assert)]
        calls = [c for c in ast.walk(node) if isinstance(c, ast.Call) and isinstance(c.func, ast.Name) and (c.func.id.startswith('c_') or c.func.id in ('ADtest', 'AD', 'adinf'))]
        if not calls:
            continue
        c = calls[-1]
        w = Wrapper(node.name, params, asserts, c.func.id, c.args, node.lineno)
        w.body = node
        out[node.name] = w
    return out


# ------------------------------------------------------------------------------------------------ dynamic monitor
NP_OF = {'long long': np.int64, 'int': np.int32, 'double': np.float64}


def _flat(a):
    return a.ravel().tolist()


def kernel_args(w, pyargs):
    """evaluate the actual arguments of the kernel call for concrete python arguments (as the .pyx does);
    returns None when the wrapper itself would reject the call (type check / assert)"""
    env = {}
    for (nm, inf), v in zip(w.params, pyargs):
        if inf['kind'] == 'buffer':
            if not isinstance(v, np.ndarray) or v.dtype != NP_OF[inf['ctype']] or v.ndim != inf['ndim'] or not v.flags['C_CONTIGUOUS']:
                return None
        env[nm] = v

    class NPX:
        @staticmethod
        def PyArray_DATA(x):
            return ('data', x)
    glob = {'np': NPX, '__carray__': lambda t, n: ('local', t, n)}
    # local C arrays assigned in the body before the call (polygon_xlim[0] = polygon[:, 0].min() ...)
    local = dict(env)
    for st in w.body.body:
        if isinstance(st, ast.Assign) and isinstance(st.value, ast.Call) and isinstance(st.value.func, ast.Name) and st.value.func.id == '__carray__':
            local[st.targets[0].id] = [0.0] * int(ast.literal_eval(st.value.args[1]))
        elif isinstance(st, ast.Assign) and isinstance(st.targets[0], ast.Subscript) and isinstance(st.targets[0].value, ast.Name) and isinstance(local.get(st.targets[0].value.id), list):
            try:
                local[st.targets[0].value.id][ast.literal_eval(st.targets[0].slice)] = float(eval(compile(ast.Expression(st.value), '<pyx>', 'eval'), {}, local))
            except Exception:
                return None         # e.g. min() of an empty array: the wrapper raises
        elif isinstance(st, ast.Assign) and isinstance(st.targets[0], ast.Name):
            try:
                local[st.targets[0].id] = eval(compile(ast.Expression(st.value), '<pyx>', 'eval'), glob, local)
            except Exception:
                pass
    for a in w.asserts:
        try:
            if not eval(compile(ast.Expression(a), '<pyx>', 'eval'), glob, local):
                return None
        except Exception:
            return None
    out = []
    for a in w.actuals:
        v = eval(compile(ast.Expression(a), '<pyx>', 'eval'), glob, local)
        if isinstance(v, tuple) and v[0] == 'data':
            out.append(_flat(v[1]))
        elif isinstance(v, list):
            out.append(list(v))
        elif isinstance(v, np.ndarray):
            out.append(_flat(v))
        else:
            out.append(v.item() if isinstance(v, np.generic) else v)
    return out


class Monitor:
    """wraps the functions of a compiled module; counts evaluations; records precondition violations"""

    def __init__(self, group, mod, contracts_registry, kernel_files, consts, max_elems=5000):
        from . import judge, cast
        self.group = group; self.mod = mod; self.wr = parse(group); self.calls = 0; self.checked = 0; self.skipped_large = 0
        self.violations = []; self.by_kernel = {}
        self.orig = {}
        for name, w in self.wr.items():
            f = getattr(mod, name, None)
            if f is None:
                continue
            rel = kernel_files.get(w.kernel)
            if rel is None:
                continue
            cf = contracts_registry[rel]; K = cf.kernels.get(w.kernel)
            if K is None:
                continue
            tu = cast.load(rel)
            fn = tu['functions'][w.kernel]
            sig = (cast.ret_type(fn), cast.params_of(fn))
            self.orig[name] = f
            setattr(mod, name, self._make(name, w, f, K, cf.specs, sig, consts, max_elems))

    def _make(self, name, w, f, K, specs, sig, consts, max_elems):
        from . import judge
        mon = self

        def wrapped(*args):
            mon.calls += 1
            try:
                ka = kernel_args(w, args)
            except Exception:
                ka = None
            if ka is not None:
                size = sum(len(a) for a in ka if isinstance(a, list))
                if size <= max_elems:
                    mon.checked += 1
                    mon.by_kernel[w.kernel] = mon.by_kernel.get(w.kernel, 0) + 1
                    if not judge.admissible(K, specs, sig, ka, consts):
                        clause = mon._first_failing(K, specs, sig, ka, consts)
                        mon.violations.append(dict(wrapper=name, kernel=w.kernel, args=ka, clause=clause))
                        raise KernelPreconditionViolated(name, w.kernel, ka, clause)
                else:
                    mon.skipped_large += 1
            return f(*args)
        wrapped.__name__ = name
        return wrapped

    def _first_failing(self, K, specs, sig, ka, consts):
        from . import judge
        from .cexpr import ConcEnv
        vars, mem = judge.build_entry(sig, ka)
        ghosts = judge.make_ghosts(K, specs, vars, mem, consts)
        env = ConcEnv(specs, vars, mem, None, None, None, ghosts, None, consts); env.old = env
        for r in K.requires_:
            try:
                if not env.truth(r):
                    return r
            except Exception as e:
                return '%s (not evaluable: %r)' % (r, e)
        return '?'

    def uninstall(self):
        for name, f in self.orig.items():
            setattr(self.mod, name, f)
