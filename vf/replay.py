"""./vcheck --replay <file>: re-run a recorded witness on the CURRENT working tree."""
import json, importlib, sys
from . import contract, judge
from .harness import Harness, group_of


def _unjson(x):
    if isinstance(x, list):
        return [_unjson(y) for y in x]
    if x == 'nan':
        return float('nan')
    if x in ('inf', '-inf'):
        return float(x)
    return x


def main(path):
    doc = json.load(open(path))
    print('property', doc['property']); print('obligation', json.dumps(doc['obligation']))
    print('what:', doc['what'])
    w = doc.get('witness')
    if not w:
        print('no concrete input was found for this failed obligation; solver output:')
        print(json.dumps(doc.get('solver'), indent=1)); return 1
    if w.get('python'):
        print('python-level witness:'); print(json.dumps(w, indent=1)[:6000])
        if w.get('script'):
            import subprocess, os
            env = dict(os.environ)
            p = subprocess.run([sys.executable, '-c', w['script']], env=env)
            return 1 if p.returncode else 0
        return 1
    rel = w['file']; fn = w['function']
    for m in ('c_grid', 'c_catchment', 'c_inside', 'c_data', 'c_stat'):
        try:
            importlib.import_module('contracts.' + m)
        except ImportError:
            pass
    cf = contract.REGISTRY[rel]; K = cf.kernels[fn]
    h = Harness(group_of(rel)); sig = h.sigs[fn.split('#')[0]]
    args = _unjson(w['args'])
    r = h.run([(fn.split('#')[0], args)])[0]
    from props import common
    bad = judge.judge(K, cf.specs, sig, args, r, common.fdc_consts())
    print('arguments:', args)
    print('returned:', r.get('ret'), r.get('arrays'))
    if r.get('san'):
        print('sanitizer:', r['san'][:3000])
    for b in bad:
        print('VIOLATED', b)
    h.close()
    print('replay:', 'violation reproduced' if bad else 'contract holds on the current tree for this input')
    return 1 if bad else 0
