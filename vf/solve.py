"""Discharge of verification conditions: z3 5.x (python wheel) first, cvc5 then z3 4.8 for the unknowns.
Each VC is a standalone SMT-LIB query.  A process pool is used for generation and solving."""
import os, subprocess, tempfile, time, multiprocessing as mp, re, hashlib
import z3
from fractions import Fraction

NPROC = int(os.environ.get('VERIF_JOBS', '16'))


def split_goal(g):
    """one VC per conjunct (and through implication / universal quantifier)"""
    if z3.is_and(g):
        out = []
        for c in g.children():
            out += split_goal(c)
        return out
    if z3.is_implies(g):
        a, b = g.children()
        parts = split_goal(b)
        if len(parts) > 1:
            return [z3.Implies(a, p) for p in parts]
        return [g]
    if z3.is_quantifier(g) and g.is_forall() and g.num_patterns() == 0:
        body = g.body()
        parts = split_goal(body)
        if len(parts) > 1:
            vs = [z3.Const(g.var_name(i), g.var_sort(i)) for i in range(g.num_vars())]
            # rebuild each part as a quantifier over the same bound variables
            res = []
            for p in parts:
                inst = z3.substitute_vars(p, *reversed(vs))
                res.append(z3.ForAll(vs, inst))
            return res
    return [g]


def to_smt2(hyp, goal):
    s = z3.Solver()
    for h in hyp:
        s.add(h)
    s.add(z3.Not(goal))
    return s.to_smt2()


def _model_value(v):
    if z3.is_int_value(v):
        return v.as_long()
    if z3.is_rational_value(v):
        return str(v.as_fraction())
    if z3.is_true(v):
        return True
    if z3.is_false(v):
        return False
    if z3.is_algebraic_value(v):
        return str(v.approx(12).as_fraction())
    return str(v)


def extract_model(s, m):
    """entry-state values: scalars by name, arrays `<p>!m0|!v0|!n0` over [0, len!<p>)"""
    out = {}
    decls = {d.name(): d for d in m.decls()}
    consts = {}
    for a in s.assertions():
        pass
    for name, d in decls.items():
        if d.arity() != 0:
            continue
        if '!' in name and not (name.startswith('len!') or name.endswith('!nan') or name.endswith('!m0') or name.endswith('!v0') or name.endswith('!n0')):
            continue
        c = d()
        if z3.is_array(c):
            base = name.rsplit('!', 1)[0]
            ln = decls.get('len!' + base)
            L = m.eval(ln(), model_completion=True).as_long() if ln is not None else 8
            L = max(0, min(L, 256))
            out[name] = [_model_value(m.eval(z3.Select(c, i), model_completion=True)) for i in range(L)]
        else:
            out[name] = _model_value(m.eval(c, model_completion=True))
    return out


def solve_one(job):
    """job = (id, smt2, timeout_ms, want_model) -> dict"""
    oid, smt2, timeout, want_model = job
    t0 = time.time()
    res = dict(id=oid, status='unknown', backend='z3-%s' % z3.get_version_string(), time=0.0, model=None, reason='')
    try:
        s = z3.Solver()
        s.set('timeout', timeout)
        s.from_string(smt2)
        r = s.check()
        res['status'] = str(r)
        if r == z3.sat and want_model:
            try:
                res['model'] = extract_model(s, s.model())
            except Exception as e:      # model extraction must never turn into a verdict
                res['reason'] = 'model extraction failed: %r' % (e,)
        if r == z3.unknown:
            res['reason'] = s.reason_unknown()
    except Exception as e:
        res['status'] = 'error'; res['reason'] = repr(e)
    res['time'] = time.time() - t0
    if res['status'] == 'unknown':
        # second opinion
        for backend in ('cvc5', 'z3old'):
            r2 = run_cli(backend, smt2, timeout)
            if r2 in ('unsat', 'sat'):
                if r2 == 'sat' and res.get('model') is None:
                    # a `sat` without a model from the python API is reported as such (no-failing-input-found path)
                    pass
                res['status'] = r2; res['backend'] = {'cvc5': 'cvc5-1.0.3', 'z3old': 'z3-4.8.12'}[backend]
                break
        res['time'] = time.time() - t0
    return res


def run_cli(backend, smt2, timeout_ms):
    with tempfile.NamedTemporaryFile('w', suffix='.smt2', delete=False, dir=os.environ.get('VERIF_TMP')) as f:
        if backend == 'cvc5':
            f.write('(set-logic ALL)\n')
        f.write(smt2)
        if '(check-sat)' not in smt2:
            f.write('\n(check-sat)\n')
        path = f.name
    try:
        if backend == 'cvc5':
            cmd = ['/usr/bin/cvc5', '--lang=smt2', '--tlimit=%d' % timeout_ms, path]
        else:
            cmd = ['/usr/bin/z3', '-T:%d' % max(1, timeout_ms // 1000), path]
        p = subprocess.run(cmd, capture_output=True, text=True, timeout=timeout_ms / 1000 + 10)
        out = p.stdout.strip().split('\n')[0] if p.stdout.strip() else ''
        return out if out in ('sat', 'unsat') else 'unknown'
    except Exception:
        return 'unknown'
    finally:
        try:
            os.unlink(path)
        except OSError:
            pass


_POOL = None


def pool():
    global _POOL
    if _POOL is None:
        ctx = mp.get_context('fork')
        _POOL = ctx.Pool(NPROC)
    return _POOL


def close_pool():
    global _POOL
    if _POOL is not None:
        _POOL.terminate(); _POOL = None


def solve_all(jobs):
    if not jobs:
        return []
    if NPROC <= 1 or len(jobs) == 1:
        return [solve_one(j) for j in jobs]
    return pool().map(solve_one, jobs, chunksize=max(1, min(8, len(jobs) // (NPROC * 4) or 1)))
