"""Discharge of verification conditions: z3 5.x (python wheel) first, cvc5 then z3 4.8 for the unknowns.
Each VC is a standalone SMT-LIB query.  A process pool is used for generation and solving."""
import os, subprocess, tempfile, time, multiprocessing as mp, re, hashlib
import z3
from fractions import Fraction

NPROC = int(os.environ.get('VERIF_JOBS', '16'))


def split_goal(g):
    """one VC per conjunct (and through implication / universal quantifier)"""
    if z3.is_and(g):
        out = []
        for c in g.children():
            out += split_goal(c)
        return out
    if z3.is_implies(g):
        a, b = g.children()
        parts = split_goal(b)
        if len(parts) > 1:
            return [z3.Implies(a, p) for p in parts]
        return [g]
    if z3.is_quantifier(g) and g.is_forall() and g.num_patterns() == 0:
        body = g.body()
        parts = split_goal(body)
        if len(parts) > 1:
            vs = [z3.Const(g.var_name(i), g.var_sort(i)) for i in range(g.num_vars())]
            # rebuild each part as a quantifier over the same bound variables
            res = []
            for p in parts:
                inst = z3.substitute_vars(p, *reversed(vs))
                res.append(z3.ForAll(vs, inst))
            return res
    return [g]


_HQ = {}


def has_quantifier(e):
    k = e.get_id()
    r = _HQ.get(k)
    if r is None:
        if z3.is_quantifier(e):
            r = True
        elif z3.is_app(e):
            r = any(has_quantifier(c) for c in e.children())
        else:
            r = False
        _HQ[k] = r
    return r


_skc = [0]


def _base(name):
    return name.split('!')[0]


def skolemize(hyp, goal):
    """goal `forall xs. P` is valid iff P[sk] is, for fresh constants sk.  Quantified hypotheses whose bound
    variables carry the same base names as the goal's are additionally instantiated at those constants
    (any instance of a hypothesis is a consequence of it: sound; it only spares the solver the search)."""
    sk = {}
    g = goal
    ante = []
    while True:
        if z3.is_implies(g):
            # hyps |- A => B   iff   hyps, A |- B
            ante.append(g.arg(0)); g = g.arg(1); continue
        if z3.is_quantifier(g) and g.is_forall():
            n = g.num_vars()
            cs = []
            for i in range(n):
                _skc[0] += 1
                c = z3.Const('%s!sk%d' % (_base(g.var_name(i)), _skc[0]), g.var_sort(i))
                cs.append(c); sk.setdefault(_base(g.var_name(i)), c)
            g = z3.substitute_vars(g.body(), *reversed(cs))
            continue
        break
    hyp = list(hyp) + ante
    if not sk:
        return hyp, g
    extra = []

    def instantiate(h, depth=0):
        q = h; guards = []
        while z3.is_implies(q):
            guards.append(q.arg(0)); q = q.arg(1)
        if z3.is_and(q) and depth > 0:
            for c in q.children():
                instantiate(z3.Implies(z3.And(*guards), c) if guards else c, depth)
            return
        if not (z3.is_quantifier(q) and q.is_forall()):
            return
        names = [_base(q.var_name(i)) for i in range(q.num_vars())]
        if not all(nm in sk and sk[nm].sort() == q.var_sort(i) for i, nm in enumerate(names)):
            return
        inst = z3.substitute_vars(q.body(), *reversed([sk[nm] for nm in names]))
        full = z3.Implies(z3.And(*guards), inst) if guards else inst
        extra.append(full)
        if depth < 3 and has_quantifier(inst):
            instantiate(full, depth + 1)

    for h in hyp:
        instantiate(h)
    return list(hyp) + extra, g


def to_smt2(hyp, goal):
    s = z3.Solver()
    for h in hyp:
        s.add(h)
    s.add(z3.Not(goal))
    return s.to_smt2()


def _model_value(v):
    if z3.is_int_value(v):
        return v.as_long()
    if z3.is_rational_value(v):
        return str(v.as_fraction())
    if z3.is_true(v):
        return True
    if z3.is_false(v):
        return False
    if z3.is_algebraic_value(v):
        return str(v.approx(12).as_fraction())
    return str(v)


def extract_model(s, m):
    """entry-state values: scalars by name, arrays `<p>!m0|!v0|!n0` over [0, len!<p>)"""
    out = {}
    decls = {d.name(): d for d in m.decls()}
    consts = {}
    for a in s.assertions():
        pass
    for name, d in decls.items():
        if d.arity() != 0:
            continue
        if '!' in name and not (name.startswith('len!') or name.endswith('!nan') or name.endswith('!m0') or name.endswith('!v0') or name.endswith('!n0')):
            continue
        c = d()
        if z3.is_array(c):
            base = name.rsplit('!', 1)[0]
            ln = decls.get('len!' + base)
            L = m.eval(ln(), model_completion=True).as_long() if ln is not None else 8
            L = max(0, min(L, 256))
            out[name] = [_model_value(m.eval(z3.Select(c, i), model_completion=True)) for i in range(L)]
        else:
            out[name] = _model_value(m.eval(c, model_completion=True))
    return out


def _z3_try(smt2, timeout, cfg, want_model):
    s = z3.Solver()
    for k, v in cfg.items():
        s.set(k, v)
    s.set('timeout', int(timeout))
    s.from_string(smt2)
    r = s.check()
    model = None; reason = ''
    if r == z3.sat and want_model:
        try:
            model = extract_model(s, s.model())
        except Exception as e:      # model extraction must never turn into a verdict
            reason = 'model extraction failed: %r' % (e,)
    if r == z3.unknown:
        reason = s.reason_unknown()
    return str(r), model, reason


def solve_one(job):
    """job = (id, smt2, timeout_ms, want_model[, smt2_relaxed]) -> dict.
    Portfolio, first `unsat` wins: (1) relaxation without quantified hypotheses (sound for proving: fewer
    hypotheses), (2) full problem, default z3, (3) full problem, E-matching only, (4) cvc5, (5) z3 4.8.
    `sat` is only accepted for the full problem."""
    if job[0] == 'cover':
        return cover_one(job)
    if job[0] == 'retry':
        return retry_one(job)
    oid, smt2, timeout, want_model = job[:4]
    relaxed = job[4] if len(job) > 4 else None
    t0 = time.time()
    ver = 'z3-%s' % z3.get_version_string()
    res = dict(id=oid, status='unknown', backend=ver, time=0.0, model=None, reason='')
    try:
        for rel in ([relaxed] if isinstance(relaxed, str) else (relaxed or [])):
            r, _, _ = _z3_try(rel, min(timeout, 8000), {}, False)
            if r == 'unsat':
                res.update(status='unsat', backend=ver + ' (quantifier-free relaxation)', time=time.time() - t0)
                return res
        em = lambda seed: {'smt.mbqi': False, 'smt.auto_config': False, 'smt.random_seed': seed}
        if 'forall' in smt2:
            # E-matching only: fails fast when the triggers do not lead to a proof (never answers sat)
            # (several seeds: trigger-based proofs are quick when they succeed but depend on the instantiation order)
            for seed in (0, 1, 2, 3):
                r2, _, _ = _z3_try(smt2, max(1500, min(4000, timeout // 4)), em(seed), False)
                if r2 == 'unsat':
                    res.update(status='unsat', backend=ver + ' (e-matching only)', time=time.time() - t0)
                    return res
        if timeout >= RETRY_MIN_BUDGET:
            # cvc5 early with a short budget: it often decides at once what z3's default strategy times out on
            r3 = run_cli('cvc5', smt2, min(10000, timeout // 3))
            if r3 == 'unsat':
                res.update(status='unsat', backend='cvc5-1.0.3', time=time.time() - t0)
                return res
            # z3 4.8 early with a short budget as well: its quantifier instantiation differs from 5.x (decides some
            # forall-exists invariants of c_delineate_area#reach in 0.1 s that every 5.x configuration times out on)
            r3 = run_cli('z3old', smt2, min(5000, timeout // 4))
            if r3 == 'unsat':
                res.update(status='unsat', backend='z3-4.8.12', time=time.time() - t0)
                return res
        if 'forall' in smt2 and timeout >= RETRY_MIN_BUDGET:
            # E-matching again with a longer budget, before the (slow, rarely successful on these) default strategy
            for seed in (0, 1, 2):
                r2, _, _ = _z3_try(smt2, min(10000, timeout // 3), em(seed), False)
                if r2 == 'unsat':
                    res.update(status='unsat', backend=ver + ' (e-matching only)', time=time.time() - t0, reason='')
                    return res
        r, model, reason = _z3_try(smt2, timeout, {}, want_model)
        res.update(status=r, model=model, reason=reason)
    except Exception as e:
        res['status'] = 'error'; res['reason'] = repr(e)
    res['time'] = time.time() - t0
    if res['status'] == 'unknown':
        # second opinion
        for backend in ('cvc5', 'z3old'):
            r2 = run_cli(backend, smt2, timeout)
            if r2 in ('unsat', 'sat'):
                res['status'] = r2; res['backend'] = {'cvc5': 'cvc5-1.0.3', 'z3old': 'z3-4.8.12'}[backend]
                break
        res['time'] = time.time() - t0
    return res


def retry_one(job):
    """second round for a VC the first round left `unknown`: ONE configuration with a long budget (the configurations of a VC run in
    parallel on the idle cores, see solve_all).  Makes verdicts independent of the machine load: the short budgets of the first
    round are an optimisation, not the decision."""
    _, oid, smt2, cfgname, cfg, timeout = job
    t0 = time.time()
    ver = 'z3-%s' % z3.get_version_string()
    try:
        if cfgname in ('cvc5', 'z3old'):
            r = run_cli(cfgname, smt2, timeout); reason = ''
            backend = {'cvc5': 'cvc5-1.0.3', 'z3old': 'z3-4.8.12'}[cfgname]
        else:
            r, _, reason = _z3_try(smt2, timeout, cfg, False)
            backend = ver + ' (%s, second round)' % cfgname
    except Exception as e:
        return dict(id=oid, status='error', backend=ver, time=time.time() - t0, model=None, reason=repr(e), cfg=cfgname)
    if r == 'sat' and cfgname != 'default':
        r = 'unknown'            # sat is only meaningful for the full problem under the complete procedure
    return dict(id=oid, status=r, backend=backend, time=time.time() - t0, model=None, reason=reason, cfg=cfgname)


def cover_one(job):
    """vacuity guard: are the hypotheses at this point satisfiable?  `unsat` = contradictory contract.
    The quantifier-free part is checked first (its unsatisfiability already proves a contradiction)."""
    _, cid, smt2, relaxed = job
    t0 = time.time()
    status = 'unknown'
    try:
        if relaxed:
            r, _, _ = _z3_try(relaxed, 3000, {}, False)
            if r == 'unsat':
                return dict(id=cid, status='unsat', time=time.time() - t0, backend='z3', model=None, reason='quantifier-free part contradictory')
            status = 'sat-relaxed' if r == 'sat' else 'unknown'
        r, _, _ = _z3_try(smt2, 1500, {}, False)
        if r in ('sat', 'unsat'):
            status = r
    except Exception as e:
        return dict(id=cid, status='unknown', time=time.time() - t0, backend='z3', model=None, reason=repr(e))
    return dict(id=cid, status=status, time=time.time() - t0, backend='z3', model=None, reason='')


def run_cli(backend, smt2, timeout_ms):
    with tempfile.NamedTemporaryFile('w', suffix='.smt2', delete=False, dir=os.environ.get('VERIF_TMP')) as f:
        if backend == 'cvc5':
            f.write('(set-logic ALL)\n')
        f.write(smt2)
        if '(check-sat)' not in smt2:
            f.write('\n(check-sat)\n')
        path = f.name
    try:
        if backend == 'cvc5':
            cmd = ['/usr/bin/cvc5', '--lang=smt2', '--tlimit=%d' % timeout_ms, path]
        else:
            cmd = ['/usr/bin/z3', '-T:%d' % max(1, timeout_ms // 1000), path]
        p = subprocess.run(cmd, capture_output=True, text=True, timeout=timeout_ms / 1000 + 10)
        out = p.stdout.strip().split('\n')[0] if p.stdout.strip() else ''
        return out if out in ('sat', 'unsat') else 'unknown'
    except Exception:
        return 'unknown'
    finally:
        try:
            os.unlink(path)
        except OSError:
            pass


_POOL = None


def pool():
    """plain fork pool for generation tasks (no solver calls that may ignore their timeout)"""
    global _POOL
    if _POOL is None:
        ctx = mp.get_context('fork')
        _POOL = ctx.Pool(NPROC)
    return _POOL


def close_pool():
    global _POOL
    if _POOL is not None:
        _POOL.terminate(); _POOL = None


def _worker(conn):
    while True:
        try:
            job = conn.recv()
        except EOFError:
            return
        if job is None:
            return
        try:
            conn.send(solve_one(job))
        except Exception as e:
            conn.send(dict(id=job[0], status='error', backend='', time=0.0, model=None, reason=repr(e)))


def hard_limit(job):
    if job[0] == 'cover':
        return 12
    if job[0] == 'retry':
        return job[5] / 1000.0 + 30
    # portfolio: relaxed 3s + full T + e-matching T/2 + cvc5 T + z3old T (+ process start-up), then slack
    return 12 + 16 + job[2] / 1000.0 * 5.6 + 25


RETRY_MIN_BUDGET = 10000       # VCs with a shorter budget were already refuted concretely (refuter-first): no second round


def solve_all(jobs):
    """first round: portfolio per VC with short stage budgets; second round: every VC still `unknown` is retried with every
    configuration in parallel and a long budget, first `unsat` wins"""
    res = _run_pool(jobs)
    strag = [i for i, (j, r) in enumerate(zip(jobs, res)) if j[0] not in ('cover', 'retry') and r['status'] == 'unknown' and j[2] >= RETRY_MIN_BUDGET]
    if not strag or len(strag) > 24:
        return res
    retry = []; owner = []
    for i in strag:
        j = jobs[i]; oid, smt2, timeout = j[0], j[1], j[2]
        long_t = int(timeout * 3)
        relaxed = j[4] if len(j) > 4 else None
        cfgs = []
        for k, rel in enumerate([relaxed] if isinstance(relaxed, str) else (relaxed or [])):
            cfgs.append(('quantifier-free relaxation %d' % k, {}, rel))
        if 'forall' in smt2:
            for seed in range(6):
                cfgs.append(('e-matching only, seed %d' % seed, {'smt.mbqi': False, 'smt.auto_config': False, 'smt.random_seed': seed}, smt2))
        cfgs += [('default', {}, smt2), ('cvc5', None, smt2), ('z3old', None, smt2)]
        for nm, cfg, text in cfgs:
            retry.append(('retry', oid, text, nm, cfg, long_t)); owner.append(i)
    rr = _run_pool(retry, groups=owner)
    for i in strag:
        mine = [r for o, r in zip(owner, rr) if o == i]
        win = [r for r in mine if r['status'] == 'unsat'] or [r for r in mine if r['status'] == 'sat']
        if win:
            w = win[0]
            res[i] = dict(id=jobs[i][0], status=w['status'], backend=w['backend'], time=res[i]['time'] + w['time'], model=None, reason=w.get('reason', ''))
        else:
            res[i]['reason'] = (res[i].get('reason') or '') + ' | second round (x3 budget, %d configurations): all unknown' % len(mine)
    return res


def _run_pool(jobs, groups=None):
    """Solve every job with a hard wall-clock limit per job: z3 does not always honour its own timeout
    (nonlinear preprocessing), so each worker is a process that is killed and replaced when it overruns;
    the job is then `unknown` (never a verdict)."""
    if not jobs:
        return []
    from multiprocessing.connection import wait
    ctx = mp.get_context('fork')
    n = max(1, min(NPROC, len(jobs)))
    results = {}
    pending = list(range(len(jobs)))[::-1]
    workers = []

    def spawn():
        a, b = ctx.Pipe()
        p = ctx.Process(target=_worker, args=(b,), daemon=True)
        p.start(); b.close()
        return dict(p=p, conn=a, job=None, t0=0.0)

    def assign(w):
        if pending:
            j = pending.pop(); w['job'] = j; w['t0'] = time.time(); w['conn'].send(jobs[j])
        else:
            w['job'] = None

    for _ in range(n):
        w = spawn(); workers.append(w); assign(w)
    while any(w['job'] is not None for w in workers):
        busy = [w for w in workers if w['job'] is not None]
        ready = wait([w['conn'] for w in busy], timeout=1.0)
        now = time.time()
        for w in busy:
            if w['job'] is None or w.get('fresh', 0) > now:
                continue
            if w['conn'] in ready:
                try:
                    r = w['conn'].recv()
                except (EOFError, OSError):
                    r = dict(id=jobs[w['job']][0], status='unknown', backend='', time=now - w['t0'], model=None, reason='solver process died')
                    w['p'].kill(); nw = spawn(); w.update(nw)
                results[w['job']] = r
                if groups is not None and r.get('status') == 'unsat':
                    # first proof wins: drop the other configurations of the same VC
                    g = groups[w['job']]
                    for jj in [x for x in pending if groups[x] == g]:
                        pending.remove(jj); results[jj] = dict(id=jobs[jj][0], status='skipped', backend='', time=0.0, model=None, reason='')
                    for w2 in busy:
                        if w2 is not w and w2['job'] is not None and groups[w2['job']] == g and w2['conn'] not in ready:
                            results[w2['job']] = dict(id=jobs[w2['job']][0], status='skipped', backend='', time=0.0, model=None, reason='')
                            w2['p'].kill(); w2['p'].join(1); nw = spawn(); w2.update(nw); assign(w2); w2['fresh'] = now + 1e-9
                assign(w)
            elif now - w['t0'] > hard_limit(jobs[w['job']]):
                j = w['job']
                w['p'].kill(); w['p'].join(1)
                results[j] = dict(id=jobs[j][0], status='unknown', backend='', time=now - w['t0'], model=None, reason='hard time limit (solver ignored its timeout)')
                nw = spawn(); w.update(nw)
                assign(w)
    for w in workers:
        try:
            w['conn'].send(None)
        except Exception:
            pass
    t_end = time.time() + 0.5
    for w in workers:
        w['p'].join(max(0.0, t_end - time.time()))
        if w['p'].is_alive():
            w['p'].kill()
    return [results[i] for i in range(len(jobs))]
